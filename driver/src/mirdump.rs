use crate::json::J;
use crate::Ctx;
use rustc_hir::def::DefKind;
use rustc_middle::mir::{
    AggregateKind, BasicBlock, Body, Const, Operand, Place, ProjectionElem, Rvalue, StatementKind,
    TerminatorKind, UnwindAction,
};
use rustc_middle::ty::{self, Instance, TyCtxt, TypingEnv};
use rustc_span::def_id::{DefId, LocalDefId};

pub fn def_path(tcx: TyCtxt<'_>, did: DefId) -> String {
    tcx.def_path_str(did)
}

pub fn safe_resolve<'tcx>(
    tcx: TyCtxt<'tcx>,
    tenv: TypingEnv<'tcx>,
    did: DefId,
    args: ty::GenericArgsRef<'tcx>,
) -> Option<Instance<'tcx>> {
    if tcx.generics_of(did).count() != args.len() {
        return None;
    }
    match Instance::try_resolve(tcx, tenv, did, args) {
        Ok(Some(i)) => Some(i),
        _ => None,
    }
}

fn place(cx: &mut Ctx<'_>, p: &Place<'_>) -> J {
    let mut proj = Vec::new();
    for e in p.projection.iter() {
        proj.push(match e {
            ProjectionElem::Deref => J::s("*"),
            ProjectionElem::Field(f, _) => J::Int(f.as_usize() as i128),
            ProjectionElem::Index(l) => J::Arr(vec![J::s("i"), J::Int(l.as_usize() as i128)]),
            ProjectionElem::ConstantIndex { offset, from_end, .. } => {
                J::Arr(vec![J::s("ci"), J::Int(offset as i128), J::Bool(from_end)])
            }
            ProjectionElem::Subslice { from, to, from_end } => {
                J::Arr(vec![J::s("ss"), J::Int(from as i128), J::Int(to as i128), J::Bool(from_end)])
            }
            ProjectionElem::Downcast(name, v) => J::Arr(vec![
                J::s("dc"),
                J::s(name.map(|n| n.to_string()).unwrap_or_default()),
                J::Int(v.as_usize() as i128),
            ]),
            other => J::Arr(vec![J::s("?"), J::s(format!("{:?}", other))]),
        });
    }
    let _ = cx;
    if proj.is_empty() {
        J::Int(p.local.as_usize() as i128)
    } else {
        J::Arr(vec![J::Int(p.local.as_usize() as i128), J::Arr(proj)])
    }
}

fn constant<'tcx>(cx: &mut Ctx<'tcx>, owner: DefId, c: &Const<'tcx>) -> J {
    let tcx = cx.tcx;
    let ty = c.ty();
    let tenv = TypingEnv::post_analysis(tcx, owner);
    match ty.kind() {
        ty::FnDef(did, args) => {
            let mut path = def_path(tcx, *did);
            let mut resolved = true;
            let mut ga = format!("{:?}", args);
            if let Some(inst) = safe_resolve(tcx, tenv, *did, args) {
                path = def_path(tcx, inst.def_id());
                ga = format!("{:?}", inst.args);
            } else if tcx.trait_of_assoc(*did).is_some() {
                resolved = false;
            }
            return J::Obj(vec![
                ("fn", J::s(path)),
                ("decl", J::s(def_path(tcx, *did))),
                ("ga", J::s(ga)),
                ("res", J::Bool(resolved)),
            ]);
        }
        ty::Closure(did, _) => {
            return J::Obj(vec![("closure", J::s(def_path(tcx, *did)))]);
        }
        _ => {}
    }
    let tys = format!("{}", ty);
    if ty.is_integral() || ty.is_bool() || ty.is_char() {
        if let Some(si) = c.try_eval_scalar_int(tcx, tenv) {
            let size = si.size();
            let v: i128 = if ty.is_signed() {
                si.to_int(size)
            } else {
                si.to_uint(size) as i128
            };
            return J::Obj(vec![("int", J::Int(v)), ("ty", J::s(tys))]);
        }
    }
    // pointers to statics: name the static
    if ty.is_ref() || ty.is_raw_ptr() {
        if let Some(rustc_middle::mir::interpret::Scalar::Ptr(ptr, _)) = c.try_eval_scalar(tcx, tenv) {
            let aid = ptr.provenance.alloc_id();
            if let Some(rustc_middle::mir::interpret::GlobalAlloc::Static(sdid)) = tcx.try_get_global_alloc(aid) {
                return J::Obj(vec![("static", J::s(def_path(tcx, sdid))), ("ty", J::s(tys))]);
            }
        }
    }
    // string literals and everything else: debug rendering
    let mut s = format!("{}", c);
    if s.len() > 200 {
        s.truncate(200);
    }
    J::Obj(vec![("const", J::s(s)), ("ty", J::s(tys))])
}

fn operand<'tcx>(cx: &mut Ctx<'tcx>, owner: DefId, o: &Operand<'tcx>) -> J {
    match o {
        Operand::Copy(p) => J::Arr(vec![J::s("c"), place(cx, p)]),
        Operand::Move(p) => J::Arr(vec![J::s("m"), place(cx, p)]),
        Operand::Constant(c) => J::Arr(vec![J::s("k"), constant(cx, owner, &c.const_)]),
        #[allow(unreachable_patterns)]
        other => J::Arr(vec![J::s("?"), J::s(format!("{:?}", other))]),
    }
}

fn rvalue<'tcx>(cx: &mut Ctx<'tcx>, owner: DefId, body: &Body<'tcx>, rv: &Rvalue<'tcx>) -> J {
    let tcx = cx.tcx;
    match rv {
        Rvalue::Use(o, ..) => J::Arr(vec![J::s("use"), operand(cx, owner, o)]),
        Rvalue::Repeat(o, n) => {
            J::Arr(vec![J::s("repeat"), operand(cx, owner, o), J::s(format!("{}", n))])
        }
        Rvalue::Ref(_, bk, p) => {
            let m = matches!(bk, rustc_middle::mir::BorrowKind::Mut { .. });
            J::Arr(vec![J::s(if m { "refmut" } else { "ref" }), place(cx, p)])
        }
        Rvalue::RawPtr(_, p) => J::Arr(vec![J::s("rawptr"), place(cx, p)]),
        Rvalue::Cast(kind, o, ty) => {
            let t = cx.ty(format!("{}", ty));
            let from = o.ty(&body.local_decls, tcx);
            let ft = cx.ty(format!("{}", from));
            let mut k = format!("{:?}", kind);
            if let Some(i) = k.find('(') {
                k.truncate(i);
            }
            J::Arr(vec![J::s("cast"), J::s(k), operand(cx, owner, o), t, ft])
        }
        Rvalue::BinaryOp(op, box (a, b)) => J::Arr(vec![
            J::s("bin"),
            J::s(format!("{:?}", op)),
            operand(cx, owner, a),
            operand(cx, owner, b),
        ]),
        Rvalue::UnaryOp(op, a) => {
            J::Arr(vec![J::s("un"), J::s(format!("{:?}", op)), operand(cx, owner, a)])
        }
        Rvalue::Discriminant(p) => J::Arr(vec![J::s("discr"), place(cx, p)]),
        Rvalue::Aggregate(box kind, ops) => {
            let k = match kind {
                AggregateKind::Array(_) => J::s("array"),
                AggregateKind::Tuple => J::s("tuple"),
                AggregateKind::Adt(did, variant, _, _, _) => {
                    let adt = tcx.adt_def(*did);
                    let v = adt.variant(*variant);
                    J::Arr(vec![
                        J::s("adt"),
                        J::s(def_path(tcx, *did)),
                        J::s(v.name.to_string()),
                        J::Arr(v.fields.iter().map(|f| J::s(f.name.to_string())).collect()),
                    ])
                }
                AggregateKind::Closure(did, _) => {
                    J::Arr(vec![J::s("closure"), J::s(def_path(tcx, *did))])
                }
                other => J::s(format!("{:?}", other)),
            };
            let o: Vec<J> = ops.iter().map(|x| operand(cx, owner, x)).collect();
            J::Arr(vec![J::s("agg"), k, J::Arr(o)])
        }
        Rvalue::CopyForDeref(p) => J::Arr(vec![J::s("use"), J::Arr(vec![J::s("c"), place(cx, p)])]),
        Rvalue::ThreadLocalRef(did) => J::Arr(vec![J::s("tls"), J::s(def_path(tcx, *did))]),
        #[allow(unreachable_patterns)]
        other => {
            let mut s = format!("{:?}", other);
            if s.len() > 160 {
                s.truncate(160);
            }
            J::Arr(vec![J::s("other"), J::s(s)])
        }
    }
}

fn bbj(b: BasicBlock) -> J {
    J::Int(b.as_usize() as i128)
}

fn unwind_j(u: &UnwindAction) -> J {
    match u {
        UnwindAction::Cleanup(b) => bbj(*b),
        _ => J::Null,
    }
}

pub fn dump_mir<'tcx>(cx: &mut Ctx<'tcx>, ldid: LocalDefId) -> J {
    let tcx = cx.tcx;
    let did = ldid.to_def_id();
    let body: &Body<'tcx> = tcx.optimized_mir(did);
    // locals
    let mut names: Vec<Option<String>> = vec![None; body.local_decls.len()];
    for vdi in body.var_debug_info.iter() {
        if let rustc_middle::mir::VarDebugInfoContents::Place(p) = &vdi.value {
            if p.projection.is_empty() {
                names[p.local.as_usize()] = Some(vdi.name.to_string());
            }
        }
    }
    let mut locals = Vec::new();
    for (l, d) in body.local_decls.iter_enumerated() {
        let t = cx.ty(format!("{}", d.ty));
        let n = names[l.as_usize()].clone();
        locals.push(J::Arr(vec![t, n.map(J::Str).unwrap_or(J::Null)]));
    }
    // upvar debug names for closures: projections off _1
    let mut upvars = Vec::new();
    for vdi in body.var_debug_info.iter() {
        if let rustc_middle::mir::VarDebugInfoContents::Place(p) = &vdi.value {
            if !p.projection.is_empty() && p.local.as_usize() == 1 {
                upvars.push(J::Arr(vec![J::s(vdi.name.to_string()), place(cx, p)]));
            }
        }
    }
    let mut blocks = Vec::new();
    for (_bb, data) in body.basic_blocks.iter_enumerated() {
        let mut stmts = Vec::new();
        for st in data.statements.iter() {
            match &st.kind {
                StatementKind::Assign(box (p, rv)) => {
                    let (_, line, _, exp) = cx.loc(st.source_info.span);
                    let pl = place(cx, p);
                    let r = rvalue(cx, did, body, rv);
                    stmts.push(J::Arr(vec![
                        J::s("="),
                        pl,
                        r,
                        J::Int(line as i128),
                        J::Bool(exp),
                    ]));
                }
                StatementKind::SetDiscriminant { place: p, variant_index } => {
                    stmts.push(J::Arr(vec![
                        J::s("setdiscr"),
                        place(cx, p),
                        J::Int(variant_index.as_usize() as i128),
                    ]));
                }
                StatementKind::StorageDead(l) => {
                    stmts.push(J::Arr(vec![J::s("dead"), J::Int(l.as_usize() as i128)]));
                }
                StatementKind::StorageLive(l) => {
                    stmts.push(J::Arr(vec![J::s("live"), J::Int(l.as_usize() as i128)]));
                }
                _ => {}
            }
        }
        let term = data.terminator();
        let (_, tline, _, texp) = cx.loc(term.source_info.span);
        let t = match &term.kind {
            TerminatorKind::Goto { target } => J::Obj(vec![("k", J::s("goto")), ("t", bbj(*target))]),
            TerminatorKind::SwitchInt { discr, targets } => {
                let mut ts = Vec::new();
                for (v, b) in targets.iter() {
                    ts.push(J::Arr(vec![J::Int(v as i128), bbj(b)]));
                }
                J::Obj(vec![
                    ("k", J::s("switch")),
                    ("d", operand(cx, did, discr)),
                    ("ts", J::Arr(ts)),
                    ("o", bbj(targets.otherwise())),
                ])
            }
            TerminatorKind::Return => J::Obj(vec![("k", J::s("return"))]),
            TerminatorKind::Unreachable => J::Obj(vec![("k", J::s("unreachable"))]),
            TerminatorKind::UnwindResume => J::Obj(vec![("k", J::s("resume"))]),
            TerminatorKind::UnwindTerminate(_) => J::Obj(vec![("k", J::s("terminate"))]),
            TerminatorKind::Drop { place: p, target, unwind, .. } => J::Obj(vec![
                ("k", J::s("drop")),
                ("p", place(cx, p)),
                ("t", bbj(*target)),
                ("u", unwind_j(unwind)),
            ]),
            TerminatorKind::Call { func, args, destination, target, unwind, fn_span, .. } => {
                let f = operand(cx, did, func);
                let a: Vec<J> = args.iter().map(|x| operand(cx, did, &x.node)).collect();
                let (_, fl, _, fexp) = cx.loc(*fn_span);
                J::Obj(vec![
                    ("k", J::s("call")),
                    ("f", f),
                    ("a", J::Arr(a)),
                    ("d", place(cx, destination)),
                    ("t", target.map(bbj).unwrap_or(J::Null)),
                    ("u", unwind_j(unwind)),
                    ("fl", J::Int(fl as i128)),
                    ("fx", J::Bool(fexp)),
                ])
            }
            TerminatorKind::Assert { cond, expected, msg, target, unwind } => {
                let mut m = format!("{:?}", msg);
                if m.len() > 120 {
                    m.truncate(120);
                }
                let kind = match &**msg {
                    rustc_middle::mir::AssertKind::BoundsCheck { .. } => "bounds".to_string(),
                    rustc_middle::mir::AssertKind::Overflow(op, _, _) => format!("overflow:{:?}", op),
                    rustc_middle::mir::AssertKind::OverflowNeg(_) => "overflow:Neg".to_string(),
                    rustc_middle::mir::AssertKind::DivisionByZero(_) => "divzero".to_string(),
                    rustc_middle::mir::AssertKind::RemainderByZero(_) => "remzero".to_string(),
                    _ => "other".to_string(),
                };
                let ops = match &**msg {
                    rustc_middle::mir::AssertKind::BoundsCheck { len, index } => {
                        vec![operand(cx, did, len), operand(cx, did, index)]
                    }
                    rustc_middle::mir::AssertKind::Overflow(_, a, b) => {
                        vec![operand(cx, did, a), operand(cx, did, b)]
                    }
                    _ => vec![],
                };
                J::Obj(vec![
                    ("k", J::s("assert")),
                    ("c", operand(cx, did, cond)),
                    ("e", J::Bool(*expected)),
                    ("ak", J::s(kind)),
                    ("ops", J::Arr(ops)),
                    ("msg", J::s(m)),
                    ("t", bbj(*target)),
                    ("u", unwind_j(unwind)),
                ])
            }
            TerminatorKind::FalseEdge { real_target, .. } => {
                J::Obj(vec![("k", J::s("goto")), ("t", bbj(*real_target))])
            }
            TerminatorKind::FalseUnwind { real_target, .. } => {
                J::Obj(vec![("k", J::s("goto")), ("t", bbj(*real_target))])
            }
            other => {
                let mut s = format!("{:?}", other);
                if s.len() > 120 {
                    s.truncate(120);
                }
                let succ: Vec<J> = term.successors().map(bbj).collect();
                J::Obj(vec![("k", J::s("other")), ("s", J::s(s)), ("succ", J::Arr(succ))])
            }
        };
        let t = match t {
            J::Obj(mut v) => {
                v.push(("ln", J::Int(tline as i128)));
                if texp {
                    v.push(("x", J::Bool(true)));
                }
                J::Obj(v)
            }
            o => o,
        };
        blocks.push(J::Obj(vec![
            ("s", J::Arr(stmts)),
            ("t", t),
            ("cl", if data.is_cleanup { J::Bool(true) } else { J::Null }),
        ]));
    }
    J::Obj(vec![
        ("argc", J::Int(body.arg_count as i128)),
        ("locals", J::Arr(locals)),
        ("upvars", J::Arr(upvars)),
        ("blocks", J::Arr(blocks)),
    ])
}

pub fn dump_fn<'tcx>(cx: &mut Ctx<'tcx>, ldid: LocalDefId) -> J {
    let tcx = cx.tcx;
    let did = ldid.to_def_id();
    let dk = tcx.def_kind(did);
    let path = def_path(tcx, did);
    let (file, lo, hi, _) = cx.loc(tcx.def_span(did));
    let body_span = tcx.hir_body_owned_by(ldid).value.span;
    let (_, _, bhi, _) = cx.loc(body_span);
    let hi = hi.max(bhi);
    let mut o: Vec<(&'static str, J)> = vec![
        ("path", J::s(path)),
        ("kind", J::s(format!("{:?}", dk))),
        ("file", J::s(file)),
        ("lo", J::Int(lo as i128)),
        ("hi", J::Int(hi as i128)),
    ];
    if matches!(dk, DefKind::Closure) {
        let parent = tcx.typeck_root_def_id(did);
        o.push(("root", J::s(def_path(tcx, parent))));
        o.push(("parent", J::s(def_path(tcx, tcx.parent(did)))));
        let mut caps = Vec::new();
        for cp in tcx.closure_captures(ldid).iter() {
            let by = match cp.info.capture_kind {
                ty::UpvarCapture::ByValue => "value".to_string(),
                ty::UpvarCapture::ByRef(bk) => format!("ref:{:?}", bk),
                #[allow(unreachable_patterns)]
                _ => "use".to_string(),
            };
            let t = cp.place.ty();
            let tenv = TypingEnv::post_analysis(tcx, did);
            caps.push(J::Obj(vec![
                ("name", J::s(cp.to_symbol().to_string())),
                ("ty", J::s(format!("{}", t))),
                ("by", J::s(by)),
                ("freeze", J::Bool(t.is_freeze(tcx, tenv))),
            ]));
        }
        o.push(("captures", J::Arr(caps)));
    } else {
        let vis = tcx.visibility(did);
        o.push(("vis", J::s(if vis.is_public() { "pub".to_string() } else { format!("{:?}", vis) })));
        let sig = tcx.fn_sig(did).instantiate_identity().skip_binder();
        let ins: Vec<J> = sig.inputs().iter().map(|t| cx.ty(format!("{}", t))).collect();
        o.push(("inputs", J::Arr(ins)));
        o.push(("output", cx.ty(format!("{}", sig.output()))));
        o.push(("abi", J::s(format!("{:?}", sig.abi()))));
        let attrs = tcx.codegen_fn_attrs(did);
        if attrs.flags.contains(rustc_middle::middle::codegen_fn_attrs::CodegenFnAttrFlags::NO_MANGLE) {
            o.push(("no_mangle", J::Bool(true)));
        }
        if let Some(n) = attrs.symbol_name {
            o.push(("export_name", J::s(n.to_string())));
        }
        if let Some(imp) = tcx.impl_of_assoc(did) {
            let st = tcx.type_of(imp).instantiate_identity().skip_norm_wip();
            o.push(("self_ty", J::s(format!("{}", st))));
            if let Some(tr) = tcx.impl_opt_trait_ref(imp) {
                let tr = tr.instantiate_identity().skip_norm_wip();
                o.push(("trait", J::s(def_path(tcx, tr.def_id))));
            }
        } else if let Some(tr) = tcx.trait_of_assoc(did) {
            o.push(("trait_decl", J::s(def_path(tcx, tr))));
        }
    }
    o.push(("mir", dump_mir(cx, ldid)));
    o.push(("hir", crate::hirdump::dump_body(cx, ldid)));
    J::Obj(o)
}
