//! wowfacts — rustc_private driver that dumps, per workspace crate, the resolved program as JSON
//! facts: MIR (resolved callees, asserts, drops), reduced typed HIR, items, and compile-time
//! constant values as the compiler evaluated them.  Injected with RUSTC_WORKSPACE_WRAPPER.
#![feature(rustc_private)]
#![feature(box_patterns)]
#![allow(clippy::all)]

extern crate rustc_abi;
extern crate rustc_ast;
extern crate rustc_driver;
extern crate rustc_hir;
extern crate rustc_interface;
extern crate rustc_middle;
extern crate rustc_session;
extern crate rustc_span;

mod hirdump;
mod json;
mod mirdump;

use json::J;
use rustc_driver::Compilation;
use rustc_hir::def::DefKind;
use rustc_middle::ty::TyCtxt;
use std::collections::HashMap;

pub struct Ctx<'tcx> {
    pub tcx: TyCtxt<'tcx>,
    pub types: Vec<String>,
    pub type_ix: HashMap<String, usize>,
}

impl<'tcx> Ctx<'tcx> {
    pub fn ty(&mut self, s: String) -> J {
        if let Some(i) = self.type_ix.get(&s) {
            return J::Int(*i as i128);
        }
        let i = self.types.len();
        self.type_ix.insert(s.clone(), i);
        self.types.push(s);
        J::Int(i as i128)
    }
    pub fn loc(&self, sp: rustc_span::Span) -> (String, usize, usize, bool) {
        let sm = self.tcx.sess.source_map();
        let exp = sp.from_expansion();
        // resolve to the outermost call site so lines point into user code
        let sp2 = if exp { sp.source_callsite() } else { sp };
        let lo = sm.lookup_char_pos(sp2.lo());
        let hi = sm.lookup_char_pos(sp2.hi());
        let f = match &lo.file.name {
            rustc_span::FileName::Real(r) => match r.local_path() {
                Some(p) => p.to_string_lossy().to_string(),
                None => format!("{:?}", r),
            },
            other => format!("{:?}", other),
        };
        (f, lo.line, hi.line, exp)
    }
    pub fn line(&self, sp: rustc_span::Span) -> J {
        let (_, l, _, _) = self.loc(sp);
        J::Int(l as i128)
    }
}

struct Cb;

impl rustc_driver::Callbacks for Cb {
    fn after_analysis<'tcx>(
        &mut self,
        _compiler: &rustc_interface::interface::Compiler,
        tcx: TyCtxt<'tcx>,
    ) -> Compilation {
        let out_dir = match std::env::var("WOWFACTS_OUT") {
            Ok(d) => d,
            Err(_) => return Compilation::Continue,
        };
        let crate_name = tcx.crate_name(rustc_span::def_id::LOCAL_CRATE).to_string();
        let crate_types = format!("{:?}", tcx.crate_types());
        // build scripts and proc macros are not part of the analysed program
        if crate_name.starts_with("build_script") {
            return Compilation::Continue;
        }
        use rustc_middle::ty::print::{with_crate_prefix, with_no_trimmed_paths, with_no_visible_paths};
        with_no_visible_paths!(with_no_trimmed_paths!(with_crate_prefix!(Self::run(tcx, out_dir, crate_name, crate_types))));
        Compilation::Continue
    }
}

impl Cb {
    fn run<'tcx>(tcx: TyCtxt<'tcx>, out_dir: String, crate_name: String, crate_types: String) {
        let mut cx = Ctx { tcx, types: Vec::new(), type_ix: HashMap::new() };
        let mut fns = Vec::new();
        for ldid in tcx.hir_body_owners() {
            let did = ldid.to_def_id();
            let dk = tcx.def_kind(did);
            match dk {
                DefKind::Fn | DefKind::AssocFn | DefKind::Closure => {
                    fns.push(mirdump::dump_fn(&mut cx, ldid));
                }
                _ => {}
            }
        }
        let items = hirdump::dump_items(&mut cx);
        let types = J::Arr(cx.types.iter().map(|s| J::s(s.clone())).collect());
        let root = J::Obj(vec![
            ("crate", J::s(crate_name.clone())),
            ("crate_types", J::s(crate_types.clone())),
            ("fns", J::Arr(fns)),
            ("items", items),
            ("types", types),
        ]);
        let mut s = String::new();
        root.write(&mut s);
        let kind = if crate_types.contains("Executable") { "bin" } else { "lib" };
        let path = format!("{}/{}.{}.json", out_dir, crate_name, kind);
        let tmp = format!("{}.tmp{}", path, std::process::id());
        std::fs::write(&tmp, s).expect("write facts");
        std::fs::rename(&tmp, &path).expect("rename facts");
    }
}

fn main() {
    let mut args: Vec<String> = std::env::args().collect();
    // RUSTC_WORKSPACE_WRAPPER passes the real rustc path as argv[1]
    if args.len() > 1 && (args[1].ends_with("rustc") || args[1].contains("/rustc")) {
        args.remove(1);
    }
    let mut cb = Cb;
    rustc_driver::run_compiler(&args, &mut cb);
}
