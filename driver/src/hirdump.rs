use crate::json::J;
use crate::mirdump::def_path;
use crate::Ctx;
use rustc_hir as hir;
use rustc_hir::def::{DefKind, Res};
use rustc_hir::{Expr, ExprKind, MatchSource, Pat, PatKind, QPath, StmtKind};
use rustc_middle::ty::{self, TyCtxt, TypeckResults};
use rustc_span::def_id::LocalDefId;

struct B<'a, 'tcx> {
    cx: &'a mut Ctx<'tcx>,
    tr: &'tcx TypeckResults<'tcx>,
}

fn res_j(tcx: TyCtxt<'_>, res: Res) -> J {
    match res {
        Res::Local(hid) => J::Obj(vec![("local", J::s(tcx.hir_name(hid).to_string()))]),
        Res::Def(dk, did) => {
            J::Obj(vec![("def", J::s(def_path(tcx, did))), ("dk", J::s(format!("{:?}", dk)))])
        }
        Res::SelfCtor(_) => J::Obj(vec![("def", J::s("Self"))]),
        other => J::Obj(vec![("other", J::s(format!("{:?}", other)))]),
    }
}

impl<'a, 'tcx> B<'a, 'tcx> {
    fn tcx(&self) -> TyCtxt<'tcx> {
        self.cx.tcx
    }

    fn qres(&self, qp: &QPath<'tcx>, hid: hir::HirId) -> Res {
        self.tr.qpath_res(qp, hid)
    }

    fn pat(&mut self, p: &Pat<'tcx>) -> J {
        let tcx = self.tcx();
        match &p.kind {
            PatKind::Wild => J::Obj(vec![("k", J::s("wild"))]),
            PatKind::Binding(_, _, ident, sub) => J::Obj(vec![
                ("k", J::s("bind")),
                ("name", J::s(ident.name.to_string())),
                ("sub", sub.map(|s| self.pat(s)).unwrap_or(J::Null)),
            ]),
            PatKind::TupleStruct(qp, subs, _) => {
                let r = self.qres(qp, p.hir_id);
                let s: Vec<J> = subs.iter().map(|x| self.pat(x)).collect();
                J::Obj(vec![("k", J::s("ts")), ("res", res_j(tcx, r)), ("subs", J::Arr(s))])
            }
            PatKind::Struct(qp, fields, _) => {
                let r = self.qres(qp, p.hir_id);
                let f: Vec<J> = fields
                    .iter()
                    .map(|f| J::Arr(vec![J::s(f.ident.name.to_string()), self.pat(f.pat)]))
                    .collect();
                J::Obj(vec![("k", J::s("struct")), ("res", res_j(tcx, r)), ("fields", J::Arr(f))])
            }
            PatKind::Tuple(subs, _) => {
                let s: Vec<J> = subs.iter().map(|x| self.pat(x)).collect();
                J::Obj(vec![("k", J::s("tuple")), ("subs", J::Arr(s))])
            }
            PatKind::Or(subs) => {
                let s: Vec<J> = subs.iter().map(|x| self.pat(x)).collect();
                J::Obj(vec![("k", J::s("or")), ("subs", J::Arr(s))])
            }
            PatKind::Ref(sub, ..) => self.pat(sub),
            PatKind::Box(sub) => self.pat(sub),
            PatKind::Deref(sub) => self.pat(sub),
            PatKind::Expr(e) => {
                let v = match &e.kind {
                    hir::PatExprKind::Lit { lit, negated } => {
                        J::Obj(vec![("k", J::s("lit")), ("v", lit_j(&lit.node, *negated))])
                    }
                    hir::PatExprKind::Path(qp) => {
                        let r = self.qres(qp, e.hir_id);
                        J::Obj(vec![("k", J::s("path")), ("res", res_j(tcx, r))])
                    }
                    #[allow(unreachable_patterns)]
                    _ => J::Obj(vec![("k", J::s("patexpr"))]),
                };
                v
            }
            PatKind::Range(..) => J::Obj(vec![("k", J::s("range"))]),
            PatKind::Slice(a, m, b) => {
                let mut s: Vec<J> = a.iter().map(|x| self.pat(x)).collect();
                if let Some(m) = m {
                    s.push(self.pat(m));
                }
                s.extend(b.iter().map(|x| self.pat(x)));
                J::Obj(vec![("k", J::s("slice")), ("subs", J::Arr(s))])
            }
            PatKind::Guard(sub, g) => {
                J::Obj(vec![("k", J::s("guard")), ("sub", self.pat(sub)), ("g", self.expr(g))])
            }
            _ => J::Obj(vec![("k", J::s("otherpat"))]),
        }
    }

    fn block(&mut self, b: &hir::Block<'tcx>) -> J {
        let mut stmts = Vec::new();
        for st in b.stmts.iter() {
            match &st.kind {
                StmtKind::Let(l) => {
                    let ty = self.tr.node_type_opt(l.pat.hir_id).map(|t| self.cx.ty(format!("{}", t)));
                    stmts.push(J::Obj(vec![
                        ("k", J::s("let")),
                        ("pat", self.pat(l.pat)),
                        ("t", ty.unwrap_or(J::Null)),
                        ("init", l.init.map(|e| self.expr(e)).unwrap_or(J::Null)),
                        ("els", l.els.map(|e| self.block(e)).unwrap_or(J::Null)),
                        ("ln", self.cx.line(st.span)),
                    ]));
                }
                StmtKind::Expr(e) => stmts.push(self.expr(e)),
                StmtKind::Semi(e) => {
                    let j = self.expr(e);
                    stmts.push(match j {
                        J::Obj(mut v) => {
                            v.push(("semi", J::Bool(true)));
                            J::Obj(v)
                        }
                        o => o,
                    });
                }
                StmtKind::Item(_) => {}
            }
        }
        J::Obj(vec![
            ("k", J::s("block")),
            ("stmts", J::Arr(stmts)),
            ("e", b.expr.map(|e| self.expr(e)).unwrap_or(J::Null)),
            ("unsafe", if matches!(b.rules, hir::BlockCheckMode::UnsafeBlock(_)) { J::Bool(true) } else { J::Null }),
        ])
    }

    fn try_fold_for(&mut self, e: &Expr<'tcx>) -> Option<J> {
        // match IntoIterator::into_iter(ITER) { mut iter => loop { match Iterator::next(&mut iter) { None => break, Some(PAT) => BODY } } }
        if let ExprKind::Match(scrut, arms, MatchSource::ForLoopDesugar) = &e.kind {
            let iter = match &scrut.kind {
                ExprKind::Call(_, args) if args.len() == 1 => &args[0],
                _ => return None,
            };
            let arm = arms.get(0)?;
            if let ExprKind::Loop(blk, label, _, _) = &arm.body.kind {
                let inner = blk.stmts.get(0).and_then(|s| match &s.kind {
                    StmtKind::Expr(x) | StmtKind::Semi(x) => Some(*x),
                    _ => None,
                }).or(blk.expr)?;
                if let ExprKind::Match(_, iarms, _) = &inner.kind {
                    let some = iarms.get(1)?;
                    let pat = match &some.pat.kind {
                        PatKind::TupleStruct(_, subs, _) => subs.get(0)?,
                        PatKind::Struct(_, fs, _) => fs.get(0)?.pat,
                        _ => return None,
                    };
                    let ity = self.tr.expr_ty_opt(iter).map(|t| self.cx.ty(format!("{}", t)));
                    return Some(J::Obj(vec![
                        ("k", J::s("for")),
                        ("pat", self.pat(pat)),
                        ("iter", self.expr(iter)),
                        ("it", ity.unwrap_or(J::Null)),
                        ("body", self.expr(some.body)),
                        ("label", label.map(|l| J::s(l.ident.name.to_string())).unwrap_or(J::Null)),
                        ("ln", self.cx.line(e.span)),
                    ]));
                }
            }
        }
        None
    }

    fn expr(&mut self, e: &Expr<'tcx>) -> J {
        let tcx = self.tcx();
        // transparent wrappers
        match &e.kind {
            ExprKind::DropTemps(inner) => return self.expr(inner),
            ExprKind::Use(inner, _) => return self.expr(inner),
            _ => {}
        }
        if let Some(j) = self.try_fold_for(e) {
            return j;
        }
        let ty = self.tr.expr_ty_opt(e).map(|t| self.cx.ty(format!("{}", t))).unwrap_or(J::Null);
        let (_, line, _, exp) = self.cx.loc(e.span);
        let mut o: Vec<(&'static str, J)> = Vec::new();
        match &e.kind {
            ExprKind::Lit(l) => {
                o.push(("k", J::s("lit")));
                o.push(("v", lit_j(&l.node, false)));
            }
            ExprKind::Path(qp) => {
                let r = self.qres(qp, e.hir_id);
                o.push(("k", J::s("path")));
                o.push(("res", res_j(tcx, r)));
            }
            ExprKind::Call(f, args) => {
                o.push(("k", J::s("call")));
                // resolved callee when the callee is a path to a fn / ctor
                if let ExprKind::Path(qp) = &f.kind {
                    let r = self.qres(qp, f.hir_id);
                    if let Res::Def(dk, did) = r {
                        let mut p = def_path(tcx, did);
                        // resolve trait static calls (e.g. T::parse) through typeck substs where possible
                        if matches!(dk, DefKind::AssocFn) {
                            let args_ = self.tr.node_args(f.hir_id);
                            let tenv = ty::TypingEnv::post_analysis(tcx, self.tr.hir_owner.to_def_id());
                            if let Some(inst) = crate::mirdump::safe_resolve(tcx, tenv, did, args_) {
                                p = def_path(tcx, inst.def_id());
                            }
                        }
                        o.push(("fn", J::s(p)));
                        o.push(("dk", J::s(format!("{:?}", dk))));
                    } else if let Res::Local(h) = r {
                        o.push(("flocal", J::s(tcx.hir_name(h).to_string())));
                    }
                } else {
                    o.push(("f", self.expr(f)));
                }
                let a: Vec<J> = args.iter().map(|x| self.expr(x)).collect();
                o.push(("args", J::Arr(a)));
            }
            ExprKind::MethodCall(seg, recv, args, _) => {
                o.push(("k", J::s("mcall")));
                o.push(("m", J::s(seg.ident.name.to_string())));
                if let Some(did) = self.tr.type_dependent_def_id(e.hir_id) {
                    let mut p = def_path(tcx, did);
                    let decl = p.clone();
                    let args_ = self.tr.node_args(e.hir_id);
                    let tenv = ty::TypingEnv::post_analysis(tcx, self.tr.hir_owner.to_def_id());
                    if let Some(inst) = crate::mirdump::safe_resolve(tcx, tenv, did, args_) {
                        p = def_path(tcx, inst.def_id());
                    }
                    o.push(("fn", J::s(p)));
                    if decl != *match o.last() { Some((_, J::Str(s))) => s, _ => &decl } {
                        o.push(("decl", J::s(decl)));
                    }
                }
                let rt = self.tr.expr_ty_adjusted_opt(recv).map(|t| self.cx.ty(format!("{}", t)));
                o.push(("rt", rt.unwrap_or(J::Null)));
                o.push(("recv", self.expr(recv)));
                let a: Vec<J> = args.iter().map(|x| self.expr(x)).collect();
                o.push(("args", J::Arr(a)));
            }
            ExprKind::Binary(op, l, r) => {
                o.push(("k", J::s("bin")));
                o.push(("op", J::s(op.node.as_str())));
                o.push(("l", self.expr(l)));
                o.push(("r", self.expr(r)));
            }
            ExprKind::Unary(op, x) => {
                o.push(("k", J::s("un")));
                o.push(("op", J::s(format!("{:?}", op))));
                o.push(("e", self.expr(x)));
            }
            ExprKind::Cast(x, _) => {
                o.push(("k", J::s("cast")));
                o.push(("e", self.expr(x)));
            }
            ExprKind::Type(x, _) => return self.expr(x),
            ExprKind::Field(x, ident) => {
                o.push(("k", J::s("field")));
                o.push(("name", J::s(ident.name.to_string())));
                o.push(("e", self.expr(x)));
            }
            ExprKind::Index(x, i, _) => {
                o.push(("k", J::s("index")));
                o.push(("e", self.expr(x)));
                o.push(("i", self.expr(i)));
            }
            ExprKind::AddrOf(_, m, x) => {
                o.push(("k", J::s("ref")));
                if m.is_mut() {
                    o.push(("mut", J::Bool(true)));
                }
                o.push(("e", self.expr(x)));
            }
            ExprKind::Struct(qp, fields, base) => {
                let r = self.qres(qp, e.hir_id);
                o.push(("k", J::s("struct")));
                o.push(("res", res_j(tcx, r)));
                let f: Vec<J> = fields
                    .iter()
                    .map(|f| J::Arr(vec![J::s(f.ident.name.to_string()), self.expr(f.expr)]))
                    .collect();
                o.push(("fields", J::Arr(f)));
                if let hir::StructTailExpr::Base(b) = base {
                    o.push(("base", self.expr(b)));
                }
            }
            ExprKind::Tup(es) => {
                o.push(("k", J::s("tup")));
                o.push(("es", J::Arr(es.iter().map(|x| self.expr(x)).collect())));
            }
            ExprKind::Array(es) => {
                o.push(("k", J::s("array")));
                o.push(("es", J::Arr(es.iter().map(|x| self.expr(x)).collect())));
            }
            ExprKind::Repeat(x, _) => {
                o.push(("k", J::s("repeat")));
                o.push(("e", self.expr(x)));
            }
            ExprKind::Block(b, label) => {
                let j = self.block(b);
                if let J::Obj(mut v) = j {
                    if let Some(l) = label {
                        v.push(("label", J::s(l.ident.name.to_string())));
                    }
                    v.push(("t", ty));
                    v.push(("ln", J::Int(line as i128)));
                    return J::Obj(v);
                }
            }
            ExprKind::If(c, t, el) => {
                o.push(("k", J::s("if")));
                o.push(("c", self.expr(c)));
                o.push(("then", self.expr(t)));
                if let Some(el) = el {
                    o.push(("else", self.expr(el)));
                }
            }
            ExprKind::Let(l) => {
                o.push(("k", J::s("letx")));
                o.push(("pat", self.pat(l.pat)));
                o.push(("init", self.expr(l.init)));
            }
            ExprKind::Match(scrut, arms, src) => {
                if matches!(src, MatchSource::TryDesugar(_)) {
                    // match Try::branch(E) {..}  =>  try(E)
                    if let ExprKind::Call(_, args) = &scrut.kind {
                        if args.len() == 1 {
                            o.push(("k", J::s("try")));
                            o.push(("e", self.expr(&args[0])));
                            o.push(("t", ty));
                            o.push(("ln", J::Int(line as i128)));
                            return J::Obj(o);
                        }
                    }
                }
                o.push(("k", J::s("match")));
                o.push(("src", J::s(format!("{:?}", src))));
                o.push(("e", self.expr(scrut)));
                let mut av = Vec::new();
                for a in arms.iter() {
                    av.push(J::Obj(vec![
                        ("pat", self.pat(a.pat)),
                        ("guard", a.guard.map(|g| self.expr(g)).unwrap_or(J::Null)),
                        ("body", self.expr(a.body)),
                        ("ln", self.cx.line(a.span)),
                    ]));
                }
                o.push(("arms", J::Arr(av)));
            }
            ExprKind::Loop(b, label, src, _) => {
                o.push(("k", J::s("loop")));
                o.push(("src", J::s(format!("{:?}", src))));
                if let Some(l) = label {
                    o.push(("label", J::s(l.ident.name.to_string())));
                }
                o.push(("body", self.block(b)));
            }
            ExprKind::Closure(c) => {
                o.push(("k", J::s("closure")));
                o.push(("def", J::s(def_path(tcx, c.def_id.to_def_id()))));
                let body = tcx.hir_body(c.body);
                let params: Vec<J> = body.params.iter().map(|p| self.pat(p.pat)).collect();
                o.push(("params", J::Arr(params)));
                o.push(("body", self.expr(body.value)));
                if matches!(c.capture_clause, hir::CaptureBy::Value { .. }) {
                    o.push(("move", J::Bool(true)));
                }
            }
            ExprKind::Assign(l, r, _) => {
                o.push(("k", J::s("assign")));
                o.push(("l", self.expr(l)));
                o.push(("r", self.expr(r)));
            }
            ExprKind::AssignOp(op, l, r) => {
                o.push(("k", J::s("assignop")));
                o.push(("op", J::s(op.node.as_str())));
                o.push(("l", self.expr(l)));
                o.push(("r", self.expr(r)));
            }
            ExprKind::Break(dest, x) => {
                o.push(("k", J::s("break")));
                if let Some(l) = dest.label {
                    o.push(("label", J::s(l.ident.name.to_string())));
                }
                if let Some(x) = x {
                    o.push(("e", self.expr(x)));
                }
            }
            ExprKind::Continue(dest) => {
                o.push(("k", J::s("continue")));
                if let Some(l) = dest.label {
                    o.push(("label", J::s(l.ident.name.to_string())));
                }
            }
            ExprKind::Ret(x) => {
                o.push(("k", J::s("ret")));
                if let Some(x) = x {
                    o.push(("e", self.expr(x)));
                }
            }
            ExprKind::ConstBlock(_) => {
                o.push(("k", J::s("constblock")));
            }
            ExprKind::Yield(x, _) => {
                o.push(("k", J::s("yield")));
                o.push(("e", self.expr(x)));
            }
            _ => {
                o.push(("k", J::s("other")));
                let mut s = format!("{:?}", e.kind);
                s.truncate(60);
                o.push(("dbg", J::s(s)));
            }
        }
        o.push(("t", ty));
        o.push(("ln", J::Int(line as i128)));
        if exp {
            o.push(("x", J::Bool(true)));
        }
        J::Obj(o)
    }
}

fn lit_j(l: &rustc_ast::LitKind, neg: bool) -> J {
    use rustc_ast::LitKind::*;
    match l {
        Str(s, _) => J::Obj(vec![("str", J::s(s.to_string()))]),
        ByteStr(b, _) => J::Obj(vec![("bytes", J::s(String::from_utf8_lossy(b.as_byte_str()).to_string()))]),
        Byte(b) => J::Obj(vec![("int", J::Int(*b as i128))]),
        Char(c) => J::Obj(vec![("char", J::s(c.to_string()))]),
        Int(v, _) => {
            let x = v.get() as i128;
            J::Obj(vec![("int", J::Int(if neg { -x } else { x }))])
        }
        Float(s, _) => J::Obj(vec![("float", J::s(format!("{}{}", if neg { "-" } else { "" }, s)))]),
        Bool(b) => J::Obj(vec![("bool", J::Bool(*b))]),
        _ => J::Obj(vec![("other", J::s("lit"))]),
    }
}

pub fn dump_body<'tcx>(cx: &mut Ctx<'tcx>, ldid: LocalDefId) -> J {
    let tcx = cx.tcx;
    // closures are dumped inline in their parent; keep only a stub here
    if matches!(tcx.def_kind(ldid.to_def_id()), DefKind::Closure) {
        return J::Null;
    }
    let body = tcx.hir_body_owned_by(ldid);
    let tr = tcx.typeck(ldid);
    let mut b = B { cx, tr };
    let params: Vec<J> = body.params.iter().map(|p| b.pat(p.pat)).collect();
    let v = b.expr(body.value);
    J::Obj(vec![("params", J::Arr(params)), ("body", v)])
}

fn const_value<'tcx>(cx: &mut Ctx<'tcx>, did: rustc_span::def_id::DefId) -> J {
    let tcx = cx.tcx;
    if tcx.generics_of(did).requires_monomorphization(tcx) {
        return J::Null;
    }
    let ty = tcx.type_of(did).instantiate_identity().skip_norm_wip();
    let val = match tcx.const_eval_poly(did) {
        Ok(v) => v,
        Err(_) => return J::Null,
    };
    render_const(cx, val, ty, 0)
}

fn render_const<'tcx>(
    cx: &mut Ctx<'tcx>,
    val: rustc_middle::mir::ConstValue,
    ty: ty::Ty<'tcx>,
    depth: usize,
) -> J {
    let tcx = cx.tcx;
    if ty.is_integral() || ty.is_bool() || ty.is_char() {
        if let Some(si) = val.try_to_scalar_int() {
            let size = si.size();
            let v: i128 = if ty.is_signed() { si.to_int(size) } else { si.to_uint(size) as i128 };
            return J::Int(v);
        }
    }
    if depth > 3 {
        return J::Null;
    }
    match ty.kind() {
        ty::Array(..) | ty::Tuple(..) | ty::Adt(..) => {
            if let ty::Adt(def, _) = ty.kind() {
                if !def.is_struct() && !def.is_enum() {
                    return J::Null;
                }
            }
            if let Some(d) = tcx.try_destructure_mir_constant_for_user_output(val, ty) {
                let mut out = Vec::new();
                for f in d.fields.iter() {
                    let (fv, fty) = (f.0, f.1);
                    out.push(render_const(cx, fv, fty, depth + 1));
                }
                return J::Obj(vec![
                    ("variant", d.variant.map(|v| J::Int(v.as_usize() as i128)).unwrap_or(J::Null)),
                    ("fields", J::Arr(out)),
                ]);
            }
            J::Null
        }
        _ => {
            let c = rustc_middle::mir::Const::Val(val, ty);
            let mut s = format!("{}", c);
            if s.len() > 400 {
                s.truncate(400);
            }
            J::Obj(vec![("repr", J::s(s))])
        }
    }
}

fn attrs_j<'tcx>(cx: &Ctx<'tcx>, hid: hir::HirId) -> J {
    let tcx = cx.tcx;
    let sm = tcx.sess.source_map();
    let mut v = Vec::new();
    for a in tcx.hir_attrs(hid) {
        let sp = match a {
            hir::Attribute::Unparsed(item) => item.span,
            _ => continue,
        };
        if let Ok(s) = sm.span_to_snippet(sp) {
            if !s.starts_with("///") && !s.starts_with("//!") && !s.starts_with("#[doc") {
                v.push(J::s(s));
            }
        }
    }
    if v.is_empty() { J::Null } else { J::Arr(v) }
}

pub fn dump_items<'tcx>(cx: &mut Ctx<'tcx>) -> J {
    let tcx = cx.tcx;
    let mut consts = Vec::new();
    let mut adts = Vec::new();
    let mut impls = Vec::new();
    let mut statics = Vec::new();
    for id in tcx.hir_free_items() {
        let item = tcx.hir_item(id);
        let did = item.owner_id.to_def_id();
        let (file, line, _, exp) = cx.loc(item.span);
        match &item.kind {
            hir::ItemKind::Const(..) => {
                let ty = tcx.type_of(did).instantiate_identity().skip_norm_wip();
                let v = const_value(cx, did);
                consts.push(J::Obj(vec![
                    ("path", J::s(def_path(tcx, did))),
                    ("ty", J::s(format!("{}", ty))),
                    ("v", v),
                    ("file", J::s(file)),
                    ("ln", J::Int(line as i128)),
                ]));
            }
            hir::ItemKind::Static(..) => {
                let ty = tcx.type_of(did).instantiate_identity().skip_norm_wip();
                let freeze = ty.is_freeze(tcx, ty::TypingEnv::post_analysis(tcx, did));
                let v = J::Null;
                statics.push(J::Obj(vec![
                    ("path", J::s(def_path(tcx, did))),
                    ("ty", J::s(format!("{}", ty))),
                    ("freeze", J::Bool(freeze)),
                    ("v", v),
                    ("file", J::s(file)),
                    ("ln", J::Int(line as i128)),
                ]));
            }
            hir::ItemKind::Struct(_, _, vd) => {
                let adt = tcx.adt_def(did);
                let mut fields = Vec::new();
                for (i, f) in adt.non_enum_variant().fields.iter().enumerate() {
                    let fty = tcx.type_of(f.did).instantiate_identity().skip_norm_wip();
                    let hf = vd.fields().get(i);
                    fields.push(J::Obj(vec![
                        ("name", J::s(f.name.to_string())),
                        ("ty", J::s(format!("{}", fty))),
                        ("attrs", hf.map(|h| attrs_j(cx, h.hir_id)).unwrap_or(J::Null)),
                    ]));
                }
                adts.push(J::Obj(vec![
                    ("k", J::s("struct")),
                    ("path", J::s(def_path(tcx, did))),
                    ("fields", J::Arr(fields)),
                    ("attrs", attrs_j(cx, item.hir_id())),
                    ("file", J::s(file)),
                    ("ln", J::Int(line as i128)),
                ]));
            }
            hir::ItemKind::Enum(_, _, ed) => {
                let adt = tcx.adt_def(did);
                let mut vars = Vec::new();
                for (i, (vi, discr)) in adt.discriminants(tcx).enumerate() {
                    let v = adt.variant(vi);
                    let hv = ed.variants.get(i);
                    let mut fields = Vec::new();
                    for f in v.fields.iter() {
                        let fty = tcx.type_of(f.did).instantiate_identity().skip_norm_wip();
                        fields.push(J::Arr(vec![J::s(f.name.to_string()), J::s(format!("{}", fty))]));
                    }
                    vars.push(J::Obj(vec![
                        ("name", J::s(v.name.to_string())),
                        ("discr", J::Int(discr.val as i128)),
                        ("fields", J::Arr(fields)),
                        ("attrs", hv.map(|h| attrs_j(cx, h.hir_id)).unwrap_or(J::Null)),
                    ]));
                }
                adts.push(J::Obj(vec![
                    ("k", J::s("enum")),
                    ("path", J::s(def_path(tcx, did))),
                    ("variants", J::Arr(vars)),
                    ("attrs", attrs_j(cx, item.hir_id())),
                    ("file", J::s(file)),
                    ("ln", J::Int(line as i128)),
                ]));
            }
            hir::ItemKind::Impl(imp) => {
                let st = tcx.type_of(did).instantiate_identity().skip_norm_wip();
                let tr = tcx.impl_opt_trait_ref(did).map(|t| {
                    let t = t.instantiate_identity().skip_norm_wip();
                    def_path(tcx, t.def_id)
                });
                let mut items = Vec::new();
                for ii in imp.items.iter() {
                    let idid = ii.owner_id.to_def_id();
                    let name = tcx.item_name(idid).to_string();
                    let dk = tcx.def_kind(idid);
                    let mut o = vec![("name", J::s(name)), ("dk", J::s(format!("{:?}", dk)))];
                    if matches!(dk, DefKind::AssocConst { .. }) {
                        let ty = tcx.type_of(idid).instantiate_identity().skip_norm_wip();
                        o.push(("ty", J::s(format!("{}", ty))));
                        o.push(("v", const_value(cx, idid)));
                        o.push(("path", J::s(def_path(tcx, idid))));
                    }
                    items.push(J::Obj(o));
                }
                impls.push(J::Obj(vec![
                    ("self_ty", J::s(format!("{}", st))),
                    ("trait", tr.map(J::Str).unwrap_or(J::Null)),
                    ("items", J::Arr(items)),
                    ("derived", J::Bool(exp)),
                    ("file", J::s(file)),
                    ("ln", J::Int(line as i128)),
                ]));
            }
            _ => {}
        }
    }
    J::Obj(vec![
        ("consts", J::Arr(consts)),
        ("statics", J::Arr(statics)),
        ("adts", J::Arr(adts)),
        ("impls", J::Arr(impls)),
    ])
}

