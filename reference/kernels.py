"""Reference MPQ algorithms, written from the published format description (independent of /repo).

Two kinds of reference:
  * generators for the compile-time tables (crypt table, ASCII fold tables)
  * the arithmetic kernels as symbolic expressions in the same normal form vlib.symx produces,
    so that a repo kernel can be compared syntactically (no solver, nothing executed).
"""
import os
import sys

sys.path.insert(0, os.path.dirname(os.path.dirname(os.path.abspath(__file__))))
from vlib.symx import op, var, const  # noqa: E402


def crypt_table():
    """StormLib InitializeMpqCryptography: seed 0x00100001, seed = (seed*125+3) % 0x2AAAAB, two draws per entry"""
    t = [0] * 0x500
    seed = 0x00100001
    for i in range(0x100):
        idx = i
        for _ in range(5):
            seed = (seed * 125 + 3) % 0x2AAAAB
            t1 = (seed & 0xFFFF) << 16
            seed = (seed * 125 + 3) % 0x2AAAAB
            t2 = seed & 0xFFFF
            t[idx] = t1 | t2
            idx += 0x100
    return t


def ascii_upper(slash_to_backslash=False):
    t = list(range(256))
    for c in range(ord("a"), ord("z") + 1):
        t[c] = c - 32
    if slash_to_backslash:
        t[0x2F] = 0x5C
    return t


def ascii_lower(slash_to_backslash=False):
    t = list(range(256))
    for c in range(ord("A"), ord("Z") + 1):
        t[c] = c + 32
    if slash_to_backslash:
        t[0x2F] = 0x5C
    return t


# ---- published constants -------------------------------------------------------------------
CONSTANTS = {
    "hash_type::TABLE_OFFSET": 0x000, "hash_type::NAME_A": 0x100, "hash_type::NAME_B": 0x200,
    "hash_type::FILE_KEY": 0x300, "hash_type::KEY2_MIX": 0x400,
    "MPQ_HEADER_SIGNATURE": 0x1A51504D,      # 'MPQ\x1A'
    "MPQ_USERDATA_SIGNATURE": 0x1B51504D,    # 'MPQ\x1B'
    "signatures::MPQ_ARCHIVE": 0x1A51504D, "signatures::MPQ_USERDATA": 0x1B51504D,
    "signatures::HET_TABLE": 0x1A544548,     # 'HET\x1A'
    "signatures::BET_TABLE": 0x1A544542,     # 'BET\x1A'
    "HetTable::SIGNATURE": 0x1A544548, "BetTable::SIGNATURE": 0x1A544542,
    "BlockEntry::FLAG_IMPLODE": 0x00000100, "BlockEntry::FLAG_COMPRESS": 0x00000200,
    "BlockEntry::FLAG_ENCRYPTED": 0x00010000, "BlockEntry::FLAG_FIX_KEY": 0x00020000,
    "BlockEntry::FLAG_PATCH_FILE": 0x00100000, "BlockEntry::FLAG_SINGLE_UNIT": 0x01000000,
    "BlockEntry::FLAG_DELETE_MARKER": 0x02000000, "BlockEntry::FLAG_SECTOR_CRC": 0x04000000,
    "BlockEntry::FLAG_EXISTS": 0x80000000,
    "HashEntry::EMPTY_NEVER_USED": 0xFFFFFFFF, "HashEntry::EMPTY_DELETED": 0xFFFFFFFE,
    "flags::HUFFMAN": 0x01, "flags::ZLIB": 0x02, "flags::IMPLODE": 0x04, "flags::PKWARE": 0x08,
    "flags::BZIP2": 0x10, "flags::SPARSE": 0x20, "flags::ADPCM_MONO": 0x40, "flags::ADPCM_STEREO": 0x80,
    "flags::LZMA": 0x12,
    "HEADER_ALIGNMENT": 0x200,
    "PTCH_SIGNATURE": 0x48435450, "MD5_SIGNATURE": 0x5F35444D, "XFRM_SIGNATURE": 0x4D524658,
    "WEAK_SIGNATURE_SIZE": 64, "WEAK_SIGNATURE_FILE_SIZE": 72, "STRONG_SIGNATURE_SIZE": 260,
    "AttributeFlags::CRC32": 1, "AttributeFlags::FILETIME": 2, "AttributeFlags::MD5": 4, "AttributeFlags::PATCH_BIT": 8,
    "Attributes::EXPECTED_VERSION": 100,
}
HEADER_SIZES = {"V1": 32, "V2": 44, "V3": 68, "V4": 208}
TABLE_KEY_NAMES = {"hash": "(hash table)", "block": "(block table)"}


# ---- kernels ---------------------------------------------------------------------------------
def hash_step(fold_table="ASCII_TO_UPPER", table_maps_slash=False):
    """one byte of the MPQ string hash; returns (ch, seed1', seed2')"""
    byte = var("byte")
    b = byte if table_maps_slash else op("ite", op("eq", byte, const(0x2F)), const(0x5C), byte)
    ch = op("index", var(fold_table), b)
    seed1, seed2, ht = var("seed1"), var("seed2"), var("hash_type")
    s1 = op("xor", op("index", var("ENCRYPTION_TABLE"), op("add", ht, ch)), op("add", seed1, seed2))
    s2 = op("add", ch, s1, seed2, op("shl", seed2, const(5)), const(3))
    return ch, s1, s2


HASH_SEEDS = (0x7FED7FED, 0xEEEEEEEE)
CIPHER_SEED = 0xEEEEEEEE


def cipher_round(plain_of_value):
    """one dword of the MPQ stream cipher.  plain_of_value: function(value', value) -> the plaintext word
    (encrypt: the input word; decrypt: the output word).  returns (value', key', seed')"""
    key, seed, value = var("key"), var("seed"), var("value")
    seed_a = op("add", seed, op("index", var("ENCRYPTION_TABLE"), op("add", const(0x400), op("and", key, const(0xFF)))))
    out = op("xor", value, op("add", key, seed_a))
    key2 = op("or", op("add", op("shl", op("not", key), const(0x15)), const(0x11111111)), op("shr", key, const(0x0B)))
    plain = plain_of_value(out, value)
    seed2 = op("add", plain, seed_a, op("shl", seed_a, const(5)), const(3))
    return out, key2, seed2


def one_at_a_time_step():
    h = var("hash")
    b = op("ite", op("eq", var("byte"), const(0x2F)), const(0x5C), var("byte"))
    ch = op("index", var("ASCII_TO_LOWER"), b)
    h1 = op("add", h, ch)
    h2 = op("add", h1, op("shl", h1, const(10)))
    h3 = op("xor", h2, op("shr", h2, const(6)))
    return h3


def one_at_a_time_final(h):
    h1 = op("add", h, op("shl", h, const(3)))
    h2 = op("xor", h1, op("shr", h1, const(11)))
    h3 = op("add", h2, op("shl", h2, const(15)))
    return h3


def rot(x, k):
    return op("rotl", x, const(k))


def lookup3_mix(a, b, c):
    a = op("sub", a, c); a = op("xor", a, rot(c, 4)); c = op("add", c, b)
    b = op("sub", b, a); b = op("xor", b, rot(a, 6)); a = op("add", a, c)
    c = op("sub", c, b); c = op("xor", c, rot(b, 8)); b = op("add", b, a)
    a = op("sub", a, c); a = op("xor", a, rot(c, 16)); c = op("add", c, b)
    b = op("sub", b, a); b = op("xor", b, rot(a, 19)); a = op("add", a, c)
    c = op("sub", c, b); c = op("xor", c, rot(b, 4)); b = op("add", b, a)
    return a, b, c


def lookup3_final(a, b, c):
    c = op("xor", c, b); c = op("sub", c, rot(b, 14))
    a = op("xor", a, c); a = op("sub", a, rot(c, 11))
    b = op("xor", b, a); b = op("sub", b, rot(a, 25))
    c = op("xor", c, b); c = op("sub", c, rot(b, 16))
    a = op("xor", a, c); a = op("sub", a, rot(c, 4))
    b = op("xor", b, a); b = op("sub", b, rot(a, 14))
    c = op("xor", c, b); c = op("sub", c, rot(b, 24))
    return a, b, c


LOOKUP3_INIT = 0xDEADBEEF


# ---- header / table-entry layouts of the published format --------------------------------------
# (name, width) in file order
HEADER_V1 = [("signature", 4), ("header_size", 4), ("archive_size", 4), ("format_version", 2), ("block_size", 2),
             ("hash_table_pos", 4), ("block_table_pos", 4), ("hash_table_size", 4), ("block_table_size", 4)]
HEADER_V2_EXT = [("hi_block_table_pos", 8), ("hash_table_pos_hi", 2), ("block_table_pos_hi", 2)]
HEADER_V3_EXT = [("archive_size_64", 8), ("bet_table_pos", 8), ("het_table_pos", 8)]
HEADER_V4_EXT = [("hash_table_size_64", 8), ("block_table_size_64", 8), ("hi_block_table_size_64", 8), ("het_table_size_64", 8),
                 ("bet_table_size_64", 8), ("raw_chunk_size", 4),
                 ("md5_block_table", 16), ("md5_hash_table", 16), ("md5_hi_block_table", 16), ("md5_bet_table", 16),
                 ("md5_het_table", 16), ("md5_mpq_header", 16)]
HEADER = {"V1": HEADER_V1, "V2": HEADER_V1 + HEADER_V2_EXT, "V3": HEADER_V1 + HEADER_V2_EXT + HEADER_V3_EXT,
          "V4": HEADER_V1 + HEADER_V2_EXT + HEADER_V3_EXT + HEADER_V4_EXT}
HASH_ENTRY = [("name_1", 4), ("name_2", 4), ("locale", 2), ("platform", 2), ("block_index", 4)]
BLOCK_ENTRY = [("file_pos", 4), ("compressed_size", 4), ("file_size", 4), ("flags", 4)]
