"""E3 — value-flow (taint) over MIR with inter-procedural fixpoint.

Sources: results of the crates' read primitives and fields of structures filled from them.
Sinks are supplied by the caller (allocation sizes, subtraction operands, ...).
Sanitiser (deliberately generous — a guarded site must never be flagged): an ordered comparison
involving the value or an ancestor/alias that dominates the sink, a min/clamp/checked_*/
saturating_*/try_from in the derivation, or a call to a validator.
"""
import re
from collections import defaultdict

from . import mirg
from .mirg import plocal, pproj, op_local, op_const
from .rules import ncallee, norm

READ_PRIM = re.compile(
    r"(byteorder::io::ReadBytesExt::read_[ui](8|16|24|32|48|64|128)|byteorder::io::ReadBytesExt::read_f(32|64)|"
    r"::read_[ui](8|16|32|64)(_le|_be)?$|::read_f32(_le)?$|"
    r"::from_le_bytes$|::from_be_bytes$|::from_ne_bytes$|"
    r"binrw::binread::BinRead::read(_le|_be|_options|_args|_le_args)?$|binrw::binread::BinReaderExt::read_(le|be|ne|type)(_args)?$|"
    r"ByteReader::read_\w+$)")
SANITISE_CALL = re.compile(
    r"(::min$|::clamp$|::checked_(add|sub|mul|div)$|::saturating_(sub|add|mul)$|::try_from$|::try_into$|"
    r"validate_\w+$|::rem_euclid$|::is_power_of_two$|::leading_zeros$|::trailing_zeros$|usize::BITS)")
# (`slice.get(i)` bounds-checks the *index*; the element it returns is as untrusted as the slice — it used to be listed here and
#  hid every value looked up in a table, e.g. a block entry's file_size)
ORDERED = {"Lt", "Le", "Gt", "Ge"}
CHECK_CALL = re.compile(r"(::is_empty$|::is_power_of_two$|validate\w*$|::check\w*$|bounds\w*$|::lt$|::le$|::gt$|::ge$|::cmp$|::partial_cmp$|::contains$|::checked_\w+$|::is_none$|::is_some$|::is_err$|::is_ok$|::starts_with$)")


def adt_of_type(ty):
    """strip references/pointers/Box and generic args -> ADT path"""
    t = ty
    while True:
        t = t.strip()
        for pre in ("&mut ", "&", "*mut ", "*const "):
            if t.startswith(pre):
                t = t[len(pre):]
                break
        else:
            break
        if t.startswith("'"):
            t = t.split(" ", 1)[1] if " " in t else t
    for wrap in ("alloc::boxed::Box<", "core::option::Option<"):
        if t.startswith(wrap):
            t = t[len(wrap):-1]
    i = t.find("<")
    return t[:i] if i >= 0 else t


class World:
    def __init__(self, crates):
        self.crates = crates
        self.fns = {}
        self.crate_of = {}
        for c in crates:
            for f in c.fn_list:
                if f.path not in self.fns:
                    self.fns[f.path] = f
                    self.crate_of[f.path] = c
        # callee paths in MIR carry generic arguments (`ChunkReader::<R>::remaining`), definitions are keyed by their own path:
        # both are compared modulo generic argument lists
        self.norm2path = {}
        for p_ in self.fns:
            self.norm2path.setdefault(norm(p_), p_)
        self.adt_fields = {}
        for c in crates:
            for a in c.items["adts"]:
                if a["k"] == "struct":
                    self.adt_fields[a["path"]] = [(f["name"], f["ty"]) for f in a["fields"]]
        self.param_taint = defaultdict(set)    # fn -> {param local index}
        self.ret_taint = set()                 # fn paths returning tainted data
        self.field_taint = set()               # (adt path, field index)
        self.results = {}                      # fn -> FnTaint

    def ty(self, f, local):
        return self.crate_of[f.path].ty(f.mir["locals"][local][0]) or ""

    def place_tainted_by_field(self, f, place):
        """is a field read through `place` a read of a wire-tainted struct field?"""
        proj = pproj(place)
        if not proj:
            return False
        ty = self.ty(f, plocal(place))
        adt = adt_of_type(ty)
        for pr in proj:
            if pr == "*":
                continue
            if isinstance(pr, int):
                if (adt, pr) in self.field_taint:
                    return True
                flds = self.adt_fields.get(adt)
                if not flds or pr >= len(flds):
                    return False
                adt = adt_of_type(flds[pr][1])
            else:
                return False
        return False


class FnTaint:
    def __init__(self, world, fn):
        self.w = world
        self.fn = fn
        self.tainted = set()
        self.why = {}             # local -> short provenance
        self.cfg = None
        self.du = None

    def run(self):
        w, f = self.w, self.fn
        blocks = f.mir["blocks"]
        tainted = set(w.param_taint.get(f.path, ()))
        for p in tainted:
            self.why.setdefault(p, "param")
        changed = True
        n_iter = 0
        while changed and n_iter < 30:
            changed = False
            n_iter += 1
            for b in blocks:
                if b.get("cl"):
                    continue
                for st in b["s"]:
                    if st[0] != "=":
                        continue
                    d = plocal(st[1])
                    if d in tainted:
                        continue
                    rv = st[2]
                    hit = None
                    for op in mirg.rvalue_operands(rv):
                        if op[0] in ("c", "m"):
                            l = plocal(op[1])
                            if l in tainted:
                                hit = self.why.get(l, "flow")
                                break
                            if w.place_tainted_by_field(f, op[1]):
                                hit = "field %s" % self._field_name(op[1])
                                break
                    if rv[0] == "repeat" and len(rv) > 2:
                        pass
                    if hit:
                        tainted.add(d)
                        self.why[d] = hit
                        changed = True
                t = b["t"]
                if t["k"] == "call":
                    d = plocal(t["d"])
                    if d in tainted:
                        continue
                    c = ncallee(t) or ""
                    c = w.norm2path.get(c, c)
                    hit = None
                    if READ_PRIM.search(c) or (c.startswith("binrw::") and READ_PRIM.search(mirg.callee_decl(t) or "")):
                        # (binrw's own impls for primitives / arrays / tuples resolve to `binrw::binread::impls::<impl BinRead for u16>::read_options`)
                        hit = "read " + c.split("::")[-1]
                    elif c in w.ret_taint:
                        hit = "ret " + c.split("::")[-1]
                    elif SANITISE_CALL.search(c):
                        hit = None
                    else:
                        # pure-ish propagation through std adapters: result tainted if an argument is
                        for a in t["a"]:
                            l = op_local(a)
                            if l is not None and (l in tainted or (a[0] in ("c", "m") and w.place_tainted_by_field(f, a[1]))):
                                if c in w.fns:
                                    hit = None      # local callee: decided by its own summary (ret_taint)
                                elif re.search(r"(::len$|::is_empty$|::capacity$|fmt::|::to_string$|::position$|::stream_position$|::seek$|::metadata$)", c):
                                    hit = None
                                else:
                                    hit = self.why.get(l, "flow") + "→" + c.split("::")[-1]
                                break
                    if hit:
                        tainted.add(d)
                        self.why[d] = hit
                        changed = True
        self.tainted = tainted
        return self

    def _field_name(self, place):
        w, f = self.w, self.fn
        ty = w.ty(f, plocal(place))
        adt = adt_of_type(ty)
        names = []
        for pr in pproj(place):
            if isinstance(pr, int):
                flds = w.adt_fields.get(adt)
                if flds and pr < len(flds):
                    names.append(flds[pr][0])
                    adt = adt_of_type(flds[pr][1])
                else:
                    names.append(str(pr))
        return adt.split("::")[-1] + "." + ".".join(names) if names else "?"

    def operand_tainted(self, op):
        if op[0] not in ("c", "m"):
            return None
        l = plocal(op[1])
        if l in self.tainted:
            return self.why.get(l, "flow")
        if self.w.place_tainted_by_field(self.fn, op[1]):
            return "field " + self._field_name(op[1])
        return None

    def lower_bound_at(self, op, bb):
        """largest constant c such that a dominating branch edge establishes `value >= c` at block bb, for the operand's own local or a
        plain copy / widening cast of it (None if no such edge).  Used for `x - K`: only a *lower* bound on x makes it safe."""
        f = self.fn
        if self.cfg is None:
            self.cfg = mirg.Cfg(f)
            self.du = mirg.DefUse(f)
        l = op_local(op)
        if l is None:
            return None
        # the local and what it was copied / cast from, and copies of those
        same = {l}
        work = [l]
        while work:
            x = work.pop()
            for _b, k_, p_ in self.du.defs.get(x, []):
                if k_ == "assign" and p_[2][0] in ("use", "cast") :
                    for o_ in mirg.rvalue_operands(p_[2]):
                        ol = op_local(o_)
                        if ol is not None and ol not in same and not pproj(o_[1]) if o_[0] in ("c", "m") else False:
                            same.add(ol)
                            work.append(ol)
        best = None
        blocks = f.mir["blocks"]
        for i, b in enumerate(blocks):
            t = b["t"]
            if t["k"] != "switch" or i == bb or not self.cfg.dominates(i, bb):
                continue
            dl = op_local(t["d"])
            for _b, k_, p_ in self.du.defs.get(dl, []) if dl is not None else []:
                if k_ != "assign" or p_[2][0] != "bin" or p_[2][1] not in ("Lt", "Le", "Gt", "Ge", "Eq", "Ne"):
                    continue
                a_, b_ = p_[2][2], p_[2][3]
                opn = p_[2][1]
                if mirg.op_int(a_) is not None and op_local(b_) is not None:
                    a_, b_ = b_, a_
                    opn = {"Lt": "Gt", "Le": "Ge", "Gt": "Lt", "Ge": "Le", "Eq": "Eq", "Ne": "Ne"}[opn]
                c = mirg.op_int(b_)
                xl = op_local(a_)
                if c is None or xl is None:
                    continue
                xs = {xl}
                for _b2, k2, p2 in self.du.defs.get(xl, []):
                    if k2 == "assign" and p2[2][0] in ("use", "cast"):
                        for o_ in mirg.rvalue_operands(p2[2]):
                            if op_local(o_) is not None:
                                xs.add(op_local(o_))
                if not (xs & same):
                    continue
                # which edge leads to bb: the one for "condition false" (value 0) or the other
                false_t = [tg for v_, tg in t["ts"] if v_ == 0]
                true_t = t.get("o")
                on_true = true_t is not None and (true_t == bb or self.cfg.dominates(true_t, bb)) and not (false_t and (false_t[0] == bb or self.cfg.dominates(false_t[0], bb)))
                on_false = bool(false_t) and (false_t[0] == bb or self.cfg.dominates(false_t[0], bb)) and not (true_t is not None and (true_t == bb or self.cfg.dominates(true_t, bb)))
                lb = None
                if on_true:
                    lb = {"Gt": c + 1, "Ge": c, "Eq": c}.get(opn)
                    if opn == "Ne" and c == 0:
                        lb = 1                      # an unsigned value that is not 0 is at least 1
                elif on_false:
                    lb = {"Lt": c, "Le": c + 1}.get(opn)
                    if opn == "Eq" and c == 0:
                        lb = 1
                if lb is not None:
                    best = lb if best is None else max(best, lb)
        return best

    def upper_bounded_at(self, op, bb):
        """a dominating branch *edge* (not merely a dominating comparison whose both arms rejoin) establishes `value < X` / `value <= X`
        at block bb, for the operand's own local or a plain copy / widening cast of it.  `if v > MAX { warn!(..) }` does not."""
        f = self.fn
        if self.cfg is None:
            self.cfg = mirg.Cfg(f)
            self.du = mirg.DefUse(f)
        l = op_local(op)
        if l is None:
            return True
        same = {l}
        work = [l]
        while work:
            x = work.pop()
            for _b, k_, p_ in self.du.defs.get(x, []):
                if k_ == "assign" and p_[2][0] in ("use", "cast"):
                    for o_ in mirg.rvalue_operands(p_[2]):
                        ol = op_local(o_)
                        if ol is not None and ol not in same and o_[0] in ("c", "m") and not pproj(o_[1]):
                            same.add(ol)
                            work.append(ol)
        # forward copies too (the comparison may be made on `v as usize`)
        for x_, ds_ in self.du.defs.items():
            for _b, k_, p_ in ds_:
                if k_ == "assign" and p_[2][0] in ("use", "cast") and any(op_local(o_) in same for o_ in mirg.rvalue_operands(p_[2]) if o_[0] in ("c", "m") and not pproj(o_[1])):
                    same.add(x_)
        blocks = f.mir["blocks"]
        for i, b in enumerate(blocks):
            t = b["t"]
            if t["k"] != "switch" or i == bb or not self.cfg.dominates(i, bb):
                continue
            dl = op_local(t["d"])
            for _b, k_, p_ in self.du.defs.get(dl, []) if dl is not None else []:
                if k_ != "assign" or p_[2][0] != "bin" or p_[2][1] not in ("Lt", "Le", "Gt", "Ge"):
                    continue
                a_, b_ = p_[2][2], p_[2][3]
                opn = p_[2][1]
                if op_local(b_) in same and op_local(a_) not in same:
                    a_, b_ = b_, a_
                    opn = {"Lt": "Gt", "Le": "Ge", "Gt": "Lt", "Ge": "Le"}[opn]
                if op_local(a_) not in same:
                    continue
                false_t = [tg for v_, tg in t["ts"] if v_ == 0]
                true_t = t.get("o")
                on_true = true_t is not None and (true_t == bb or self.cfg.dominates(true_t, bb)) and not (false_t and (false_t[0] == bb or self.cfg.dominates(false_t[0], bb)))
                on_false = bool(false_t) and (false_t[0] == bb or self.cfg.dominates(false_t[0], bb)) and not (true_t is not None and (true_t == bb or self.cfg.dominates(true_t, bb)))
                if (on_true and opn in ("Lt", "Le")) or (on_false and opn in ("Gt", "Ge")):
                    return True
        return False

    def sanitised(self, op, bb, strict=False, asserts=True, zero_test=False, lower_ok=True):
        """generous: any dominating ordered comparison on the value / an ancestor / a sibling copy, or a sanitising call in its derivation.
        strict=True: "related value" means sharing an *integer-typed* ancestor (not merely the same struct reference / iterator)"""
        f = self.fn
        _INT = ("u8", "u16", "u32", "u64", "usize", "i8", "i16", "i32", "i64", "isize", "u128", "i128")

        def rel(sa, sb):
            common = sa & sb
            if not strict:
                return bool(common)
            return any((f.crate.ty(f.mir["locals"][x][0]) or "") in _INT for x in common)
        if self.cfg is None:
            self.cfg = mirg.Cfg(f)
            self.du = mirg.DefUse(f)
        l = op_local(op)
        if l is None:
            return "constant"
        # (strict: the value of an element does not derive from the index it was loaded with — a bounds check on `i` says nothing about v[i])
        anc, calls, _ = self.du.slice_back(l, depth=10, through_index=not strict)
        for c in calls:
            cn = ncallee(c) or ""
            if SANITISE_CALL.search(cn):
                return "derivation passes " + cn.split("::")[-1]
        # field places: the same field compared elsewhere counts (e.g. `if header.count > MAX`)
        fields = set()
        if op[0] in ("c", "m") and pproj(op[1]):
            fields.add((plocal(op[1]), tuple(p for p in pproj(op[1]) if isinstance(p, int))))
        for a in list(anc):
            for _bb, kind, payload in self.du.defs.get(a, []):
                if kind == "assign":
                    for o2 in mirg.rvalue_operands(payload[2]):
                        if o2[0] in ("c", "m") and pproj(o2[1]):
                            fields.add((plocal(o2[1]), tuple(p for p in pproj(o2[1]) if isinstance(p, int))))
        def _same(o2, depth=0):
            # the operand is the sink value itself: the same field place, or a projection-free local that is an ancestor /
            # a plain copy of that field
            if pproj(o2[1]):
                return (plocal(o2[1]), tuple(p for p in pproj(o2[1]) if isinstance(p, int))) in fields
            if fields:
                return depth < 3 and any(k_ == "assign" and p_[2][0] in ("use", "cast") and any(o3[0] in ("c", "m") and _same(o3, depth + 1) for o3 in mirg.rvalue_operands(p_[2]))
                                         for _b, k_, p_ in self.du.defs.get(plocal(o2[1]), []))
            return plocal(o2[1]) in anc
        def _ref_places(loc):
            out = set()
            for _b, k_, p_ in self.du.defs.get(loc, []):
                if k_ == "assign" and p_[2][0] in ("ref", "refmut") and pproj(p_[2][1]):
                    out.add((plocal(p_[2][1]), tuple(x_ for x_ in pproj(p_[2][1]) if isinstance(x_, int))))
            return out
        blocks = f.mir["blocks"]
        for i, b in enumerate(blocks):
            t = b["t"]
            if t["k"] not in ("switch", "assert") or (t["k"] == "assert" and not asserts):
                continue
            if i == bb or not self.cfg.dominates(i, bb):
                continue
            dl = op_local(t["d"]) if t["k"] == "switch" else op_local(t["c"])
            if dl is None:
                continue
            # find the comparison defining dl (possibly through Not / copies)
            stack = [dl]
            seen = set()
            while stack:
                x = stack.pop()
                if x in seen:
                    continue
                seen.add(x)
                for _bb, kind, payload in self.du.defs.get(x, []):
                    if kind == "assign":
                        rv = payload[2]
                        if rv[0] == "bin" and rv[1] in ORDERED:
                            if not lower_ok and any(mirg.op_int(o_) in (0, 1) for o_ in (rv[2], rv[3])):
                                continue          # `x > 0` / `x >= 1`: a lower bound says nothing about how large x is
                            for o2 in (rv[2], rv[3]):
                                ol = op_local(o2)
                                if ol is None:
                                    continue
                                if ol in anc:
                                    return "dominating comparison (bb%d)" % i
                                a2, _, _ = self.du.slice_back(ol, depth=6)
                                if rel(a2, anc):
                                    return "dominating comparison on a related value (bb%d)" % i
                                if o2[0] in ("c", "m") and pproj(o2[1]) and (plocal(o2[1]), tuple(p for p in pproj(o2[1]) if isinstance(p, int))) in fields:
                                    return "dominating comparison on the same field (bb%d)" % i
                                for a3 in a2:
                                    if strict and (f.crate.ty(f.mir["locals"][a3][0]) or "") not in _INT:
                                        continue
                                    for _b3, k3, p3 in self.du.defs.get(a3, []):
                                        if k3 == "assign":
                                            for o3 in mirg.rvalue_operands(p3[2]):
                                                if o3[0] in ("c", "m") and pproj(o3[1]) and (plocal(o3[1]), tuple(p for p in pproj(o3[1]) if isinstance(p, int))) in fields:
                                                    return "dominating comparison on the same field (bb%d)" % i
                        elif zero_test and t["k"] == "switch" and ((rv[0] == "use" and x == dl) or (rv[0] == "bin" and rv[1] in ("Eq", "Ne") and 0 in (mirg.op_int(rv[2]), mirg.op_int(rv[3])))) and any(
                                _same(o2) for o2 in mirg.rvalue_operands(rv) if o2[0] in ("c", "m")):
                            # `if x == 0 { refill / bail }` before `x - 1`: the only value the decrement cannot take is handled
                            return "dominating zero test on the same value (bb%d)" % i
                        elif rv[0] in ("un", "use", "discr"):
                            # (`discr`: the branch taken by `validator(..)?` switches on the discriminant of the Try::branch result)
                            for o2 in mirg.rvalue_operands(rv):
                                if op_local(o2) is not None:
                                    stack.append(op_local(o2))
                    else:
                        # bool produced by a call (e.g. `x.checked_add(..).is_none()`, `a.lt(&b)`, `validate_x(..)`): a *checking* call over ancestors
                        cn_ = ncallee(payload) or ""
                        if not CHECK_CALL.search(cn_):
                            for a_ in payload["a"]:
                                if op_local(a_) is not None:
                                    stack.append(op_local(a_))
                            continue
                        for a_ in payload["a"]:
                            al_ = op_local(a_)
                            if al_ is None:
                                continue
                            if al_ in anc:
                                return "dominating check call (bb%d)" % i
                            if _ref_places(al_) & _ref_places(l):
                                # `if !v.field.is_empty() { v.field[0] }`: both borrows are of the same field place
                                return "dominating check call on the same field (bb%d)" % i
                            a4, _, _ = self.du.slice_back(al_, depth=4)
                            # (parameters are left out of the loose relation because `self` relates everything; the strict relation
                            #  only counts integer-typed values, so an integer parameter handed to a validator does count)
                            if rel(a4 - (set() if strict else set(range(1, f.mir["argc"] + 1))), anc):
                                return "dominating check call on a related value (bb%d)" % i
        return None



    # ---- ordering evidence for a subtraction -------------------------------------------------------------------------------
    def _aliases(self, op):
        """the operand and everything it is a value-preserving view of: copies, casts, borrows / reborrows, field reloads of the
        same place and `len()`/`as_ref()`-style views — no arithmetic.  Returns (locals, field places)"""
        if self.cfg is None:
            self.cfg = mirg.Cfg(self.fn)
            self.du = mirg.DefUse(self.fn)
        locs, flds = set(), set()
        l0 = op_local(op)
        if l0 is None:
            return locs, flds
        if op[0] in ("c", "m") and pproj(op[1]):
            flds.add((plocal(op[1]), tuple(p for p in pproj(op[1]) if isinstance(p, int))))
            return locs, flds      # a field place is itself; its base local is not an alias of the field's value
        stack = [l0]
        while stack:
            x = stack.pop()
            if x in locs:
                continue
            locs.add(x)
            for _b, k_, p_ in self.du.defs.get(x, []):
                if k_ == "assign":
                    rv = p_[2]
                    if rv[0] in ("use", "cast", "ref", "refmut", "rawptr") or (rv[0] == "un" and rv[1] == "PtrMetadata"):
                        for o in mirg.rvalue_operands(rv):
                            if o[0] in ("c", "m"):
                                ints = tuple(q for q in pproj(o[1]) if isinstance(q, int))
                                if ints:
                                    flds.add((plocal(o[1]), ints))
                                else:
                                    stack.append(plocal(o[1]))
                else:
                    cn = ncallee(p_) or ""
                    if re.search(r"(::len$|::as_ref$|::as_slice$|::deref$|::as_mut$|::borrow$|::clone$|::into$|::from$|::unwrap$|::get_ref$|::as_mut_slice$|::try_into$|::try_from$)", cn) and p_["a"]:
                        o = p_["a"][0]
                        if o[0] in ("c", "m"):
                            ints = tuple(q for q in pproj(o[1]) if isinstance(q, int))
                            if ints:
                                flds.add((plocal(o[1]), ints))
                            else:
                                stack.append(plocal(o[1]))
        return locs, flds

    def _mentions(self, op, locs, flds, depth=8):
        """does the derivation of `op` (arithmetic allowed) read one of the locals / field places?"""
        l = op_local(op)
        if l is None:
            return False
        if op[0] in ("c", "m") and pproj(op[1]):
            if (plocal(op[1]), tuple(p for p in pproj(op[1]) if isinstance(p, int))) in flds:
                return True
        anc, calls, _ = self.du.slice_back(l, depth=depth)
        if anc & locs:
            return True
        for a in anc:
            for _b, k_, p_ in self.du.defs.get(a, []):
                ops = mirg.rvalue_operands(p_[2]) if k_ == "assign" else p_["a"]
                for o in ops:
                    if o[0] in ("c", "m") and pproj(o[1]) and (plocal(o[1]), tuple(q for q in pproj(o[1]) if isinstance(q, int))) in flds:
                        return True
        return False

    def clamped_by(self, b_op, a_op):
        """`a - b` where b is (a copy of) `min(a, x)` / `x.min(a)` / `clamp(_, a)`, or a is `max(b, x)`: ordered by construction"""
        if self.cfg is None:
            self.cfg = mirg.Cfg(self.fn)
            self.du = mirg.DefUse(self.fn)
        la, fa = self._aliases(a_op)
        lb, fb = self._aliases(b_op)
        for x in lb:
            for _b, k_, p_ in self.du.defs.get(x, []):
                if k_ == "call" and re.search(r"(::min$|::clamp$)", ncallee(p_) or ""):
                    for o in p_["a"]:
                        lo, fo = self._aliases(o)
                        if (lo & la) or (fo & fa):
                            return True
        for x in la:
            for _b, k_, p_ in self.du.defs.get(x, []):
                if k_ == "call" and re.search(r"(::max$)", ncallee(p_) or ""):
                    for o in p_["a"]:
                        lo, fo = self._aliases(o)
                        if (lo & lb) or (fo & fb):
                            return True
        return False

    def ordered_before(self, a_op, b_op, bb):
        """evidence that the two operands of `a - b` were compared *with each other* on every path to bb: a dominating ordered
        comparison (or a checking call) whose one side derives from a and whose other side derives from b"""
        if self.cfg is None:
            self.cfg = mirg.Cfg(self.fn)
            self.du = mirg.DefUse(self.fn)
        f = self.fn
        la, fa = self._aliases(a_op)
        lb, fb = self._aliases(b_op)
        # a = b + x (unsigned): the difference cannot underflow
        for x in la:
            for _b, k_, p_ in self.du.defs.get(x, []):
                if k_ == "assign" and p_[2][0] == "bin" and p_[2][1] in ("Add", "AddWithOverflow", "AddUnchecked"):
                    for o in (p_[2][2], p_[2][3]):
                        lo, fo = self._aliases(o)
                        if (lo & lb) or (fo & fb):
                            return "minuend is the subtrahend plus a value"
                if k_ == "assign" and p_[2][0] == "use" and p_[2][1][0] in ("c", "m") and pproj(p_[2][1][1]) == [0]:
                    # (x, overflow) = AddWithOverflow(..): the sum is field 0 of the pair
                    for _b2, k2, p2 in self.du.defs.get(plocal(p_[2][1][1]), []):
                        if k2 == "assign" and p2[2][0] == "bin" and p2[2][1] == "AddWithOverflow":
                            for o in (p2[2][2], p2[2][3]):
                                lo, fo = self._aliases(o)
                                if (lo & lb) or (fo & fb):
                                    return "minuend is the subtrahend plus a value"
                # a = b.saturating_add(x) / b.wrapping... no: only the saturating form keeps a >= b for unsigned operands
                if k_ == "call" and re.search(r"impl u(8|16|32|64|size)>::saturating_add$|^u(8|16|32|64|size)::saturating_add$", (mirg.callee(p_) or "")) and p_.get("a"):
                    for o_ in p_["a"][:2]:
                        lo, fo = self._aliases(o_)
                        if (lo & lb) or (fo & fb):
                            return "minuend is the subtrahend plus a value (saturating)"
        for i, b in enumerate(f.mir["blocks"]):
            t = b["t"]
            if t["k"] != "switch" or i == bb or not self.cfg.dominates(i, bb):
                continue
            dl = op_local(t["d"])
            stack, seen = [dl], set()
            while stack:
                x = stack.pop()
                if x is None or x in seen:
                    continue
                seen.add(x)
                for _bb, kind, payload in self.du.defs.get(x, []):
                    if kind == "assign":
                        rv = payload[2]
                        if rv[0] == "bin" and rv[1] in ORDERED | {"Eq", "Ne"}:
                            l_, r_ = rv[2], rv[3]
                            if (self._mentions(l_, la, fa) and self._mentions(r_, lb, fb)) or (self._mentions(l_, lb, fb) and self._mentions(r_, la, fa)):
                                return "operands compared with each other (bb%d)" % i
                        elif rv[0] in ("un", "use"):
                            for o2 in mirg.rvalue_operands(rv):
                                stack.append(op_local(o2))
                    else:
                        cn_ = ncallee(payload) or ""
                        args = payload["a"]
                        if CHECK_CALL.search(cn_) and len(args) >= 2:
                            if (self._mentions(args[0], la, fa) and self._mentions(args[1], lb, fb)) or (self._mentions(args[0], lb, fb) and self._mentions(args[1], la, fa)):
                                return "operands compared with each other by %s (bb%d)" % (cn_.split("::")[-1], i)
                        for a_ in args:
                            stack.append(op_local(a_))
        return None


def _return_sanitised(ft, f):
    """a validating helper (`fn checked_count(n) -> Result<usize> { if n > limit { return Err } Ok(n) }`): the returned value is
    input-derived, but every return is dominated by an ordered comparison / check on it (the same generous sanitiser sinks use),
    so callers receive a bounded value.  Only integer-returning helpers (possibly wrapped in Result/Option) qualify."""
    rty = f.crate.ty(f.mir["locals"][0][0]) or ""
    if not re.fullmatch(r"(?:core::result::Result<|core::option::Option<)?\s*(?:u8|u16|u32|u64|usize|i8|i16|i32|i64|isize)\b.*", rty):
        return False
    # every *definition* of the return place that carries an input-derived operand must be dominated by the helper's own check
    # (an early `?` return of an error carries none and may bypass it)
    n = 0
    for i, b in enumerate(f.mir["blocks"]):
        if b.get("cl"):
            continue
        for st in b["s"]:
            if st[0] == "=" and plocal(st[1]) == 0:
                if st[2][0] == "agg" and isinstance(st[2][1], list) and st[2][1][0] == "adt" and st[2][1][2] in ("Err", "None"):
                    continue          # an error being returned is not the validated integer
                for o in mirg.rvalue_operands(st[2]):
                    if ft.operand_tainted(o):
                        n += 1
                        if not ft.sanitised(o, i, asserts=False):
                            return False
        t = b["t"]
        if t["k"] == "call" and plocal(t["d"]) == 0 and not (ncallee(t) or "").endswith("::from_residual"):
            for o in t["a"]:
                if ft.operand_tainted(o):
                    n += 1
                    if not ft.sanitised(o, i, asserts=False):
                        return False
    return n > 0


def solve(world, max_rounds=12):
    """global fixpoint over param taint, return taint and wire-struct field taint"""
    for _round in range(max_rounds):
        changed = False
        for path, f in world.fns.items():
            ft = FnTaint(world, f).run()
            world.results[path] = ft
            blocks = f.mir["blocks"]
            # return taint
            if 0 in ft.tainted and path not in world.ret_taint and not _return_sanitised(ft, f):
                world.ret_taint.add(path)
                changed = True
            # field taint: aggregates and field stores
            for b in blocks:
                if b.get("cl"):
                    continue
                for st in b["s"]:
                    if st[0] != "=":
                        continue
                    rv = st[2]
                    if rv[0] == "agg" and isinstance(rv[1], list) and rv[1][0] == "adt":
                        adt = rv[1][1]
                        for i, o in enumerate(rv[2]):
                            if ft.operand_tainted(o) and (adt, i) not in world.field_taint and adt in world.adt_fields:
                                world.field_taint.add((adt, i))
                                changed = True
                    pj = pproj(st[1])
                    if pj and isinstance(pj[-1], int):
                        srcs = mirg.rvalue_operands(rv)
                        if any(ft.operand_tainted(o) for o in srcs):
                            ty = world.ty(f, plocal(st[1]))
                            adt = adt_of_type(ty)
                            ok = True
                            for pr in pj[:-1]:
                                if pr == "*":
                                    continue
                                if isinstance(pr, int):
                                    flds = world.adt_fields.get(adt)
                                    if not flds or pr >= len(flds):
                                        ok = False
                                        break
                                    adt = adt_of_type(flds[pr][1])
                                else:
                                    ok = False
                                    break
                            if ok and adt in world.adt_fields and (adt, pj[-1]) not in world.field_taint:
                                world.field_taint.add((adt, pj[-1]))
                                changed = True
                t = b["t"]
                if t["k"] == "call":
                    c = ncallee(t) or ""
                    c = world.norm2path.get(c, c)
                    # read_exact(&mut self.field) style: a byte buffer filled from input taints the field/local it borrows — handled by READ_PRIM on conversion
                    if re.search(r"core::ops::function::Fn(Mut|Once)?::call(_mut|_once)?$", c) and len(t["a"]) == 2:
                        du = mirg.DefUse(f)
                        # which closure?
                        cl_path = None
                        ls, _, _ = du.slice_back(op_local(t["a"][0]) if op_local(t["a"][0]) is not None else -1, depth=6)
                        for l_ in ls:
                            for _b, kind, payload in du.defs.get(l_, []):
                                if kind == "assign" and payload[2][0] == "agg" and isinstance(payload[2][1], list) and payload[2][1][0] == "closure":
                                    cl_path = payload[2][1][1]
                        tl = op_local(t["a"][1])
                        if cl_path in world.fns and tl is not None:
                            for _b, kind, payload in du.defs.get(tl, []):
                                if kind == "assign" and payload[2][0] == "agg" and payload[2][1] == "tuple":
                                    for i, o in enumerate(payload[2][2]):
                                        if ft.operand_tainted(o) and (i + 2) not in world.param_taint[cl_path]:
                                            world.param_taint[cl_path].add(i + 2)
                                            changed = True
                    if c in world.fns:
                        bbi = blocks.index(b)
                        for i, a in enumerate(t["a"]):
                            if ft.operand_tainted(a) and (i + 1) not in world.param_taint[c]:
                                al_ = op_local(a)
                                if al_ is not None and not pproj(a[1]) and adt_of_type(world.ty(f, al_)) in world.adt_fields:
                                    # a (reference to a) struct whose fields are tracked one by one (field_taint): the callee's
                                    # reads of its input-filled fields are tainted through those, not through the whole value
                                    continue
                                # (strict: a check on some other part of `self` says nothing about this argument)
                                if ft.sanitised(a, bbi, strict=True, lower_ok=False):
                                    continue
                                world.param_taint[c].add(i + 1)
                                changed = True
        if not changed:
            break
    return world
