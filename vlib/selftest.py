"""Thorough tier: sensitivity self-test of one property's rule set.

For property P the thorough command, after deciding P on /repo's working tree (both feature configurations), re-runs P's
quick rule set on scratch copies of that same working tree with ONE recorded change applied each:

  * every independently produced source change kept under seeded/<id>/ whose meta.json names P (changes that compile, keep
    the repository's own suite green and were demonstrated to break P) — each must be REPORTED;
  * every repaired defect of P (known_findings.json `fixed:` entries): the repair commit applied in reverse — each must be
    REPORTED again ("reports the violation again if it ever returns");
  * every behaviour-preserving batch under seeded/benign/ — each must be SILENT.

Nothing of the library is executed: a scratch copy is compiled by the facts driver and analysed, exactly like /repo itself.
A change that no longer applies to the current tree (the code it edits was rewritten) is listed as inapplicable, not as a miss.
The outcome is recorded in the evidence file (coverage.selftest); it never turns into a VIOLATION line — a VIOLATION line is
reserved for /repo's own tree breaking the property — but a lost detection is printed as `SELFTEST-MISS` and a benign alarm as
`SELFTEST-FALSE-ALARM` so that the reader of the thorough run sees them.
"""
import glob
import json
import os
import shutil
import subprocess
import tempfile

from . import facts

VERIF = facts.VERIF


def _scratch(repo):
    """git worktree of HEAD brought up to the working tree (tracked modifications + untracked, non-ignored files)"""
    top = tempfile.mkdtemp(prefix="vst-", dir=os.environ.get("VERIF_SCRATCH") or None)
    wt = os.path.join(top, "r")
    r = subprocess.run(["git", "-C", repo, "worktree", "add", "-q", "--detach", wt, "HEAD"], capture_output=True, text=True)
    if r.returncode != 0:
        shutil.rmtree(top, ignore_errors=True)
        return None, None
    d = subprocess.run(["git", "-C", repo, "diff", "HEAD", "--binary"], capture_output=True).stdout
    if d.strip():
        subprocess.run(["git", "-C", wt, "apply", "--whitespace=nowarn"], input=d, capture_output=True)
    o = subprocess.run(["git", "-C", repo, "ls-files", "-o", "--exclude-standard", "-z"], capture_output=True).stdout
    for name in o.split(b"\0"):
        if not name or name.startswith(b"target/"):
            continue
        src = os.path.join(repo.encode(), name)
        dst = os.path.join(wt.encode(), name)
        try:
            os.makedirs(os.path.dirname(dst), exist_ok=True)
            shutil.copy2(src, dst)
        except OSError:
            pass
    return top, wt


def _drop(repo, top, wt):
    subprocess.run(["git", "-C", repo, "worktree", "remove", "--force", wt], capture_output=True)
    shutil.rmtree(top, ignore_errors=True)
    subprocess.run(["git", "-C", repo, "worktree", "prune"], capture_output=True)


def _run_one_impl(repo, pid, patch_bytes, reverse=False):
    """-> ("inapplicable", []) | ("reported", [rules]) | ("silent", []) | ("tooling", [msg])"""
    top, wt = _scratch(repo)
    if wt is None:
        return "tooling", ["scratch worktree could not be created"]
    try:
        cmd = ["git", "-C", wt, "apply", "--whitespace=nowarn"] + (["-R"] if reverse else [])
        r = subprocess.run(cmd, input=patch_bytes, capture_output=True)
        if r.returncode != 0:
            return "inapplicable", []
        env = dict(os.environ, VERIF_REPO=wt, VERIF_EVIDENCE=os.path.join(top, "ev"), VERIF_TIER="quick")
        c = subprocess.run(["python3", os.path.join(VERIF, "bin", "check"), pid, "--tier", "quick"], env=env,
                           capture_output=True, text=True, cwd=VERIF)
        if c.returncode == 2:
            return "tooling", [(c.stderr or c.stdout)[-300:]]
        rules = sorted({ln.split()[1] for ln in c.stdout.split("\n") if ln.strip().startswith("rule ")})
        if "VIOLATION property=" in c.stdout:
            return "reported", rules
        return "silent", []
    finally:
        _drop(repo, top, wt)


def run(pid, repo=None, log=print):
    repo = repo or facts.REPO
    import time
    t0 = time.time()
    budget = float(os.environ.get("VERIF_SELFTEST_BUDGET", "600"))      # seconds; changes not started within it are listed as skipped
    global _run_one
    _inner = _run_one_impl

    def _run_one(repo_, pid_, patch_, reverse=False):
        if time.time() - t0 > budget:
            return "skipped (time budget)", []
        return _inner(repo_, pid_, patch_, reverse)
    out = {"seeded_changes": [], "reverted_repairs": [], "benign_batches": [],
           "rule": "one recorded change per scratch copy of the working tree; the property's quick rule set is re-run on it"}
    # 1. independently produced breaking changes
    for d in sorted(glob.glob(os.path.join(VERIF, "seeded", "C*"))):
        mp = os.path.join(d, "meta.json")
        pp = os.path.join(d, "patch.diff")
        if not (os.path.exists(mp) and os.path.exists(pp)):
            continue
        meta = json.load(open(mp))
        if meta.get("property") != pid:
            continue
        verdict, rules = _run_one(repo, pid, open(pp, "rb").read())
        out["seeded_changes"].append({"id": os.path.basename(d), "verdict": verdict, "rules": rules})
        expected_miss = bool(meta.get("accepted_miss"))
        if verdict == "silent" and not expected_miss:
            log("SELFTEST-MISS property=%s change=seeded/%s (a recorded breaking change is no longer reported)" % (pid, os.path.basename(d)))
    # 2. repaired defects, reverted
    known = json.load(open(os.path.join(VERIF, "known_findings.json")))
    seen = set()
    for f in known.get("fixed", []):
        if f.get("property") != pid or not f.get("commit"):
            continue
        for commit in str(f["commit"]).replace(",", " ").split():
            if commit in seen:
                continue
            seen.add(commit)
            sh = subprocess.run(["git", "-C", repo, "show", "--binary", "--format=", commit], capture_output=True)
            if sh.returncode != 0 or not sh.stdout.strip():
                out["reverted_repairs"].append({"commit": commit, "verdict": "inapplicable", "rules": [], "note": "commit not found"})
                continue
            verdict, rules = _run_one(repo, pid, sh.stdout, reverse=True)
            out["reverted_repairs"].append({"commit": commit, "verdict": verdict, "rules": rules, "what": (f.get("line") or "")[:160]})
            if verdict == "silent" and not f.get("revert_not_reported_reason"):
                log("SELFTEST-MISS property=%s change=revert-of-%s (a repaired defect would not be reported if it returned)" % (pid, commit))
    # 3. behaviour-preserving batches
    for b in sorted(glob.glob(os.path.join(VERIF, "seeded", "benign", "*.diff"))):
        if b.endswith(".orig.diff"):
            continue
        verdict, rules = _run_one(repo, pid, open(b, "rb").read())
        out["benign_batches"].append({"id": os.path.basename(b), "verdict": verdict, "rules": rules})
        if verdict == "reported":
            log("SELFTEST-FALSE-ALARM property=%s batch=%s rules=%s" % (pid, os.path.basename(b), ",".join(rules)))
    def cnt(lst, v):
        return sum(1 for x in lst if x["verdict"] == v)
    out["summary"] = {
        "seeded_reported": cnt(out["seeded_changes"], "reported"), "seeded_total_applicable": len(out["seeded_changes"]) - cnt(out["seeded_changes"], "inapplicable") - cnt(out["seeded_changes"], "skipped (time budget)"),
        "reverts_reported": cnt(out["reverted_repairs"], "reported"), "reverts_total_applicable": len(out["reverted_repairs"]) - cnt(out["reverted_repairs"], "inapplicable") - cnt(out["reverted_repairs"], "skipped (time budget)"),
        "benign_silent": cnt(out["benign_batches"], "silent"), "benign_total_applicable": len(out["benign_batches"]) - cnt(out["benign_batches"], "inapplicable") - cnt(out["benign_batches"], "skipped (time budget)"),
        "skipped_for_time": sum(cnt(out[k_], "skipped (time budget)") for k_ in ("seeded_changes", "reverted_repairs", "benign_batches")), "budget_s": budget,
    }
    return out
