"""Rules shared by several properties that do not belong to one property module (typed HIR)."""
import re

from . import hirq


def _is_self(e):
    e = hirq.strip(e) if e else e
    return bool(e) and e.get("k") == "path" and (e.get("res") or {}).get("local") == "self"


def setters_keep_other_settings_rule(ctx, crates, pid, type_re, floor=1):
    """Chained configuration (`Cfg::new().skip_errors(true).threads(4)`): a by-value `fn x(self, v) -> Self` of a settings type
    must hand back `self` with one field changed.  Accepted forms of every value the method can return: the local `self`
    (after any number of field assignments), a struct literal `T { f: v, ..self }`, a full literal whose every other field is
    `self.<same field>`, or the result of calling another such method on `self`.  A literal based on anything else
    (`..Self::default()`, `..Self::new()`), or a fresh value (`Self::default()` then assignments), silently resets what the
    caller configured before — which of the caller's settings survive would then depend on the order of the calls."""
    R = ctx.rule("%s.setters-keep-other-settings" % pid,
                 "every by-value setter `fn(self, v) -> Self` of the configuration types returns `self` (field assignments, `..self`, "
                 "or another setter of self) — never a value rebuilt from defaults", floor=floor)
    rx = re.compile(type_re)
    for cr in crates:
        for p, f in sorted(cr.fns.items()):
            if f.kind != "AssocFn" or not f.hir or "::tests::" in p:
                continue
            st = f.d.get("self_ty") or ""
            if not rx.search(st):
                continue
            ps = f.hir["params"]
            if not ps or ps[0].get("name") != "self" or len(ps) < 2:
                continue
            loc = (f.mir or {}).get("locals") or []
            if len(loc) < 2 or loc[1][0] != f.d.get("output") or cr.ty(f.d.get("output")) != st:
                continue
            ctx.saw_fn(f)
            body = f.hir["body"]
            rets = list(hirq.tails(body)) + [hirq.strip(r["e"]) for r in hirq.find(body, "ret") if r.get("e")]
            bad = None
            for t in rets:
                for v in hirq.value_leaves(body, t):
                    if v is None:
                        continue
                    if _is_self(v):
                        continue
                    k = v.get("k")
                    if k == "struct":
                        if v.get("base") is not None:
                            if _is_self(v["base"]) or all(_is_self(x) for x in hirq.value_leaves(body, v["base"]) if x is not None):
                                continue
                            bad = "struct literal completed from `..%s`" % hirq.render(v["base"])[:60]
                            break
                        # full literal: every field either mentions a parameter or is self.<same field>
                        names = {b for pp in ps[1:] for b in hirq.pat_binds(pp)}
                        lost = []
                        for nm, e in v["fields"]:
                            uses_param = any(x.get("k") == "path" and (x.get("res") or {}).get("local") in names for x in hirq.walk(e))
                            e0 = hirq.strip(e)
                            keeps = e0.get("k") == "field" and e0.get("name") == nm and _is_self(e0.get("e"))
                            keeps = keeps or (e0.get("k") == "mcall" and e0["m"] == "clone" and hirq.strip(e0["recv"]).get("k") == "field"
                                              and hirq.strip(e0["recv"]).get("name") == nm and _is_self(hirq.strip(e0["recv"]).get("e")))
                            if not (uses_param or keeps):
                                lost.append(nm)
                        if not lost:
                            continue
                        bad = "field(s) %s rebuilt instead of carried over from self" % ", ".join(lost[:4])
                        break
                    if k == "mcall" and _is_self(v.get("recv")):
                        continue          # delegates to another method of self (checked on its own)
                    if k in ("call", "mcall"):
                        bad = "returns `%s`, a value not derived from self" % hirq.render(v)[:60]
                        break
                    # anything else (a block the resolver could not see through): not judged
                if bad:
                    break
            key = "%s|setter" % p.split("::", 1)[1]
            if bad:
                ctx.bad(R, key, f.where, bad,
                        "a setting made earlier in the chain is silently reset: the behaviour of the configured operation then depends on the order of the builder calls")
            else:
                ctx.ok(R, {"setter": p})
    return R
