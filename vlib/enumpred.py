"""Evaluate a predicate over one enum-typed variable for every variant of the enum (finite domain).

Understands `matches!(v, A | B)` (a bool-valued match), comparisons of the variable with a variant
constant under the derive(PartialOrd) order (declaration order), `!`, `&&`, `||`.  Anything else raises
Opaque — the caller decides whether that is an unarmed note or a violation."""
from . import hirq


class Opaque(Exception):
    pass


def variants_of(crate, suffix):
    a = next((a for a in crate.items["adts"] if a["path"].endswith(suffix) and a.get("variants")), None)
    return [v["name"] for v in a["variants"]] if a else None


def _is_var(n, var):
    n = hirq.strip(n)
    while n.get("k") == "cast":
        n = hirq.strip(n["e"])
    if n.get("k") == "path" and n["res"].get("local") == var:
        return True
    if n.get("k") == "field" and hirq.render(n) == var:
        return True
    return hirq.render(n) == var


def _variant(n, variants):
    n = hirq.strip(n)
    if n.get("k") == "path" and "def" in n["res"]:
        last = n["res"]["def"].split("::")[-1]
        if last in variants:
            return last
    return None


def _pat_set(p, variants):
    k = p.get("k")
    if k == "wild" or k == "bind":
        return set(variants)
    if k == "or":
        out = set()
        for s in p["subs"]:
            out |= _pat_set(s, variants)
        return out
    if k in ("path", "ts", "struct"):
        v = p["res"].get("def", "").split("::")[-1]
        if v in variants:
            return {v}
    raise Opaque("pattern " + hirq.render_pat(p))


def holds(cond, var, variants, v):
    """truth of cond when `var` == variant v"""
    n = hirq.strip(cond)
    k = n.get("k")
    if k == "lit" and "bool" in n["v"]:
        return n["v"]["bool"]
    if k == "un" and n["op"] == "Not":
        return not holds(n["e"], var, variants, v)
    if k == "bin" and n["op"] in ("&&", "||"):
        a, b = holds(n["l"], var, variants, v), holds(n["r"], var, variants, v)
        return (a and b) if n["op"] == "&&" else (a or b)
    if k == "bin" and n["op"] in ("==", "!=", "<", "<=", ">", ">="):
        lv, rv = _variant(n["l"], variants), _variant(n["r"], variants)
        if _is_var(n["l"], var) and rv is not None:
            a, b = variants.index(v), variants.index(rv)
        elif _is_var(n["r"], var) and lv is not None:
            a, b = variants.index(lv), variants.index(v)
        else:
            raise Opaque(hirq.render(n))
        return {"==": a == b, "!=": a != b, "<": a < b, "<=": a <= b, ">": a > b, ">=": a >= b}[n["op"]]
    if k == "match" and _is_var(n["e"], var):
        for arm in n["arms"]:
            if v in _pat_set(arm["pat"], variants):
                if arm.get("guard") is not None:
                    raise Opaque("guarded arm")
                return holds(arm["body"], var, variants, v)
        raise Opaque("no arm")
    if k == "block" and not n.get("stmts") and n.get("e"):
        return holds(n["e"], var, variants, v)
    raise Opaque(hirq.render(n)[:60])


def true_set(cond, var, variants):
    return {v for v in variants if holds(cond, var, variants, v)}
