"""Typestate analysis for tracked stream cursors (writer-side offset bookkeeping).

A *tracking cursor* is a mutable local that is (re)assigned from `W.stream_position()` at least twice in
one function: the code keeps it equal to the end of the data written so far and uses it to compute
offsets / seek targets.  Typestate: Fresh after an assignment, Stale after any write through the same
writer; a read of the cursor while it may be Stale is reported (the offset recorded or the seek target
is behind the data actually written, so the next payload overwrites the previous one).

Forward may-analysis over the MIR CFG (union at joins, fixpoint over loops).  Saved positions for
back-patching (assigned once) are not tracking cursors and are ignored.
"""
import re

from . import mirg
from .mirg import plocal, pproj, op_local
from .rules import ncallee

POS_CALL = re.compile(r"(::stream_position$|Seek::stream_position$)")
NOT_A_WRITE = re.compile(r"(::stream_position$|::seek$|::flush$|::rewind$|::position$|::len$|::by_ref$|::get_ref$|::get_mut$|::borrow_mut$|::deref_mut$|::deref$)")
WRITE_NAME = re.compile(r"(::write_all$|::write$|::write_le$|::write_be$|::write_options$|::write_[uif]\d+(_le|_be)?$|::write_\w+$|::extend_from_slice$|::put_\w+$)")


def _root(du, l, depth=0):
    """follow reborrows/copies back to the local that owns the reference"""
    seen = set()
    while l is not None and l not in seen and depth < 12:
        seen.add(l)
        ds = du.defs.get(l, [])
        if len(ds) != 1 or ds[0][1] != "assign":
            return l
        rv = ds[0][2][2]
        if rv[0] in ("ref", "refmut"):
            l = plocal(rv[1])
        elif rv[0] == "use" and rv[1][0] in ("c", "m"):
            l = plocal(rv[1][1])
        else:
            return l
        depth += 1
    return l


def tracking_cursors(fn):
    """[(cursor_local, name, writer_root_local)] for locals assigned ≥2 times from a value produced by stream_position()"""
    du = mirg.DefUse(fn)
    blocks = fn.mir["blocks"]
    pos_results = {}                      # local holding Result<u64> of stream_position -> writer root
    for b in blocks:
        t = b["t"]
        if t["k"] == "call" and POS_CALL.search(ncallee(t) or "") and t["a"]:
            pos_results[plocal(t["d"])] = _root(du, op_local(t["a"][0]))
    out = []
    for l, (tix, name) in enumerate(fn.mir["locals"]):
        if not name:
            continue
        defs = [p for _bb, k, p in du.defs.get(l, []) if k == "assign" and not pproj(p[1])]
        roots = set()
        n = 0
        for p in defs:
            anc, _calls, _ = du.slice_back(l, depth=0)
            # value assigned: trace this particular rvalue back a few steps to a stream_position result
            stack = [op_local(o) for o in mirg.rvalue_operands(p[2])]
            seen = set()
            hit = None
            while stack:
                x = stack.pop()
                if x is None or x in seen or len(seen) > 12:
                    continue
                seen.add(x)
                if x in pos_results:
                    hit = pos_results[x]
                    break
                for _b2, k2, p2 in du.defs.get(x, []):
                    if k2 == "assign":
                        stack.extend(op_local(o) for o in mirg.rvalue_operands(p2[2]))
                    elif k2 == "call" and re.search(r"Try>::branch$", ncallee(p2) or ""):
                        stack.extend(op_local(a) for a in p2["a"])
            if hit is not None:
                n += 1
                roots.add(hit)
        if n >= 2 and len(roots) == 1:
            out.append((l, name, next(iter(roots))))
    return out


def stale_uses(fn, cursor, writer_root):
    """[(bb, line, what)] reads of `cursor` reachable from a write through `writer_root` with no reassignment in between"""
    du = mirg.DefUse(fn)
    blocks = fn.mir["blocks"]
    n = len(blocks)

    def is_write(t):
        if t["k"] != "call":
            return False
        c = ncallee(t) or ""
        if NOT_A_WRITE.search(c) or not t["a"]:
            return False
        roots = {_root(du, op_local(a)) for a in t["a"] if op_local(a) is not None}
        if writer_root not in roots:
            return False
        # any call handed the writer (other than the position/seek family) may write through it
        return True

    def reads_cursor_stmt(st):
        if st[0] != "=":
            return False
        if plocal(st[1]) == cursor and not pproj(st[1]) and not any(op_local(o) == cursor for o in mirg.rvalue_operands(st[2])):
            return False
        return any(op_local(o) == cursor for o in mirg.rvalue_operands(st[2]))

    def seek_kind(t):
        """None: not a seek on this writer; "cursor": seek to a target computed from the cursor; "other": any other seek (back-patching)"""
        if t["k"] != "call" or not re.search(r"::seek$", ncallee(t) or "") or not t["a"]:
            return None
        if _root(du, op_local(t["a"][0])) != writer_root:
            return None
        for a in t["a"][1:]:
            l = op_local(a)
            if l is None:
                continue
            anc, _c, _i = du.slice_back(l, depth=4)
            if cursor in anc:
                return "cursor"
        return "other"

    # state: (may_be_stale, back_patching) — back_patching is a must-fact (all paths), staleness a may-fact
    state_in = [None] * n
    state_in[0] = (False, False)
    work = [0]
    findings = []
    found_keys = set()
    while work:
        i = work.pop()
        b = blocks[i]
        st_, bp = state_in[i]
        for s in b["s"]:
            if s[0] == "=":
                if st_ and reads_cursor_stmt(s) and (i, s[3]) not in found_keys:
                    found_keys.add((i, s[3]))
                    findings.append((i, s[3], "read in a statement"))
                if plocal(s[1]) == cursor and not pproj(s[1]):
                    st_ = False
        t = b["t"]
        if t["k"] == "call":
            if st_ and any(op_local(a) == cursor for a in t["a"]) and (i, t["ln"]) not in found_keys:
                found_keys.add((i, t["ln"]))
                findings.append((i, t["ln"], "passed to %s" % (ncallee(t) or "?").split("::")[-1]))
            sk = seek_kind(t)
            if sk == "cursor":
                bp = False
            elif sk == "other":
                bp = True
            elif is_write(t) and not bp:
                st_ = True
            if plocal(t["d"]) == cursor and not pproj(t["d"]):
                st_ = False
        for sc in mirg.succs(t):
            if sc is None or sc >= n:
                continue
            old_ = state_in[sc]
            new = (st_, bp) if old_ is None else (old_[0] or st_, old_[1] and bp)
            if new != old_:
                state_in[sc] = new
                work.append(sc)
    return findings
