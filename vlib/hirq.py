"""Queries over the reduced typed HIR tree emitted by the driver."""


def children(n):
    if isinstance(n, dict):
        for k, v in n.items():
            if isinstance(v, (dict, list)):
                yield from _kids(v)
    elif isinstance(n, list):
        yield from _kids(n)


def _kids(v):
    if isinstance(v, dict):
        if "k" in v or "pat" in v or "body" in v:
            yield v
        else:
            for x in v.values():
                if isinstance(x, (dict, list)):
                    yield from _kids(x)
    elif isinstance(v, list):
        for x in v:
            if isinstance(x, (dict, list)):
                yield from _kids(x)


def walk(n, into_closures=True):
    """pre-order over every node (dicts with 'k'); arms (dicts with 'pat'/'body') are traversed"""
    stack = [n]
    while stack:
        x = stack.pop()
        if isinstance(x, dict):
            if "k" in x:
                yield x
                if not into_closures and x["k"] == "closure":
                    continue
            ks = list(children(x))
            stack.extend(reversed(ks))
        elif isinstance(x, list):
            stack.extend(reversed(x))


def find(n, kind, **kw):
    for x in walk(n):
        if x.get("k") == kind and all(x.get(a) == b for a, b in kw.items()):
            yield x


def calls(n):
    """all call / method-call nodes with a resolved callee path"""
    for x in walk(n):
        if x.get("k") in ("call", "mcall") and x.get("fn"):
            yield x


def lit_int(n):
    if n and n.get("k") == "lit":
        return n["v"].get("int")
    if n and n.get("k") == "un" and n.get("op") == "Neg":
        v = lit_int(n["e"])
        return -v if v is not None else None
    if n and n.get("k") == "cast":
        return lit_int(n["e"])
    if n and n.get("k") == "path" and PROGRAM_CONSTS is not None and "def" in (n.get("res") or {}) and str(n["res"].get("dk", "")).startswith(("Const", "AssocConst")):
        # a named integer constant of the workspace is the literal it was given (compiler-evaluated)
        c = PROGRAM_CONSTS.get(n["res"]["def"])
        if isinstance(c, dict):
            c = c.get("v")
        if isinstance(c, int) and not isinstance(c, bool):
            return c
    return None


class ProgramConsts:
    """named integer constants of the analysed program, by definition path (crates are loaded on demand)"""

    def __init__(self, prog):
        self.prog = prog
        self.cache = {}

    def get(self, path, default=None):
        cr = (path or "").split("::")[0]
        if cr not in self.cache:
            tab = {}
            for kind in ("lib", "bin"):
                try:
                    tab.update(self.prog.crate(cr, kind).consts())
                except Exception:
                    pass
            self.cache[cr] = tab
        return self.cache[cr].get(path, default)

    def __bool__(self):
        return True


PROGRAM_CONSTS = None     # set by core.Ctx: the fallback table of const_int() and of the finite-domain evaluators


def const_int(n, consts=None):
    """integer value of a literal, a cast/negation of one, or a path to an integer `const` (consts: path -> fact or value)"""
    n = strip(n) if n else n
    v = lit_int(n)
    if v is not None:
        return v
    if n and n.get("k") == "cast":
        return const_int(n["e"], consts)
    if consts is None:
        consts = PROGRAM_CONSTS
    if n and n.get("k") == "path" and consts is not None and "def" in (n.get("res") or {}):
        c = consts.get(n["res"]["def"])
        if isinstance(c, dict):
            c = c.get("v")
        return c if isinstance(c, int) and not isinstance(c, bool) else None
    return None


def lit_str(n):
    if n and n.get("k") == "lit":
        return n["v"].get("str")
    return None


def path_name(n):
    """local name or last segment of def path"""
    if not n:
        return None
    if n.get("k") == "path":
        r = n["res"]
        if "local" in r:
            return r["local"]
        if "def" in r:
            return r["def"]
    return None


def strip(n):
    """peel refs / derefs / casts-to-same / blocks with only a tail"""
    while n:
        k = n.get("k")
        if k == "ref":
            n = n["e"]
        elif k == "un" and n.get("op") == "Deref":
            n = n["e"]
        elif k == "block" and not n.get("stmts") and n.get("e"):
            n = n["e"]
        else:
            break
    return n


def render(n, depth=0):
    """compact source-like rendering (for reports and syntactic comparison)"""
    if n is None:
        return ""
    if depth > 12:
        return "…"
    k = n.get("k")
    r = lambda x: render(x, depth + 1)
    if k == "tupidx":
        return "%s.%d" % (r(n["e"]), n["i"])
    if k == "lit":
        v = n["v"]
        for key in ("int", "str", "bool", "float", "char", "bytes"):
            if key in v:
                return repr(v[key]) if key in ("str", "bytes", "char") else str(v[key]).lower() if key == "bool" else str(v[key])
        return "lit"
    if k == "path":
        res = n["res"]
        if "local" in res:
            return res["local"]
        return res.get("def", "?").split("::")[-1] if "def" in res else "?"
    if k == "field":
        return "%s.%s" % (r(n["e"]), n["name"])
    if k == "index":
        return "%s[%s]" % (r(n["e"]), r(n["i"]))
    if k == "mcall":
        return "%s.%s(%s)" % (r(n["recv"]), n["m"], ", ".join(r(a) for a in n["args"]))
    if k == "call":
        name = n.get("fn") or n.get("flocal") or (r(n["f"]) if n.get("f") else "?")
        name = "::".join(name.split("::")[-2:])
        return "%s(%s)" % (name, ", ".join(r(a) for a in n["args"]))
    if k == "bin":
        return "(%s %s %s)" % (r(n["l"]), n["op"], r(n["r"]))
    if k == "un":
        op = {"Not": "!", "Neg": "-", "Deref": "*"}.get(n["op"], n["op"])
        return "%s%s" % (op, r(n["e"]))
    if k == "cast":
        return "(%s as _)" % r(n["e"])
    if k == "ref":
        return "&%s%s" % ("mut " if n.get("mut") else "", r(n["e"]))
    if k == "try":
        return "%s?" % r(n["e"])
    if k == "tup":
        return "(%s)" % ", ".join(r(e) for e in n["es"])
    if k == "array":
        return "[%s]" % ", ".join(r(e) for e in n["es"])
    if k == "struct":
        return "%s{%s}" % (n["res"].get("def", "?").split("::")[-1], ", ".join("%s: %s" % (f[0], r(f[1])) for f in n["fields"]))
    if k == "closure":
        return "|..| %s" % r(n["body"])
    if k == "block":
        parts = [r(s) for s in n.get("stmts", [])]
        if n.get("e"):
            parts.append(r(n["e"]))
        return "{ %s }" % "; ".join(parts)
    if k == "if":
        s = "if %s %s" % (r(n["c"]), r(n["then"]))
        if n.get("else"):
            s += " else %s" % r(n["else"])
        return s
    if k == "let":
        return "let %s = %s" % (render_pat(n["pat"]), r(n.get("init")))
    if k == "letx":
        return "let %s = %s" % (render_pat(n["pat"]), r(n["init"]))
    if k == "ret":
        return "return %s" % r(n.get("e"))
    if k == "break":
        return "break"
    if k == "continue":
        return "continue"
    if k == "assign":
        return "%s = %s" % (r(n["l"]), r(n["r"]))
    if k == "assignop":
        return "%s %s= %s" % (r(n["l"]), n["op"], r(n["r"]))
    if k == "match":
        return "match %s {..}" % r(n["e"])
    if k == "for":
        return "for %s in %s {..}" % (render_pat(n["pat"]), r(n["iter"]))
    if k == "loop":
        return "loop {..}"
    if k == "repeat":
        return "[%s; _]" % r(n["e"])
    return k or "?"


def render_pat(p):
    if not p:
        return "_"
    k = p.get("k")
    if k == "bind":
        return p["name"]
    if k == "wild":
        return "_"
    if k in ("ts",):
        return "%s(%s)" % (p["res"].get("def", "?").split("::")[-1], ", ".join(render_pat(s) for s in p["subs"]))
    if k == "path":
        return p["res"].get("def", "?").split("::")[-1]
    if k == "tuple":
        return "(%s)" % ", ".join(render_pat(s) for s in p["subs"])
    if k == "struct":
        return "%s{..}" % p["res"].get("def", "?").split("::")[-1]
    if k == "or":
        return " | ".join(render_pat(s) for s in p["subs"])
    if k == "lit":
        v = p["v"]
        return str(next(iter(v.values())))
    return k or "_"


def pat_ctor(p):
    """def path of the constructor a pattern matches (Err/Ok/Some/None/variant), or None"""
    if not p:
        return None
    if p.get("k") in ("ts", "struct", "path"):
        return p["res"].get("def")
    return None


def pat_binds(p):
    """binding names in source order"""
    out = []

    def rec(x):
        if not isinstance(x, dict):
            return
        if x.get("k") == "bind":
            out.append(x["name"])
            if x.get("sub"):
                rec(x["sub"])
        for s in x.get("subs", []) or []:
            rec(s)
        for f in x.get("fields", []) or []:
            rec(f[1])
        if x.get("k") == "guard":
            rec(x.get("sub"))
    rec(p)
    return out


def is_err_ctor(path):
    return path is not None and path.endswith("result::Result::Err")


def is_ok_ctor(path):
    return path is not None and path.endswith("result::Result::Ok")


def body_of(fn):
    return fn.hir["body"] if fn.hir else None


def subst(n, mapping):
    """copy of the tree with every `path` to a local named in `mapping` replaced by mapping[name] (an expression node)"""
    if isinstance(n, list):
        return [subst(x, mapping) for x in n]
    if not isinstance(n, dict):
        return n
    if n.get("k") == "path" and n.get("res", {}).get("local") in mapping:
        return mapping[n["res"]["local"]]
    return {k: subst(v, mapping) for k, v in n.items()}


def inline_local_calls(fn_body, local_fns, pred, depth=2, skip=None):
    """expressions found (by `pred`) in `fn_body` or, through calls to crate-local helper functions, in a helper's body with
    the helper's parameters replaced by the caller's argument expressions.  yields (node, line_in_caller)"""
    for x in walk(fn_body):
        if pred(x):
            yield x, x.get("ln")
    if depth <= 0:
        return
    for c in calls(fn_body):
        callee = local_fns.get(c.get("fn"))
        if callee is None or not callee.hir or callee.hir["body"] is fn_body or (skip and skip.search(callee.path)):
            continue
        names = [b for p in callee.hir["params"] for b in pat_binds(p)]
        args = list(c.get("args") or [])
        if c.get("k") == "mcall":
            args = [c["recv"]] + args
        if len(names) != len(args):
            continue
        mapping = dict(zip(names, args))
        for node, _ln in inline_local_calls(callee.hir["body"], local_fns, pred, depth - 1, skip):
            yield subst(node, mapping), c.get("ln")


def tails(e):
    """leaf expressions an expression can evaluate to (through blocks, if/else and match arms)"""
    e = strip(e)
    k = e.get("k")
    if k == "block":
        return tails(e["e"]) if e.get("e") is not None else []
    if k == "if":
        return tails(e["then"]) + (tails(e["else"]) if e.get("else") is not None else [])
    if k == "match":
        return [t for a in e["arms"] for t in tails(a["body"])]
    if k == "loop":
        # the value of a `loop` is what its own `break <value>` statements carry (breaks of nested loops excluded)
        out = []
        stack = [e["body"]]
        while stack:
            x = stack.pop()
            if isinstance(x, dict):
                if x.get("k") == "break" and x.get("e") is not None:
                    out += tails(x["e"])
                    continue
                if x.get("k") in ("loop", "closure") or (x.get("k") in ("for", "while")):
                    continue
                stack.extend(v for v in x.values() if isinstance(v, (dict, list)))
            elif isinstance(x, list):
                stack.extend(x)
        return out or [e]
    return [e]


def local_values(body, name):
    """every expression a local is bound / assigned to in `body` (tuple patterns resolved component-wise against tuple
    expressions at the tails of the initialiser); None stands for a value that could not be resolved"""
    out = []
    for l in find(body, "let"):
        if l.get("init") is None:
            continue
        p = l["pat"]
        if p.get("k") == "bind" and p.get("name") == name:
            out += tails(l["init"])
        elif p.get("k") == "tuple":
            for i, s in enumerate(p.get("subs") or []):
                if s.get("k") == "bind" and s.get("name") == name:
                    for t in tails(l["init"]):
                        # a component of a non-literal tuple (e.g. of a call's result) is kept as a projection node
                        out.append(t["es"][i] if t.get("k") == "tup" and i < len(t.get("es") or []) else {"k": "tupidx", "i": i, "e": t, "ln": t.get("ln")})
    # `if let Some(x) = e` / `while let Ok(x) = e`: x is the payload of e's Some(..) / Ok(..) values
    for l in find(body, "letx"):
        p = l["pat"]
        if p.get("k") == "ts" and len(p.get("subs") or []) == 1 and p["subs"][0].get("k") == "bind" and p["subs"][0].get("name") == name and \
                str((p.get("res") or {}).get("def") or "").endswith(("Option::Some", "Result::Ok")):
            seen_ = set()

            def payloads(e_, depth=0):
                res_ = []
                for t in tails(e_):
                    t = strip(t)
                    if t.get("k") == "call" and str(t.get("fn") or "").endswith(("Option::Some", "Result::Ok")) and t.get("args"):
                        res_ += tails(t["args"][0])
                    elif t.get("k") == "path" and "local" in t["res"] and depth < 3 and t["res"]["local"] not in seen_ and t["res"]["local"] != name:
                        seen_.add(t["res"]["local"])
                        for v_ in local_values(body, t["res"]["local"]):
                            if v_ is not None:
                                res_ += payloads(v_, depth + 1)
                return res_
            out += payloads(l["init"])
    for a in find(body, "assign"):
        l_ = strip(a["l"])
        if l_.get("k") == "path" and l_["res"].get("local") == name:
            out += tails(a["r"])
    # `x += e`: e contributes to x's value
    for a in find(body, "assignop"):
        l_ = strip(a["l"])
        if l_.get("k") == "path" and l_["res"].get("local") == name:
            out += tails(a["r"])
    return out


def value_leaves(body, e, depth=4):
    """leaves of the value of `e` with single-level casts / conversions peeled and locals resolved through their bindings"""
    e = strip(e)
    while e.get("k") in ("cast",) or (e.get("k") == "mcall" and e["m"] in ("into", "try_into", "unwrap", "clone", "unwrap_or_default") and not e.get("args")) or \
            (e.get("k") == "call" and (e.get("fn") or "").endswith("::from") and len(e.get("args") or []) == 1) or e.get("k") == "try":
        e = strip(e["e"] if e.get("k") in ("cast", "try") else (e["recv"] if e.get("k") == "mcall" else e["args"][0]))
    if e.get("k") == "path" and "local" in e["res"] and depth > 0:
        vals = local_values(body, e["res"]["local"])
        if vals:
            out = []
            for v in vals:
                out += [None] if v is None else value_leaves(body, v, depth - 1)
            return out
    return [e]
