"""Facts extraction and loading.

Runs the wowfacts driver (rustc_private) over /repo's *current working tree* under
`cargo +nightly check --offline --workspace` and caches the per-crate JSON under
/verif/.cache/facts/<config>-<treehash>/ .  The tree hash covers every tracked and
untracked (non-ignored) file of /repo, so any edit forces re-extraction.
"""
import fcntl
import hashlib
import json
import os
import shutil
import subprocess
import sys
import time

VERIF = os.path.dirname(os.path.dirname(os.path.abspath(__file__)))
REPO = os.environ.get("VERIF_REPO", "/repo")
CACHE = os.path.join(VERIF, ".cache")
DRIVER_DIR = os.path.join(VERIF, "driver")
DRIVER = os.path.join(DRIVER_DIR, "target", "debug", "wowfacts")

MEMBERS = ["wow-mpq", "wow-adt", "wow-wdl", "wow-wdt", "wow-blp", "wow-m2", "wow-wmo",
           "wow-cdbc", "storm-ffi", "warcraft-rs"]
# fact files that must exist after a run (fail closed if one is missing)
REQUIRED = ["wow_mpq.lib", "wow_adt.lib", "wow_wdl.lib", "wow_wdt.lib", "wow_blp.lib", "wow_m2.lib",
            "wow_wmo.lib", "wow_cdbc.lib", "storm.lib", "warcraft_rs.bin", "warcraft_rs.lib"]


class ToolingError(Exception):
    pass


def tree_hash(repo=None):
    repo = repo or REPO
    out = subprocess.run(["git", "-C", repo, "ls-files", "-co", "--exclude-standard", "-z"],
                         capture_output=True, check=True).stdout
    h = hashlib.sha256()
    for name in sorted(out.split(b"\0")):
        if not name:
            continue
        p = os.path.join(repo.encode(), name)
        if name.startswith(b"target/"):
            continue
        # generated on every build with identical content; still hashed (content-stable)
        try:
            with open(p, "rb") as f:
                data = f.read()
        except (FileNotFoundError, IsADirectoryError):
            continue
        h.update(name + b"\0" + hashlib.sha256(data).digest())
    return h.hexdigest()[:20]


def sysroot():
    return subprocess.run(["rustc", "+nightly", "--print", "sysroot"], capture_output=True,
                          text=True, check=True, cwd=DRIVER_DIR).stdout.strip()


def build_driver():
    env = dict(os.environ, CARGO_NET_OFFLINE="true")
    r = subprocess.run(["cargo", "build", "--offline"], cwd=DRIVER_DIR, env=env,
                       capture_output=True, text=True)
    if r.returncode != 0 or not os.path.exists(DRIVER):
        raise ToolingError("driver build failed:\n" + r.stderr[-3000:])


def _driver_stamp():
    h = hashlib.sha256()
    for root, _, files in os.walk(os.path.join(DRIVER_DIR, "src")):
        for f in sorted(files):
            h.update(open(os.path.join(root, f), "rb").read())
    return h.hexdigest()[:10]


def ensure_facts(config="default", repo=None, quiet=False):
    """Returns the directory holding fact files for the current tree; extracts if absent."""
    repo = repo or REPO
    os.makedirs(CACHE, exist_ok=True)
    lock = open(os.path.join(CACHE, "facts.lock"), "w")
    fcntl.flock(lock, fcntl.LOCK_EX)
    try:
        th = tree_hash(repo)
        out = os.path.join(CACHE, "facts", "%s-%s-%s" % (config, th, _driver_stamp()))
        if os.path.exists(os.path.join(out, "DONE")):
            try:
                os.utime(out, None)          # least-recently-used pruning below
            except OSError:
                pass
            return out
        if not os.path.exists(DRIVER) or os.path.getmtime(DRIVER) < max(
                os.path.getmtime(os.path.join(DRIVER_DIR, "src", f))
                for f in os.listdir(os.path.join(DRIVER_DIR, "src"))):
            build_driver()
        # prune older fact dirs of the same config (disk hygiene)
        base = os.path.join(CACHE, "facts")
        os.makedirs(base, exist_ok=True)
        olds = sorted((os.path.getmtime(os.path.join(base, d)), d) for d in os.listdir(base)
                      if d.startswith(config + "-"))
        for _, d in olds[:-6]:
            shutil.rmtree(os.path.join(base, d), ignore_errors=True)
        tmp = out + ".partial"
        shutil.rmtree(tmp, ignore_errors=True)
        os.makedirs(tmp)
        target = os.path.join(CACHE, "target-" + config)
        # cargo's freshness cache would skip the wrapper: drop workspace members' fingerprints
        fp = os.path.join(target, "debug", ".fingerprint")
        if os.path.isdir(fp):
            for d in os.listdir(fp):
                if any(d.startswith(m + "-") for m in MEMBERS):
                    shutil.rmtree(os.path.join(fp, d), ignore_errors=True)
        env = dict(os.environ)
        env.update({
            "LD_LIBRARY_PATH": os.path.join(sysroot(), "lib") + ":" + env.get("LD_LIBRARY_PATH", ""),
            "RUSTFLAGS": "-Zmir-opt-level=0 -Awarnings",
            "RUSTC_WORKSPACE_WRAPPER": DRIVER,
            "WOWFACTS_OUT": tmp,
            "CARGO_TARGET_DIR": target,
            "CARGO_NET_OFFLINE": "true",
            "CARGO_TERM_COLOR": "never",
        })
        env.pop("RUSTC_WRAPPER", None)
        cmd = ["cargo", "+nightly", "check", "--offline", "--workspace"]
        if config == "allfeat":
            cmd.append("--all-features")
        t0 = time.time()
        if not quiet:
            print("[facts] extracting (%s) from %s ..." % (config, repo), file=sys.stderr)
        r = subprocess.run(cmd, cwd=repo, env=env, capture_output=True, text=True)
        if r.returncode != 0:
            raise ToolingError("cargo check failed (repo does not compile under nightly?):\n"
                               + r.stderr[-4000:])
        missing = [m for m in REQUIRED if not os.path.exists(os.path.join(tmp, m + ".json"))]
        if missing:
            raise ToolingError("fact files missing after driver run: %s" % missing)
        # storm-ffi's build.rs rewrites include/StormLib.h (identical content); nothing to undo
        with open(os.path.join(tmp, "DONE"), "w") as f:
            f.write(json.dumps({"tree": th, "config": config, "wall_s": time.time() - t0}))
        shutil.rmtree(out, ignore_errors=True)
        os.rename(tmp, out)
        if not quiet:
            print("[facts] done in %.1fs" % (time.time() - t0), file=sys.stderr)
        return out
    finally:
        fcntl.flock(lock, fcntl.LOCK_UN)
        lock.close()


class Fn:
    __slots__ = ("d", "crate", "path", "kind", "file", "lo", "hi", "mir", "hir", "root", "closures")

    def __init__(self, d, crate):
        self.d = d
        self.crate = crate
        self.path = d["path"]
        self.kind = d["kind"]
        self.file = d["file"]
        self.lo = d["lo"]
        self.hi = d["hi"]
        self.mir = d["mir"]
        self.hir = d.get("hir")
        self.root = d.get("root")
        self.closures = []
        self._resolve_fn_locals()

    def _resolve_fn_locals(self):
        """calls through a local that holds a fn item (`let f = <u8 as BinRead>::read_options; f(r, e, a)` — the shape
        binrw's derives generate) are rewritten to direct calls; the original operand is kept under "fi" """
        blocks = self.mir.get("blocks") if self.mir else None
        if not blocks:
            return
        ind = [b["t"] for b in blocks if b["t"].get("k") == "call" and b["t"]["f"][0] in ("c", "m")]
        if not ind:
            return
        defs = {}
        for b in blocks:
            for st in b["s"]:
                if st[0] == "=":
                    pl = st[1]
                    l = pl if isinstance(pl, int) else (pl[0] if not pl[1] else None)
                    if l is not None:
                        defs.setdefault(l, []).append(st[2])
            t = b["t"]
            if t.get("k") == "call":
                d = t["d"]
                l = d if isinstance(d, int) else d[0]
                defs.setdefault(l, []).append(None)

        def res(l, depth=0):
            ds = defs.get(l)
            if not ds or len(ds) != 1 or ds[0] is None or depth > 6:
                return None
            rv = ds[0]
            if rv[0] != "use":
                return None
            o = rv[1]
            if o[0] == "k" and isinstance(o[1], dict) and o[1].get("fn"):
                return o
            if o[0] in ("c", "m"):
                pl = o[1]
                if isinstance(pl, int) or not pl[1]:
                    return res(pl if isinstance(pl, int) else pl[0], depth + 1)
            return None
        for t in ind:
            pl = t["f"][1]
            if not isinstance(pl, int) and pl[1]:
                continue
            k = res(pl if isinstance(pl, int) else pl[0])
            if k is not None:
                t["fi"] = t["f"]
                t["f"] = k

    def get(self, k, default=None):
        return self.d.get(k, default)

    @property
    def where(self):
        return "%s:%d" % (self.file, self.lo)

    def __repr__(self):
        return "<Fn %s>" % self.path


class Crate:
    def __init__(self, name, kind, data):
        self.name = name
        self.kind = kind
        self.types = data["types"]
        self.items = data["items"]
        self.fns = {}
        self.fn_list = []
        for d in data["fns"]:
            f = Fn(d, self)
            # first definition wins (paths are unique except for pathological cfg duplicates)
            self.fns.setdefault(f.path, f)
            self.fn_list.append(f)
        for f in self.fn_list:
            if f.kind == "Closure" and f.root in self.fns:
                self.fns[f.root].closures.append(f)

    def ty(self, ix):
        if ix is None:
            return None
        return self.types[ix]

    def consts(self):
        out = {c["path"]: c for c in self.items["consts"]}
        for imp in self.items["impls"]:
            for it in imp["items"]:
                if "path" in it:
                    out[it["path"]] = it
        return out


class Program:
    """All fact files of one configuration."""

    def __init__(self, facts_dir):
        self.dir = facts_dir
        self.crates = {}

    def crate(self, name, kind="lib"):
        key = (name, kind)
        if key not in self.crates:
            p = os.path.join(self.dir, "%s.%s.json" % (name, kind))
            if not os.path.exists(p):
                raise ToolingError("fact file missing: " + p)
            raw = open(p, encoding="utf-8").read()
            raw = raw.replace("crate::", name + "::")
            self.crates[key] = Crate(name, kind, json.loads(raw))
        return self.crates[key]

    def all_workspace(self):
        out = []
        for m in REQUIRED:
            n, k = m.split(".")
            out.append(self.crate(n, k))
        return out

    def fn(self, path):
        """Look a function up by canonical path (crate prefix first segment)."""
        name = path.split("::", 1)[0].lstrip("<")
        if path.startswith("<"):
            name = path[1:].split("::", 1)[0]
        for kind in ("lib", "bin"):
            try:
                c = self.crate(name, kind)
            except ToolingError:
                continue
            if path in c.fns:
                return c.fns[path]
        return None


def load(config="default", repo=None):
    return Program(ensure_facts(config, repo))
