"""Reusable rule building blocks over MIR facts."""
import re

from . import mirg
from .mirg import plocal, pproj, op_local, op_const, callee


def norm(path):
    """strip generic argument lists from a def path: Vec::<T, A>::len -> Vec::len"""
    if path is None:
        return None
    out = []
    depth = 0
    i = 0
    while i < len(path):
        ch = path[i]
        if depth == 0 and path.startswith("::<", i):
            depth = 1
            i += 3
            continue
        if depth > 0:
            if ch == "<":
                depth += 1
            elif ch == ">":
                depth -= 1
            i += 1
            continue
        out.append(ch)
        i += 1
    return "".join(out)


def ncallee(term):
    return norm(callee(term))


TRY_BRANCH = "as core::ops::try_trait::Try>::branch"
FROM_RESIDUAL = "::from_residual"


def is_try_branch(term):
    c = callee(term)
    return c is not None and c.endswith(TRY_BRANCH)


def is_from_residual(term):
    c = callee(term)
    return c is not None and c.endswith(FROM_RESIDUAL)


def ret_assignments(fn):
    """[(bb, kind, payload)] for every definition of the return place _0.
    kind: 'ok' | 'err' | 'residual' | 'call' | 'copy' | 'other'"""
    out = []
    for i, b in enumerate(fn.mir["blocks"]):
        if b.get("cl"):
            continue
        for st in b["s"]:
            if st[0] == "=" and plocal(st[1]) == 0 and not pproj(st[1]):
                rv = st[2]
                kind = "other"
                if rv[0] == "agg" and isinstance(rv[1], list) and rv[1][0] == "adt":
                    if rv[1][1].endswith("result::Result"):
                        kind = "ok" if rv[1][2] == "Ok" else "err"
                    elif rv[1][1].endswith("option::Option"):
                        kind = "ok" if rv[1][2] == "Some" else "err"
                    else:
                        kind = "value"
                elif rv[0] == "use":
                    kind = "copy"
                out.append((i, kind, st))
        t = b["t"]
        if t["k"] == "call" and plocal(t["d"]) == 0 and not pproj(t["d"]):
            out.append((i, "residual" if is_from_residual(t) else "call", t))
    return out


def success_exit_blocks(fn):
    """blocks where the function's result is set to something that can be a success value"""
    return [(bb, kind, p) for bb, kind, p in ret_assignments(fn) if kind not in ("err", "residual")]


def flows_to_check(fn, du_fwd, local, depth=6):
    """Does the value in `local` reach a Try::branch / discriminant read / match / return?
    Forward, flow-insensitive over moves and adapter calls (map_err, map, and_then ...)."""
    seen = set()
    stack = [(local, 0)]
    blocks = fn.mir["blocks"]
    while stack:
        l, d = stack.pop()
        if l in seen or d > depth:
            continue
        seen.add(l)
        if l == 0:
            return True
        for b in blocks:
            for st in b["s"]:
                if st[0] != "=":
                    continue
                rv = st[2]
                if rv[0] == "discr" and plocal(rv[1]) == l:
                    return True
                for op in mirg.rvalue_operands(rv):
                    if op_local(op) == l:
                        stack.append((plocal(st[1]), d + 1))
            t = b["t"]
            if t["k"] == "call":
                for a in t["a"]:
                    if op_local(a) == l:
                        if is_try_branch(t):
                            return True
                        c = ncallee(t) or ""
                        # adapters that keep the Result/Option-ness in their output
                        if re.search(r"(Result|Option)::(map_err|map|and_then|or_else|ok|err|context|with_context|as_ref|as_mut|ok_or|ok_or_else|is_ok|is_err|is_some|is_none)$", c) \
                                or c.endswith("::context") or c.endswith("::with_context"):
                            stack.append((plocal(t["d"]), d + 1))
                        elif re.search(r"(Result|Option)::(unwrap|expect|unwrap_or|unwrap_or_else|unwrap_or_default)$", c):
                            return True   # consumed by an explicit decision
            if t["k"] == "switch" and op_local(t["d"]) == l:
                return True
    return False


PASSTHROUGH = re.compile(
    r"(::as_ref|::borrow|::deref|::clone|::to_path_buf|::to_owned|::into|::from|::as_path|::as_str|"
    r"::as_os_str|Path::new|::to_string_lossy|::as_mut|::to_string|::as_ptr)$")


class Derive:
    """Backward derivation of an operand to parameters / fields, classifying the route."""

    def __init__(self, fn, passthrough=PASSTHROUGH, stop=None):
        self.fn = fn
        self.du = mirg.DefUse(fn)
        self.passthrough = passthrough
        self.stop = stop   # regex: calls producing a fresh value; their arguments are not followed

    def roots(self, op, max_depth=20):
        """returns list of (kind, what, direct) where kind in {'param','field','const','call'}
        direct=True if reached only through moves/refs/passthrough calls"""
        out = []
        seen = set()
        argc = self.fn.mir["argc"]

        def visit_place(place, direct, depth):
            l = plocal(place)
            # field projection off self/param
            fields = [p for p in pproj(place) if isinstance(p, int)]
            if 1 <= l <= argc:
                out.append(("param", (l, tuple(fields)), direct))
                return
            visit_local(l, direct, depth)

        def visit_local(l, direct, depth):
            if (l, direct) in seen or depth > max_depth:
                return
            seen.add((l, direct))
            if 1 <= l <= argc:
                out.append(("param", (l, ()), direct))
                return
            for _bb, kind, payload in self.du.defs.get(l, []):
                if kind == "assign":
                    # only whole-local or field assigns matter
                    rv = payload[2]
                    if rv[0] in ("use", "ref", "refmut", "rawptr", "cast"):
                        for op2 in mirg.rvalue_operands(rv):
                            if op2[0] in ("c", "m"):
                                visit_place(op2[1], direct, depth + 1)
                            else:
                                out.append(("const", op2[1], direct))
                    else:
                        for op2 in mirg.rvalue_operands(rv):
                            if op2[0] in ("c", "m"):
                                visit_place(op2[1], False, depth + 1)
                            else:
                                out.append(("const", op2[1], False))
                else:
                    t = payload
                    c = ncallee(t) or ""
                    pt = bool(self.passthrough.search(c))
                    out.append(("call", c, direct))
                    if self.stop is not None and self.stop.search(c):
                        continue
                    for a in t["a"]:
                        if a[0] in ("c", "m"):
                            visit_place(a[1], direct and pt, depth + 1)

        if op[0] in ("c", "m"):
            visit_place(op[1], True, 0)
        else:
            out.append(("const", op[1], True))
        return out


def field_index(crate, adt_path, field):
    for a in crate.items["adts"]:
        if a["path"] == adt_path and a["k"] == "struct":
            for i, f in enumerate(a["fields"]):
                if f["name"] == field:
                    return i
    return None


def field_name(crate, adt_path, idx):
    for a in crate.items["adts"]:
        if a["path"] == adt_path and a["k"] == "struct":
            if idx < len(a["fields"]):
                return a["fields"][idx]["name"]
    return None
