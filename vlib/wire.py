"""E4 — wire-signature abstract interpretation over typed HIR.

For a parsing or serialising function, walks the body in evaluation order and emits an abstract
wire signature: primitives with their byte width (and field identity where resolvable), raw byte
runs, sub-records (by type), repetitions and alternatives.  Conditions of the form
`version ⋈ const` are normalised to a threshold so `>= 260` and `> 259` compare equal.
Reader and writer signatures of one type are then compared structurally.
"""
import re

from . import hirq

PRIM = re.compile(r"^(read|write)_([uif])(8|16|32|64|128)(_le|_be)?$")
BYTEORDER = re.compile(r"byteorder::io::(Read|Write)BytesExt::(read|write)_([uif])(8|16|24|32|48|64|128)$")
INT_W = {"u8": 1, "i8": 1, "u16": 2, "i16": 2, "u32": 4, "i32": 4, "f32": 4, "u64": 8, "i64": 8, "f64": 8, "bool": 1, "u128": 16}


def ty_width(ty):
    if ty is None:
        return None
    ty = ty.strip()
    while ty.startswith("&"):
        ty = ty[1:].replace("mut ", "", 1).strip()
    if ty in INT_W:
        return INT_W[ty]
    m = re.match(r"^\[u8; (\d+)\]$", ty)
    if m:
        return int(m.group(1))
    m = re.match(r"^\[(\w+); (\d+)\]$", ty)
    if m and m.group(1) in INT_W:
        return INT_W[m.group(1)] * int(m.group(2))
    return None


class Tok:
    __slots__ = ("k", "w", "kind", "name", "sub", "arms", "cond", "ln", "count", "lit")

    def __init__(self, k, w=None, kind=None, name=None, sub=None, arms=None, cond=None, ln=None):
        self.k, self.w, self.kind, self.name, self.sub, self.arms, self.cond, self.ln = k, w, kind, name, sub, arms, cond, ln
        self.count = None
        self.lit = None

    def show(self):
        if self.k == "P":
            return "%s%d%s" % (self.kind or "?", (self.w or 0) * 8, (":" + self.name) if self.name else "")
        if self.k == "B":
            return "bytes[%s]" % (self.w if self.w is not None else "var")
        if self.k == "S":
            return "<%s>" % (self.sub or "?").split("::")[-1]
        if self.k == "REP":
            return "rep{%s}" % " ".join(t.show() for t in self.arms[0])
        if self.k == "ALT":
            return "alt(%s){%s}" % (self.cond, " | ".join(" ".join(t.show() for t in a) for a in self.arms))
        return self.k


def norm_cond(n):
    """(kind, payload): version threshold conditions are normalised; everything else is opaque text"""
    n = hirq.strip(n)
    if n.get("k") == "bin" and n["op"] in (">=", ">", "<", "<=", "==", "!="):
        l, r = hirq.strip(n["l"]), hirq.strip(n["r"])
        lr, rr = hirq.render(l), hirq.render(r)
        lv, rv = hirq.lit_int(l), hirq.lit_int(r)
        op = n["op"]
        if lv is not None and rv is None:
            lr, rr, lv, rv = rr, lr, rv, lv
            op = {">=": "<=", ">": "<", "<": ">", "<=": ">=", "==": "==", "!=": "!="}[op]
        if rv is not None and re.search(r"version|ver\b", lr):
            if op == ">":
                op, rv = ">=", rv + 1
            if op == "<=":
                op, rv = "<", rv + 1
            return ("ver", op, rv)
        if rv is None and re.search(r"version", lr) and "def" in (r.get("res") or {}):
            return ("ver", op, r["res"]["def"].split("::")[-1])
    if n.get("k") == "mcall" and re.search(r"version", hirq.render(n["recv"])):
        return ("ver", n["m"], hirq.render(n["args"][0]) if n["args"] else "")
    return ("opaque", re.sub(r"\bself\.|\b(reader|writer|r|w)\b", "", hirq.render(n))[:60])


class Extractor:
    def __init__(self, crate, mode):
        self.crate = crate
        self.mode = mode       # 'r' or 'w'
        self.has_seek = False
        self.unknown_calls = []
        self.field_of_local = {}
        self.all = []

    def ty(self, n):
        return self.crate.ty(n.get("t")) if n and n.get("t") is not None else None

    def classify(self, n):
        """token(s) for a call / method call node itself (arguments were emitted already)"""
        k = n.get("k")
        name = n.get("m") if k == "mcall" else (n.get("fn") or "").split("::")[-1]
        fn = n.get("fn") or ""
        m = PRIM.match(name or "")
        if m and m.group(1) == ("read" if self.mode == "r" else "write"):
            w = int(m.group(3)) // 8
            fld = None
            lit = None
            if self.mode == "w" and n.get("args"):
                fld = self.field_name(n["args"][-1] if k == "mcall" else n["args"][-1])
                la = hirq.strip(n["args"][-1])
                if la.get("k") == "lit":
                    lit = hirq.render(la)
            t = Tok("P", w=w, kind={"u": "u", "i": "i", "f": "f"}[m.group(2)], name=fld, ln=n["ln"])
            t.lit = lit
            return [t]
        b = BYTEORDER.search(fn)
        if b and b.group(2) == ("read" if self.mode == "r" else "write"):
            w = int(b.group(4)) // 8
            fld = self.field_name(n["args"][-1]) if self.mode == "w" and n.get("args") else None
            return [Tok("P", w=w, kind=b.group(3), name=fld, ln=n["ln"])]
        if name in ("read_exact", "read_into") and self.mode == "r" and n.get("args") and (re.search(r"(std::io::Read|io::Read|std::io::impls|std::io::cursor|std::fs::File|BufReader|ByteReader)", fn) or not fn):
            a = n["args"][0] if k == "mcall" else n["args"][-1]
            w = ty_width(self.ty(hirq.strip(a)) or "")
            return [Tok("B", w=w, ln=n["ln"])]
        if name in ("write_all", "write") and self.mode == "w" and n.get("args") and re.search(r"(std::io::Write|io::Write|std::io::impls|std::io::cursor|std::fs::File|BufWriter)", fn):
            a = hirq.strip(n["args"][0] if k == "mcall" else n["args"][-1])
            # write_all(&x.to_le_bytes())
            if a.get("k") == "mcall" and a["m"] in ("to_le_bytes", "to_be_bytes", "to_ne_bytes"):
                t = self.ty(hirq.strip(a["recv"])) or ""
                w = ty_width(t)
                kind = "f" if t.startswith("f") else ("i" if t.startswith("i") else "u")
                return [Tok("P", w=w, kind=kind, name=self.field_name(a["recv"]), ln=n["ln"])]
            w = ty_width(self.ty(a) or "")
            return [Tok("B", w=w, name=self.field_name(a), ln=n["ln"])]
        if name in ("read_to_end", "read_to_string") and self.mode == "r":
            return [Tok("B", w=None, ln=n["ln"])]
        if name in ("seek", "seek_relative", "set_position", "stream_position", "rewind"):
            if name != "stream_position":
                self.has_seek = True
                # relative skips are wire-relevant
                if n.get("args"):
                    r = hirq.render(n["args"][0])
                    mm = re.search(r"Current\((-?\d+)\)", r.replace(" ", ""))
                    if mm:
                        return [Tok("SKIP", w=int(mm.group(1)), ln=n["ln"])]
                    # a constant expression (`4 + 24`, `2 * 4`): evaluated
                    mm = re.search(r"Current\((.*)\)$", r)
                    if mm and re.fullmatch(r"[\d\s+*()-]+", mm.group(1)) and mm.group(1).count("(") == mm.group(1).count(")"):
                        try:
                            return [Tok("SKIP", w=int(eval(mm.group(1), {"__builtins__": {}})), ln=n["ln"])]
                        except Exception:
                            pass
            return []
        if name in ("read_u8", "write_u8") and False:
            return []
        # sub-record: local function taking the stream
        if fn.split("::")[0] in (self.crate.name,) or fn.startswith("<" + self.crate.name):
            last = fn.split("::")[-1]
            if (self.mode == "r" and re.match(r"^(parse|read|from_reader|parse_\w+|read_\w+|from_bytes)$", last)) or \
                    (self.mode == "w" and re.match(r"^(write|write_\w+|to_writer|serialize)$", last)):
                # a primitive helper (`fn read_u32_field(r) { read_exact(&mut [0; 4]); from_le_bytes }`): a straight run of at most
                # four fixed-width primitives stands for itself
                cf = self.crate.fns.get(fn)
                if cf is not None and cf.hir and cf.kind == "Fn" and getattr(self, "_depth", 0) < 2:
                    sub_ex = Extractor(self.crate, self.mode)
                    sub_ex._depth = getattr(self, "_depth", 0) + 1
                    try:
                        st = sub_ex.emit(cf.hir["body"])
                    except Exception:
                        st = None
                    if st and len(st) <= 4 and all(t_.k in ("P", "B") and t_.w for t_ in st) and not sub_ex.has_seek:
                        for t_ in st:
                            t_.ln = n["ln"]
                            t_.name = None
                        return st
                owner = self.owner_type(n, fn)
                t = Tok("S", sub=owner, ln=n["ln"])
                t.kind = fn     # callee path (for inlining delegations)
                if self.mode == "w" and n.get("k") == "mcall":
                    t.name = self.field_name(n["recv"])
                return [t]
        return []

    def owner_type(self, n, fn):
        from .rules import norm
        fn = norm(fn)
        if fn.startswith("<"):
            m = re.match(r"^<(.+?) as ", fn)
            if m:
                return m.group(1)
        parts = fn.split("::")
        if len(parts) >= 2 and parts[-2][:1].isupper():
            return "::".join(parts[:-1])
        # free function: use the rendered name
        return fn

    def field_name(self, a):
        a = hirq.strip(a)
        hops = 0
        while a is not None and hops < 6:
            hops += 1
            k = a.get("k")
            if k == "field":
                return a["name"]
            if k == "cast" or k == "try":
                a = hirq.strip(a["e"])
            elif k == "mcall" and a["m"] in ("bits", "unwrap_or", "unwrap_or_default", "to_bits", "into", "clone", "len", "as_u32", "to_le_bytes", "get", "raw", "value", "to_raw", "as_raw"):
                a = hirq.strip(a["recv"])
            elif k == "call" and a.get("args") and len(a["args"]) == 1:
                a = hirq.strip(a["args"][0])
            elif k == "path" and "local" in a["res"]:
                return self.field_of_local.get(a["res"]["local"], a["res"]["local"])
            elif k == "index":
                inner = hirq.strip(a["e"])
                return (self.field_name(inner) or "?") + "[]"
            else:
                return None
        return None

    def emit(self, n):
        if n is None:
            return []
        if isinstance(n, list):
            out = []
            for x in n:
                out += self.emit(x)
            return out
        k = n.get("k")
        if k is None:
            return []
        if k == "block":
            out = []
            for s in n.get("stmts", []):
                out += self.emit(s)
            if n.get("e") is not None:
                out += self.emit(n["e"])
            return out
        if k == "let":
            toks = self.emit(n.get("init")) if n.get("init") is not None else []
            # name the value read: `let NAME = reader.read_u32_le()?;`
            if self.mode == "r" and n["pat"].get("k") == "bind":
                prims = [t for t in toks if t.k in ("P", "B", "S")]
                if len(prims) == 1 and prims[0].name is None:
                    prims[0].name = n["pat"]["name"]
                elif not prims and n.get("init") is not None and re.search(r"from_(le|be|ne)_bytes", hirq.render(n["init"])):
                    # `read_exact(&mut buf)?; let NAME = u32::from_le_bytes(buf);`
                    for t in reversed(self.all):
                        if t.k == "B":
                            if t.name is None:
                                t.name = n["pat"]["name"]
                            break
            if n.get("els") is not None:
                toks += self.emit(n["els"])
            return toks
        if k in ("call", "mcall"):
            out = []
            if k == "mcall":
                out += self.emit(n["recv"])
            elif n.get("f") is not None:
                out += self.emit(n["f"])
            closure_args = []
            for a in n["args"]:
                if hirq.strip(a).get("k") == "closure":
                    closure_args.append(hirq.strip(a))
                else:
                    out += self.emit(a)
            own = self.classify(n)
            self.all += own
            out += own
            for c in closure_args:
                body = self.emit(c["body"])
                if body:
                    name = n.get("m") or ""
                    if name in ("map", "for_each", "try_for_each", "filter_map", "flat_map", "map_while", "take_while", "fold", "try_fold", "retain"):
                        out.append(Tok("REP", arms=[body], cond="iter", ln=n["ln"]))
                    elif name in ("map_err", "ok_or_else", "unwrap_or_else", "with_context", "or_else", "inspect_err", "context"):
                        pass
                    else:
                        out += body
            return out
        if k == "if":
            out = self.emit(n["c"])
            t = self.emit(n["then"])
            e = self.emit(n.get("else")) if n.get("else") is not None else []
            if t or e:
                # `a && b && c` (incl. let-chains) == nested ifs: one ALT per conjunct
                conj = []

                def split(c):
                    c = hirq.strip(c)
                    if c.get("k") == "bin" and c["op"] == "&&":
                        split(c["l"])
                        split(c["r"])
                    else:
                        conj.append(c)
                split(n["c"])
                tok = None
                inner = t
                for c in reversed(conj):
                    tok = Tok("ALT", cond=norm_cond(c), arms=[inner, list(e)], ln=n["ln"])
                    inner = [tok]
                out.append(tok)
            return out
        if k == "match":
            out = self.emit(n["e"])
            arms = [self.emit(a["body"]) for a in n["arms"]]
            if any(arms):
                nonempty = [a for a in arms if a]
                if len(nonempty) == 1 and len(arms) <= 2 and any(hirq.pat_ctor(a["pat"]) and re.search(r"(Some|Ok)$", hirq.pat_ctor(a["pat"])) for a in n["arms"]):
                    # `if let Some(x) = ..` / match on Option: presence-conditional
                    out.append(Tok("ALT", cond=("opaque", "present:" + re.sub(r"\bself\.", "", hirq.render(n["e"]))[:40]), arms=[nonempty[0], []], ln=n["ln"]))
                else:
                    t_ = Tok("ALT", cond=("match", re.sub(r"\bself\.", "", hirq.render(n["e"]))[:40]), arms=arms, ln=n["ln"])
                    t_.name = [(hirq.pat_ctor(a["pat"]) or hirq.render_pat(a["pat"])).split("::")[-1] for a in n["arms"]]
                    out.append(t_)
            return out
        if k == "for":
            out = self.emit(n["iter"])
            body = self.emit(n["body"])
            if body:
                t = Tok("REP", arms=[body], cond=hirq.render(n["iter"])[:40], ln=n["ln"])
                # constant trip count: `0..N`, or iteration over a fixed-size array
                it = hirq.strip(n["iter"])
                rr = hirq.render(it).replace(" ", "")
                m = re.match(r"^\(?0\.\.(\d+)\)?$", rr)
                if m:
                    t.count = int(m.group(1))
                elif it.get("k") == "struct" and it["res"].get("def", "").endswith("ops::range::Range") and len(it["fields"]) == 2 \
                        and hirq.lit_int(it["fields"][0][1]) == 0 and hirq.lit_int(it["fields"][1][1]) is not None:
                    t.count = hirq.lit_int(it["fields"][1][1])
                else:
                    base = it
                    while base is not None and base.get("k") == "mcall" and base["m"] in ("iter", "iter_mut", "into_iter", "enumerate", "copied", "cloned"):
                        base = hirq.strip(base["recv"])
                    ity = (self.ty(base) or "") if base is not None else ""
                    m2 = re.search(r"\[[^;\]]+; (\d+)\]$", ity.strip())
                    if m2:
                        t.count = int(m2.group(1))
                out.append(t)
            return out
        if k == "loop":
            body = self.emit(n["body"])
            body = unwrap_guard(body)
            return [Tok("REP", arms=[body], cond="loop", ln=n["ln"])] if body else []
        if k == "closure":
            return self.emit(n["body"])
        if k == "struct":
            out = []
            for fname, fexpr in n["fields"]:
                toks = self.emit(fexpr)
                prims = [t for t in toks if t.k in ("P", "B", "S")]
                if self.mode == "r":
                    if len(prims) == 1 and prims[0].name is None:
                        prims[0].name = fname
                    fe = hirq.strip(fexpr)
                    if fe.get("k") == "path" and "local" in fe["res"]:
                        self.field_of_local[fe["res"]["local"]] = fname
                out += toks
            if n.get("base") is not None:
                out += self.emit(n["base"])
            return out
        if k == "assign" and self.mode == "r":
            # `header.FIELD = Some(reader.read_u64()?)`: the value read fills that field
            toks = self.emit(n["r"])
            l = hirq.strip(n["l"])
            prims = [t for t in toks if t.k in ("P", "B", "S")]
            if l.get("k") == "field" and len(prims) == 1 and prims[0].name is None:
                prims[0].name = l["name"]
            return self.emit(n["l"]) + toks
        out = []
        for key in ("e", "l", "r", "i", "init", "c", "es"):
            v = n.get(key)
            if isinstance(v, dict):
                out += self.emit(v)
            elif isinstance(v, list):
                for x in v:
                    out += self.emit(x)
        return out


def unwrap_guard(body):
    """`while cond { X }` desugars to loop { if cond { X } else { break } }: drop the guard"""
    if len(body) == 1 and body[0].k == "ALT" and body[0].cond[0] == "opaque" and len(body[0].arms) == 2 and (not body[0].arms[1] or not body[0].arms[0]):
        return body[0].arms[0] or body[0].arms[1]
    return body


def extract(crate, fn, mode):
    ex = Extractor(crate, mode)
    toks = ex.emit(fn.hir["body"])
    # resolve reader names through struct-literal field mapping
    if mode == "r":
        def fix(ts):
            for t in ts:
                if t.k in ("P", "B", "S") and t.name in ex.field_of_local:
                    t.name = ex.field_of_local[t.name]
                if t.arms:
                    for a in t.arms:
                        fix(a)
        fix(toks)
    return toks, ex


def flat(toks):
    return " ".join(t.show() for t in toks)


def strip_names(s):
    return re.sub(r":[\w\[\]]+", "", s)


def compare(rt, wt, path="", fields=None):
    """structural comparison; returns list of (where, message)"""
    diffs = []
    i = j = 0
    while i < len(rt) and j < len(wt):
        a, b = rt[i], wt[j]
        if a.k != b.k and {a.k, b.k} == {"B", "P"} and a.w is not None and a.w == b.w:
            # read_exact(&mut [u8; N]) + from_le_bytes on one side, a typed primitive of the same width on the other
            if a.name and b.name and fields is not None and norm_name(a.name) != norm_name(b.name) and norm_name(a.name) in fields and norm_name(b.name) in fields:
                diffs.append((path + "[%d]" % i, "field order: reader fills `%s` (line %s) where writer emits `%s` (line %s)" % (a.name, a.ln, b.name, b.ln)))
            i += 1
            j += 1
            continue
        if {a.k, b.k} == {"B", "REP"}:
            bt, rp = (a, b) if a.k == "B" else (b, a)
            if bt.w is None and rp.count is None and all(t.k in ("B", "P") and (t.k == "B" or t.w == 1) for t in rp.arms[0]):
                # a variable byte run on one side, a loop emitting strings/bytes on the other (string tables)
                i += 1
                j += 1
                continue
        if a.k == "SKIP" and a.w and b.k in ("P", "B") and b.w is not None and b.w < a.w:
            # a reader-side skip of n bytes absorbs the writer tokens that fill those n bytes
            tot, jj = 0, j
            while jj < len(wt) and wt[jj].k in ("P", "B") and wt[jj].w is not None and tot < a.w:
                tot += wt[jj].w
                jj += 1
            if tot == a.w:
                i += 1
                j = jj
                continue
        if a.k != b.k:
            # SKIP(n) on one side may pair with B(n)/P* padding on the other
            if a.k == "SKIP" and b.k in ("B", "P") and (b.w == a.w):
                i += 1
                j += 1
                continue
            if b.k == "SKIP" and a.k in ("B", "P") and (a.w == b.w):
                i += 1
                j += 1
                continue
            diffs.append((path + "[%d]" % i, "reader has %s (line %s) where writer has %s (line %s)" % (a.show(), a.ln, b.show(), b.ln)))
            return diffs
        if a.k == "P":
            if a.w != b.w:
                diffs.append((path + "[%d]" % i, "width mismatch: reader %s (line %s) vs writer %s (line %s)" % (a.show(), a.ln, b.show(), b.ln)))
                return diffs
            if a.kind != b.kind and "f" in (a.kind, b.kind):
                diffs.append((path + "[%d]" % i, "int/float mismatch: reader %s (line %s) vs writer %s (line %s)" % (a.show(), a.ln, b.show(), b.ln)))
            if a.name and b.name and norm_name(a.name) != norm_name(b.name) and fields is not None and norm_name(a.name) in fields and norm_name(b.name) in fields:
                diffs.append((path + "[%d]" % i, "field order: reader fills `%s` (line %s) where writer emits `%s` (line %s)" % (a.name, a.ln, b.name, b.ln)))
        elif a.k == "B":
            if a.w is not None and b.w is not None and a.w != b.w:
                diffs.append((path + "[%d]" % i, "byte-run length: reader %s vs writer %s (lines %s/%s)" % (a.w, b.w, a.ln, b.ln)))
        elif a.k == "S":
            if norm_ty(a.sub) != norm_ty(b.sub):
                diffs.append((path + "[%d]" % i, "sub-record type: reader parses %s (line %s), writer writes %s (line %s)" % (a.sub, a.ln, b.sub, b.ln)))
        elif a.k == "REP":
            diffs += compare(a.arms[0], b.arms[0], path + "[%d].rep" % i, fields)
        elif a.k == "ALT":
            ca, cb = a.cond, b.cond
            if ca[0] == "ver" and cb[0] == "ver":
                if ca != cb:
                    # maybe negated with swapped arms
                    if neg(ca) == cb:
                        diffs += compare(a.arms[0], b.arms[1], path + "[%d].alt" % i, fields)
                        diffs += compare(a.arms[1], b.arms[0], path + "[%d].alt" % i, fields)
                    else:
                        diffs.append((path + "[%d]" % i, "version condition differs: reader %s (line %s) vs writer %s (line %s)" % (ca[1:], a.ln, cb[1:], b.ln)))
                else:
                    for x, (ra, wa) in enumerate(zip(a.arms, b.arms)):
                        diffs += compare(ra, wa, path + "[%d].alt%d" % (i, x), fields)
            else:
                # opaque: match arms as an unordered set by their name-free rendering
                ra = sorted(strip_names(flat(x)) for x in a.arms)
                wa = sorted(strip_names(flat(x)) for x in b.arms)
                if ra != wa:
                    diffs.append((path + "[%d]" % i, "alternative arms differ: reader {%s} (line %s) vs writer {%s} (line %s)" % (" | ".join(ra), a.ln, " | ".join(wa), b.ln)))
        i += 1
        j += 1
    if i < len(rt) or j < len(wt):
        rest_r = [t for t in rt[i:]]
        rest_w = [t for t in wt[j:]]
        diffs.append((path + "[tail]", "reader continues with `%s`, writer with `%s`" % (flat(rest_r)[:120], flat(rest_w)[:120])))
    return diffs


def neg(c):
    op = {">=": "<", "<": ">=", "==": "!=", "!=": "=="}.get(c[1])
    return ("ver", op, c[2]) if op else None


def norm_name(n):
    return re.sub(r"^_+|_+$", "", n.replace("[]", ""))


def norm_ty(t):
    if t is None:
        return None
    t = re.sub(r"<.*>", "", t)
    return t.split("::")[-1]


# ---- version-domain evaluation ---------------------------------------------------------------
def version_atoms(toks, out=None):
    out = out if out is not None else set()
    for t in toks:
        if t.k == "ALT" and t.cond[0] == "ver":
            out.add(t.cond)
        if t.arms:
            for a in t.arms:
                version_atoms(a, out)
    return out


def assignments(atoms):
    """finite set of truth assignments for version atoms: numeric thresholds are evaluated on a sampled
    version domain (every threshold and its predecessor); symbolic ones (enum constants) vary freely"""
    nums = sorted({a[2] for a in atoms if isinstance(a[2], int)})
    domain = sorted(set([0] + [k - 1 for k in nums] + nums + [k + 1 for k in nums])) or [0]
    syms = sorted({a for a in atoms if not isinstance(a[2], int)})
    out = []
    import itertools
    for v in domain:
        for bits in itertools.product([False, True], repeat=min(len(syms), 6)):
            asg = {}
            for a in atoms:
                if isinstance(a[2], int):
                    asg[a] = {">=": v >= a[2], "<": v < a[2], "==": v == a[2], "!=": v != a[2]}.get(a[1], None)
            for sa, b in zip(syms, bits):
                asg[sa] = b
            out.append((v, asg))
    # dedupe by truth vector
    seen = set()
    res = []
    for v, asg in out:
        key = tuple(sorted((str(k), val) for k, val in asg.items()))
        if key not in seen:
            seen.add(key)
            res.append((v, asg))
    return res


def specialise(toks, asg):
    out = []
    for t in toks:
        if t.k == "ALT" and t.cond[0] == "ver" and asg.get(t.cond) is not None:
            arm = t.arms[0] if asg[t.cond] else (t.arms[1] if len(t.arms) > 1 else [])
            out += specialise(arm, asg)
        elif t.k == "ALT":
            arms = [specialise(a, asg) for a in t.arms]
            rend = [strip_names(flat(a)) for a in arms]
            if len(set(rend)) == 1:
                # all arms put the same bytes on the wire (e.g. `if let Some(x) {x.write()} else {Default.write()}`);
                # where the arms name different fields for one slot (union-like layouts) the slot keeps no name
                merged = list(arms[0])
                for other in arms[1:]:
                    for x, y in zip(merged, other):
                        if x.k in ("P", "B") and y.k in ("P", "B") and x.name != y.name:
                            x.name = None
                out += merged
            else:
                nt = Tok("ALT", cond=t.cond, arms=arms, ln=t.ln)
                out.append(nt)
        elif t.k == "REP":
            body = specialise(t.arms[0], asg)
            if body:
                if t.count is not None and t.count <= 32:
                    for _ in range(t.count):
                        out += body          # constant trip count: unrolled (matches hand-unrolled code on the other side)
                else:
                    nt = Tok("REP", arms=[body], cond=t.cond, ln=t.ln)
                    nt.count = t.count
                    out.append(nt)
        else:
            out.append(t)
    return out


def compare_all_versions(rt, wt, fields=None):
    atoms = version_atoms(rt) | version_atoms(wt)
    results = []
    for v, asg in assignments(atoms):
        d = compare(specialise(rt, asg), specialise(wt, asg), fields=fields)
        if d:
            results.append((v, {str(k[1:]): b for k, b in asg.items()}, d))
    return results, len(assignments(atoms))


def check_pair(ctx, rid, crate, rfn, wfn, label, fields=None, allow_seek=False):
    """arm one reader/writer pair; returns True if armed"""
    rt, rx = extract(crate, rfn, "r")
    wt, wx = extract(crate, wfn, "w")
    ctx.saw_fn(rfn)
    ctx.saw_fn(wfn)
    if (rx.has_seek or wx.has_seek) and not allow_seek:
        ctx.note_unarmed(rid, label, "seek-driven layout (offsets followed on read / back-patched on write): not a linear wire signature")
        return False
    if not rt and not wt:
        ctx.note_unarmed(rid, label, "no wire primitives recognised on either side")
        return False
    # pure dispatch wrappers (parse() forwarding to a parser of another type) carry no layout of their own
    if len(rt) == 1 and rt[0].k == "S" and not (len(wt) == 1 and wt[0].k == "S"):
        ctx.note_unarmed(rid, label, "reader is a dispatch wrapper around %s" % rt[0].sub)
        return False
    res, nasg = compare_all_versions(rt, wt, fields)
    if not res:
        ctx.ok(rid, {"type": label, "versions_evaluated": nasg, "signature": strip_names(flat(specialise(wt, {})))[:200]})
        return True
    v, asg, diffs = res[0]
    where, msg = diffs[0]
    # a writer that emits a field only when an Option is present, against an unconditional reader: cannot be decided structurally
    if "alt(('opaque'" in msg and ("present:" in msg or "let Some" in msg) and "where writer has alt" in msg:
        ctx.note_unarmed(rid, label, "writer emits a field conditionally on Option presence; reader unconditional — needs an invariant outside this rule: " + msg[:160])
        return False
    ctx.bad(rid, "%s|wire" % label, "%s:%d / %s:%d" % (rfn.file, rfn.lo, wfn.file, wfn.lo),
            "at %s (version sample %s, %s): %s" % (where, v, asg, msg),
            "bytes written for this record are not what the parser reads back: write→parse does not round-trip")
    return True
