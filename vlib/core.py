"""Shared check harness: rule results, violations, known findings, evidence."""
import json
import os
import sys
import time
from . import hirq

from . import facts

VERIF = facts.VERIF
EVID = os.environ.get("VERIF_EVIDENCE") or os.path.join(VERIF, "evidence")   # (scratch runs of bin/mutest write elsewhere)
KNOWN = os.path.join(VERIF, "known_findings.json")


class Violation:
    def __init__(self, rule, key, where, found, why, extra=None):
        self.rule = rule          # e.g. "C08.insert-position-strict"
        self.key = key            # stable key without line numbers
        self.where = where        # file:line for the reader
        self.found = found
        self.why = why
        self.extra = extra or {}

    def as_dict(self):
        return {"rule": self.rule, "key": self.key, "where": self.where, "found": self.found,
                "why": self.why, "extra": self.extra}


class Ctx:
    """Collects obligations for one property run."""

    def __init__(self, pid, tier, prog, prog_all=None):
        self.pid = pid
        self.tier = tier
        self.prog = prog
        self.prog_all = prog_all
        hirq.PROGRAM_CONSTS = hirq.ProgramConsts(prog)
        self.rules = {}        # rule -> {"desc":..., "obligations":n, "discharged":n, "floor":n}
        self.violations = []
        self.samples = []
        self.unarmed = []
        self.analysed_fns = set()
        self.call_sites = 0
        self.t0 = time.time()

    def rule(self, rid, desc, floor=1):
        self.rules.setdefault(rid, {"desc": desc, "obligations": 0, "discharged": 0, "floor": floor})
        return rid

    def ok(self, rid, instance, detail=None):
        r = self.rules[rid]
        r["obligations"] += 1
        r["discharged"] += 1
        if len(self.samples) < 400:
            self.samples.append({"rule": rid, "instance": instance, "verdict": "holds", "detail": detail})

    def bad(self, rid, key, where, found, why, extra=None):
        r = self.rules[rid]
        r["obligations"] += 1
        self.violations.append(Violation(rid, key, where, found, why, extra))

    def note_unarmed(self, rid, instance, reason):
        self.unarmed.append({"rule": rid, "instance": instance, "reason": reason})

    def saw_fn(self, fn):
        self.analysed_fns.add(fn.path if hasattr(fn, "path") else fn)

    def finish_floors(self):
        """A rule that matched fewer instances than its floor fails closed: the mechanism is missing."""
        for rid, r in self.rules.items():
            if r["obligations"] < r["floor"]:
                self.violations.append(Violation(
                    rid, "%s|floor" % rid, "-",
                    "matched %d instance(s), floor is %d" % (r["obligations"], r["floor"]),
                    "mechanism not found: the code this rule inspects is gone or no longer recognisable; "
                    "a rule that matches nothing must not pass silently"))
                r["obligations"] += 1


def load_known():
    if not os.path.exists(KNOWN):
        return {"findings": [], "fixed": []}
    return json.load(open(KNOWN))


def finish(ctx, level="other", technique="", assumptions=None, explanation=""):
    ctx.finish_floors()
    known = load_known()
    known_keys = {}
    for f in known.get("findings", []):
        if f["property"] == ctx.pid:
            known_keys[f["key"]] = f
    hit_known = []
    new = []
    # ordinal among equal keys: one more instance of a listed key than listed is a new violation
    seen = {}
    for v in ctx.violations:
        n = seen.get(v.key, 0)
        seen[v.key] = n + 1
        kf = known_keys.get(v.key)
        if kf is not None and n < kf.get("count", 1):
            hit_known.append((v, kf))
        else:
            new.append(v)
    os.makedirs(os.path.join(EVID, "violations"), exist_ok=True)
    printed = set()
    for v, kf in hit_known:
        if v.key in printed:
            continue
        printed.add(v.key)
        n = sum(1 for x, _ in hit_known if x.key == v.key)
        print("KNOWN-FINDING: property=%s %s%s — %s" % (ctx.pid, v.key, (" (x%d)" % n) if n > 1 else "", kf.get("what", v.found)))
    rc = 0
    for i, v in enumerate(new):
        rp = os.path.join("evidence", "violations", "%s-%04d.json" % (ctx.pid, i + 1))
        with open(os.path.join(VERIF, rp), "w") as f:
            json.dump(dict(v.as_dict(), property=ctx.pid), f, indent=1)
        print("VIOLATION property=%s replay=%s" % (ctx.pid, rp))
        print("  rule   %s  (%s)" % (v.rule, ctx.rules.get(v.rule, {}).get("desc", "")))
        print("  where  %s" % v.where)
        print("  key    %s" % v.key)
        print("  found  %s" % v.found)
        print("  why    %s" % v.why)
        rc = 1
    obligations = sum(r["obligations"] for r in ctx.rules.values())
    discharged = sum(r["discharged"] for r in ctx.rules.values())
    wall = time.time() - ctx.t0
    distinct = len({(s["rule"], json.dumps(s["instance"], sort_keys=True, default=str)) for s in ctx.samples})
    ev = {
        "property_id": ctx.pid,
        "tier": ctx.tier,
        "seed": int(os.environ.get("VERIF_SEED", "0") or 0),
        "level": level,
        "coverage": {
            "explanation": explanation,
            "technique": technique,
            "evaluations": max(obligations, 1),
            "distinct_nontrivial": max(distinct, 0),
            "rule": "each evaluation is one rule instance (obligation) derived from /repo's resolved program; "
                    "distinct = distinct (rule, instance) pairs that were discharged",
            "obligations": obligations,
            "discharged": discharged,
            "known_findings_hit": [v.key for v, _ in hit_known],
            "checker_cmd": "python3 bin/check %s --tier %s" % (ctx.pid, ctx.tier),
            "trusted_base": ["rustc front end, MIR construction and constant evaluator (nightly)",
                             "cargo unit graph (check --workspace)", "wowfacts driver + Python rule code"],
            "rules": ctx.rules,
            "functions_analysed": len(ctx.analysed_fns),
            "call_sites_analysed": ctx.call_sites,
            "unarmed": ctx.unarmed[:100],
            "samples": ctx.samples[:60] or [{"note": "no discharged instance"}],
            "facts_dir": os.path.basename(ctx.prog.dir) if ctx.prog else None,
            "exhaustive": False,
            **({"selftest": ctx.selftest} if getattr(ctx, "selftest", None) else {}),
        },
        "assumptions": assumptions or [],
        "wall_s": round(wall, 3),
        "violations": len(new),
    }
    os.makedirs(EVID, exist_ok=True)
    with open(os.path.join(EVID, "%s.json" % ctx.pid), "w") as f:
        json.dump(ev, f, indent=1, default=str)
    if getattr(ctx, "selftest", None):
        sm = ctx.selftest["summary"]
        print("[%s] selftest: seeded changes reported %d/%d, reverted repairs reported %d/%d, benign batches silent %d/%d" % (
            ctx.pid, sm["seeded_reported"], sm["seeded_total_applicable"], sm["reverts_reported"], sm["reverts_total_applicable"],
            sm["benign_silent"], sm["benign_total_applicable"]))
    print("[%s] tier=%s rules=%d obligations=%d discharged=%d known=%d new_violations=%d wall=%.1fs" % (
        ctx.pid, ctx.tier, len(ctx.rules), obligations, discharged, len(hit_known), len(new), wall))
    return rc
