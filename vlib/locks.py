"""E7 — lock analysis over MIR: which global mutexes are held at each call, lock-order graph,
re-acquisition (std Mutex is not re-entrant), propagated through resolved local calls."""
from collections import defaultdict

from . import mirg
from .mirg import plocal, pproj, op_local, op_const
from .rules import ncallee, norm

LOCK_FNS = ("std::sync::poison::mutex::Mutex::lock", "std::sync::mutex::Mutex::lock",
            "std::sync::poison::rwlock::RwLock::write", "std::sync::poison::rwlock::RwLock::read",
            "std::sync::poison::mutex::Mutex::try_lock")


def is_guard_ty(ty):
    return ty.startswith("std::sync::poison::mutex::MutexGuard<") or ty.startswith("std::sync::poison::rwlock::RwLock") and "Guard<" in ty


class FnLocks:
    """per-function: lock sites, guard locals, held-sets at every block entry/terminator"""

    def __init__(self, fn, crate):
        self.fn = fn
        self.crate = crate
        self.du = mirg.DefUse(fn)
        self.cfg = mirg.Cfg(fn)
        blocks = fn.mir["blocks"]
        locals_ = fn.mir["locals"]
        self.lock_sites = []     # (bb, static_name, line)
        self.guard_of = {}       # guard local -> static name
        # 1. lock calls and the static they lock
        lock_result = {}         # local holding Result<Guard> -> static
        for bb, t in mirg.iter_calls(fn):
            c = ncallee(t)
            if c in LOCK_FNS:
                st = self._static_of(t["a"][0])
                self.lock_sites.append((bb, st or "?", t["ln"]))
                lock_result[plocal(t["d"])] = st or "?"
        # 2. guard locals: MutexGuard-typed locals derived from a lock result
        for l, (tix, _name) in enumerate(locals_):
            ty = crate.ty(tix) or ""
            if is_guard_ty(ty):
                st = self._guard_static(l, lock_result)
                if st:
                    self.guard_of[l] = st
        # 3. forward may-dataflow of live guards
        gen = defaultdict(set)   # bb -> guards created at end of bb (by terminator) or inside
        kill = defaultdict(set)
        moved = defaultdict(set)
        for i, b in enumerate(blocks):
            for st in b["s"]:
                if st[0] == "=" and plocal(st[1]) in self.guard_of and not pproj(st[1]):
                    gen[i].add(plocal(st[1]))
                    # move from another guard local transfers ownership
                    for op in mirg.rvalue_operands(st[2]):
                        if op[0] == "m" and plocal(op[1]) in self.guard_of and not pproj(op[1]):
                            kill[i].add(plocal(op[1]))
            t = b["t"]
            if t["k"] == "call" and plocal(t["d"]) in self.guard_of and not pproj(t["d"]):
                gen[i].add(plocal(t["d"]))
            if t["k"] == "drop" and not pproj(t["p"]) and plocal(t["p"]) in self.guard_of:
                kill[i].add(plocal(t["p"]))
            if t["k"] == "call":
                c = ncallee(t) or ""
                if c in ("core::mem::drop",):
                    for a in t["a"]:
                        if a[0] == "m" and plocal(a[1]) in self.guard_of:
                            kill[i].add(plocal(a[1]))
        self.held_in = [set() for _ in blocks]
        self.held_at_term = [set() for _ in blocks]
        changed = True
        order = list(range(len(blocks)))
        while changed:
            changed = False
            for i in order:
                if blocks[i].get("cl"):
                    continue
                inn = set()
                for p in self.cfg.pred[i]:
                    inn |= self._out(p, gen, kill)
                if inn != self.held_in[i]:
                    self.held_in[i] = inn
                    changed = True
        for i, b in enumerate(blocks):
            # guards created by statements inside the block are live at the terminator; guard created by the terminator is not
            t = b["t"]
            stmt_gen = {plocal(st[1]) for st in b["s"] if st[0] == "=" and plocal(st[1]) in self.guard_of and not pproj(st[1])}
            stmt_kill = set()
            for st in b["s"]:
                if st[0] == "=":
                    for op in mirg.rvalue_operands(st[2]):
                        if op[0] == "m" and plocal(op[1]) in self.guard_of and not pproj(op[1]):
                            stmt_kill.add(plocal(op[1]))
            self.held_at_term[i] = (self.held_in[i] | stmt_gen) - stmt_kill

    def _out(self, p, gen, kill):
        return (self.held_in[p] | gen[p]) - kill[p]

    def _static_of(self, op, depth=0):
        """follow &*LazyLock::deref(&STATIC) back to the static's name"""
        seen = set()
        stack = [op]
        while stack:
            o = stack.pop()
            c = op_const(o)
            if c is not None:
                if c.get("static"):
                    return c["static"]
                continue
            l = op_local(o)
            if l is None or l in seen:
                continue
            seen.add(l)
            for _bb, kind, payload in self.du.defs.get(l, []):
                if kind == "assign":
                    stack.extend(mirg.rvalue_operands(payload[2]))
                else:
                    cal = ncallee(payload) or ""
                    if cal.endswith("::deref") or cal.endswith("LazyLock::force") or cal.endswith("::borrow") or cal.endswith("OnceLock::get_or_init"):
                        stack.extend(payload["a"])
        return None

    def _guard_static(self, l, lock_result):
        seen = set()
        stack = [l]
        while stack:
            x = stack.pop()
            if x in seen:
                continue
            seen.add(x)
            if x in lock_result:
                return lock_result[x]
            for _bb, kind, payload in self.du.defs.get(x, []):
                if kind == "assign":
                    for op in mirg.rvalue_operands(payload[2]):
                        ol = op_local(op)
                        if ol is not None:
                            stack.append(ol)
                else:
                    for a in payload["a"]:
                        ol = op_local(a)
                        if ol is not None:
                            stack.append(ol)
        return None

    def held_statics_at(self, bb):
        return {self.guard_of[g] for g in self.held_at_term[bb]}


def analyse(crate, max_depth=4):
    """returns (fnlocks, acquires, edges, reacquire)
    acquires[f] = statics f may lock (transitively);
    edges = {(held, acquired): [(fn, line, via)]};  reacquire = [(fn, line, static, via)]"""
    fl = {}
    for f in crate.fn_list:
        fl[f.path] = FnLocks(f, crate)
    direct = {p: {s for _, s, _ in x.lock_sites} for p, x in fl.items()}
    calls = defaultdict(set)
    for f in crate.fn_list:
        for bb, t in mirg.iter_calls(f):
            c = mirg.callee(t)
            if c and norm(c) in fl:
                calls[f.path].add(norm(c))
            for a in t["a"]:
                ac = op_const(a)
                if ac and ac.get("closure") in fl:
                    calls[f.path].add(ac["closure"])
        for cl in f.closures:
            calls[f.path].add(cl.path)
    acquires = {p: set(s) for p, s in direct.items()}
    for _ in range(max_depth):
        changed = False
        for p in fl:
            for q in calls[p]:
                new = acquires[q] - acquires[p]
                if new:
                    acquires[p] |= new
                    changed = True
        if not changed:
            break
    edges = defaultdict(list)
    reacq = []
    for p, x in fl.items():
        f = x.fn
        for bb, t in mirg.iter_calls(f):
            held = x.held_statics_at(bb)
            if not held:
                continue
            c = ncallee(t)
            acquired = set()
            via = None
            if c in LOCK_FNS:
                st = x._static_of(t["a"][0]) or "?"
                acquired = {st}
                via = "lock()"
            else:
                tgt = norm(mirg.callee(t) or "")
                if tgt in fl:
                    acquired = acquires[tgt]
                    via = "call " + tgt
                for a in t["a"]:
                    ac = op_const(a)
                    if ac and ac.get("closure") in fl:
                        acquired = acquired | acquires[ac["closure"]]
                        via = via or ("closure " + ac["closure"])
            for s in acquired:
                for h in held:
                    if s == h:
                        reacq.append((p, t["ln"], s, via))
                    else:
                        edges[(h, s)].append((p, t["ln"], via))
    return fl, acquires, edges, reacq


def find_cycle(edges):
    g = defaultdict(set)
    for (a, b) in edges:
        g[a].add(b)
    color = {}
    stack = []

    def dfs(u):
        color[u] = 1
        stack.append(u)
        for v in g[u]:
            if color.get(v) == 1:
                return stack[stack.index(v):] + [v]
            if v not in color:
                r = dfs(v)
                if r:
                    return r
        stack.pop()
        color[u] = 2
        return None
    for n in list(g):
        if n not in color:
            r = dfs(n)
            if r:
                return r
    return None
