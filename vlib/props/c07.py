"""C07 — rebuilding an archive preserves its file set and contents.

Skip discipline: in the extraction and verification loops every `continue` is control-dependent
on an explicit `options.skip_*` flag — never on a read error; listing errors propagate (never
defaulted to an empty list); the summary's counts are the measured ones; verify_rebuild compares
the count and every expected file's bytes and fails on a difference; rebuild_archive and the CLI
propagate every phase's error.
"""
import re

from .. import cmpeval, hirq, mirg, rules
from ..rules import ncallee
from ..rules import norm as norm_

META = {
    "level": "other",
    "technique": "control-dependence of `continue` on option fields (typed HIR), error-propagation classification of listing/read calls, expression shape of the summary counts, comparator truth tables in verify_rebuild",
    "claim": "Decides that rebuild can only omit files the options exclude, that no listing/read error is turned into an empty or shorter file set, that the reported counts are computed from the measured lists, and that verification fails on count or content difference. Does not compare archive contents across version pairs. Also: every extracted file is re-added; listfile generation is disabled only on evidence from the re-added collection; the build phase is bypassed only by list_only; listed files are read by name. Wave 5: bool option fields are wired from the same-named flag; the summary's skipped count subtracts values of one enumeration (or saturates). Wave 6: verify_rebuild skips exactly the files extract_files_with_metadata skips, for every option pair / name class / flag word. Wave 7: every listing of rebuild.rs accounts for a (listfile) that does not name itself; Archive::list yields each table entry once; the comparison summary counts files (a set of names), not per-aspect differences. The builder's key-from-final-flags and size-operand rules are armed here too (rebuild re-adds encrypted files through write_file). Wave 8: the builder's never-expands and the cipher wrappers' early-return classes are armed here too; verification counts may be filtered counts of the target listing.",
    "note": "Trusted: Archive::list/read_file report failure through Result; ArchiveBuilder round-trip (C01).",
    "assumptions": ["files enumerated by list() are exactly the source's listed files"],
    "explanation": "rebuild.rs: rebuild_archive, extract_files_with_metadata, rebuild_with_files, verify_rebuild; the CLI rebuild command.",
}

F = "wow_mpq::rebuild::"


def enclosing_if_conditions(root, target):
    """conditions of all `if` nodes on the path from root to target (target identified by id)"""
    path = []

    def rec(n, conds):
        if n is target:
            path.extend(conds)
            return True
        if isinstance(n, dict):
            if n.get("k") == "if":
                if rec(n["c"], conds):
                    return True
                if rec(n["then"], conds + [("then", n["c"])]):
                    return True
                if n.get("else") is not None and rec(n["else"], conds + [("else", n["c"])]):
                    return True
                return False
            if n.get("k") == "match":
                if rec(n["e"], conds):
                    return True
                for a in n["arms"]:
                    if rec(a["body"], conds + [("arm:" + hirq.render_pat(a["pat"]), n["e"])]):
                        return True
                return False
            for k, v in n.items():
                if isinstance(v, (dict, list)) and rec(v, conds):
                    return True
        elif isinstance(n, list):
            for x in n:
                if rec(x, conds):
                    return True
        return False
    rec(root, [])
    return path


def names_the_listfile(node, mpq, depth=0):
    """the expression (or function body) names the archive's own file list: the literal "(listfile)", a constant holding it, or a call of
    a crate function that does (two levels)"""
    consts = mpq.consts()
    byp = {f.path: f for f in mpq.fn_list if f.hir and f.kind != "Closure"}
    for x in hirq.walk(node):
        if x.get("k") == "lit" and (x.get("v") or {}).get("str") == "(listfile)":
            return True
        if x.get("k") == "path" and "def" in (x.get("res") or {}):
            c = consts.get(x["res"]["def"])
            if isinstance(c, dict) and isinstance(c.get("v"), dict) and c["v"].get("repr") == '"(listfile)"':
                return True
        if x.get("k") in ("call", "mcall") and depth < 2:
            g = byp.get(x.get("fn"))
            if g is not None and re.search(r"::(rebuild|special_files)::", g.path) and names_the_listfile(g.hir["body"], mpq, depth + 1):
                return True
    return False


def listing_once_rule(ctx, mpq, pid):
    """two listfile lines may name one stored file (case / slash variants, a repeated line): it is one file — and two stored files
    are two files whatever they share: the seen-set of Archive::list is keyed by the *table entry* find_file resolved the name to
    (index fields only), never by attributes two different files can have in common (position of an empty file, size, flags)"""
    byp = {norm_(f.path): f for f in mpq.fn_list if f.hir and f.kind != "Closure"}
    R_once = ctx.rule("%s.listing-yields-each-stored-file-once" % pid, "in Archive::list the entry pushed for a listfile name is guarded by a seen-set test keyed by the table indices find_file resolved it to (index fields only)", floor=1)
    ls = byp.get("wow_mpq::archive::Archive::list")
    if ls is None:
        ctx.bad(R_once, "Archive::list|missing", "-", "function not found", "anchor gone")
        return
    ctx.saw_fn(ls)
    loops = [l for l in hirq.find(ls.hir["body"], "for") if re.search(r"filenames|names|lines", hirq.render(l["iter"])) and any(c.get("k") == "mcall" and c["m"] == "find_file" for c in hirq.walk(l["body"]))]
    if not loops:
        ctx.bad(R_once, "Archive::list|shape", ls.where, "loop over the listfile names not found", "shape changed")
    for lp in loops:
        pushes = [c for c in hirq.walk(lp["body"]) if c.get("k") == "mcall" and c["m"] == "push"]
        seen = [c for c in hirq.walk(lp["body"]) if c.get("k") == "mcall" and c["m"] in ("insert", "contains", "contains_key", "entry") and c.get("args")
                and re.search(r"HashSet|BTreeSet|HashMap|BTreeMap", mpq.ty(hirq.strip(c["recv"]).get("t")) or "")]
        keyed = []
        for c in seen:
            flds = [x["name"] for v in [c["args"][0]] + [y for y in hirq.value_leaves(lp["body"], c["args"][0]) if y is not None] for x in hirq.walk(v) if x.get("k") == "field"]
            keyed.append((c, flds))
        good = [c for c, flds in keyed if flds and all(re.search(r"index$|_idx$|slot$", f_) for f_ in flds)]
        other = [(c, [f_ for f_ in flds if not re.search(r"index$|_idx$|slot$", f_)]) for c, flds in keyed if flds and not all(re.search(r"index$|_idx$|slot$", f_) for f_ in flds)]
        if pushes and good and not other:
            ctx.ok(R_once, {"fn": "Archive::list", "seen_test": hirq.render(good[0])[:70]})
        elif pushes and other:
            ctx.bad(R_once, "Archive::list|seen-key-not-the-entry", "%s:%d" % (ls.file, other[0][0].get("ln") or lp.get("ln") or 0), "the already-listed test is keyed by `%s` (fields %s) — attributes, not the table entry" % (hirq.render(other[0][0]["args"][0])[:60], ", ".join(other[0][1])),
                    "two different stored files that share those attributes (consecutive empty files sit at the same position with size 0) count as one: all but the first vanish from list() although read_file still serves them")
        else:
            ctx.bad(R_once, "Archive::list|duplicates", "%s:%d" % (ls.file, lp.get("ln") or 0), "one entry is pushed per listfile line that resolves, with no test whether that table entry was listed already",
                    "a listfile naming a file twice (`a.txt` and `A.TXT`, `dir/a.txt` and `dir\\\\a.txt`) lists it twice; the rebuild then aborts with \"Duplicate file in archive\", comparisons count it twice")


def run(ctx):
    prog = ctx.prog
    mpq = prog.crate("wow_mpq")
    R_skip = ctx.rule("C07.skips-only-by-option", "every `continue` in the extraction/verification loops is guarded by an `options.skip_*` flag and never sits in an error arm", floor=4)
    R_list = ctx.rule("C07.listing-errors-propagate", "no list()/list_all() result is defaulted to an empty list; a fallback listing propagates its error", floor=3)
    R_read = ctx.rule("C07.read-errors-propagate", "read_file on a listed file is `?`-propagated in extract and verify (no log-and-continue)", floor=3)
    R_counts = ctx.rule("C07.summary-counts-measured", "RebuildSummary: source = listed count, extracted = len(extracted), skipped = source − extracted", floor=2)
    R_verify = ctx.rule("C07.verify-compares-count-and-bytes", "verify_rebuild fails when the file count differs or any expected file's bytes differ", floor=2)
    R_phase = ctx.rule("C07.phases-propagate", "rebuild_archive `?`-checks extract, rebuild and verify; rebuild_with_files `?`-checks build", floor=4)

    for name in ("extract_files_with_metadata", "verify_rebuild"):
        f = mpq.fns.get(F + name)
        if f is None or not f.hir:
            ctx.bad(R_skip, "%s|missing" % name, "-", "function not found", "anchor gone")
            continue
        ctx.saw_fn(f)
        body = f.hir["body"]
        for lp in hirq.find(body, "for"):
            for n in hirq.walk(lp["body"], into_closures=False):
                if n.get("k") != "continue":
                    continue
                conds = enclosing_if_conditions(lp["body"], n)
                txt = " && ".join("%s[%s]" % (w, hirq.render(c)[:80]) for w, c in conds)
                in_err_arm = any(w.startswith("arm:Err") for w, _ in conds)
                by_option = any(w == "then" and re.search(r"options\.skip_\w+", hirq.render(c)) for w, c in conds)
                key = "%s|continue|%s" % (name, re.sub(r"[^a-z_\.]", "", txt)[:60])
                if in_err_arm or not by_option:
                    ctx.bad(R_skip, key, "%s:%d" % (f.file, n["ln"]), "`continue` under %s" % (txt or "no condition"),
                            "a file is left out of the rebuilt archive although no option asked for it")
                else:
                    ctx.ok(R_skip, {"fn": name, "guard": txt})
        # listing calls
        for c in hirq.walk(body):
            if c.get("k") == "mcall" and re.search(r"Archive::list(_all)?(_with_hashes)?$", c.get("fn") or ""):
                ctx.call_sites += 1
                # find how the result is consumed: look for the smallest enclosing adapter
                parent_txt = None
                for p in hirq.walk(body):
                    if p.get("k") == "mcall" and p["m"] in ("unwrap_or_default", "unwrap_or", "unwrap_or_else", "ok", "unwrap") and hirq.strip(p["recv"]) is c:
                        parent_txt = p["m"]
                key = "%s|%s|%s" % (name, c["m"], parent_txt)
                if parent_txt in ("unwrap_or_default", "unwrap_or", "ok"):
                    ctx.bad(R_list, key, "%s:%d" % (f.file, c["ln"]), "`%s().%s()` turns a listing error into an empty list" % (c["m"], parent_txt),
                            "an unlistable source rebuilds to an empty (or 'verified') archive while reporting success")
                elif parent_txt == "unwrap_or_else":
                    # acceptable only if the fallback closure itself propagates — closures cannot `?` to the outer fn
                    ctx.bad(R_list, key, "%s:%d" % (f.file, c["ln"]), "`%s().unwrap_or_else(..)` fallback cannot propagate its own error" % c["m"],
                            "the fallback listing's failure is swallowed")
                else:
                    ctx.ok(R_list, {"fn": name, "call": c["m"], "consumed_by": parent_txt or "?/match"})
        # read_file calls on listed files
        for m in hirq.find(body, "match"):
            if "read_file" in hirq.render(m["e"]):
                for arm in m["arms"]:
                    if hirq.is_err_ctor(hirq.pat_ctor(arm["pat"])) and not any(x.get("k") in ("ret", "try") for x in hirq.walk(arm["body"])):
                        ctx.bad(R_read, "%s|read_file|Err-arm" % name, "%s:%d" % (f.file, arm["ln"]), "`match %s`: the Err arm does not fail the rebuild" % hirq.render(m["e"])[:60],
                                "an unreadable listed file is dropped and the rebuild still returns Ok")
        for t in hirq.find(body, "try"):
            if "read_file" in hirq.render(t["e"]):
                ctx.ok(R_read, {"fn": name, "read": hirq.render(t["e"])[:70]})

    # every listed (named) file is read through its name — the by-index reader derives keys from a placeholder name
    R_byname = ctx.rule("C07.listed-files-read-by-name", "in extract and verify every read of a listed file's content is `read_file(<the listed name>)`; no by-index / anonymous read", floor=3)
    for name in ("extract_files_with_metadata", "verify_rebuild"):
        f = mpq.fns.get(F + name)
        if f is None or not f.hir:
            continue
        for c in hirq.walk(f.hir["body"]):
            if c.get("k") != "mcall" or not re.search(r"Archive::(read_\w+)$", c.get("fn") or ""):
                continue
            meth = c["m"]
            args = " ".join(hirq.render(a) for a in c["args"])
            aty = (mpq.ty(c["args"][0].get("t")) or mpq.ty(hirq.strip(c["args"][0]).get("t")) or "") if c.get("args") else ""
            if meth == "read_file" and re.search(r"str|String", aty):
                ctx.ok(R_byname, {"fn": name, "call": hirq.render(c)[:60]})
            else:
                ctx.bad(R_byname, "%s|%s" % (name, meth), "%s:%d" % (f.file, c["ln"]), "content is read with `%s(%s)`" % (meth, args[:50]),
                        "an encrypted file's key is derived from its name; a read that does not go through the listed name (by table indices, under a placeholder name) decrypts it with the wrong key and the rebuilt archive silently carries garbage")

    # summary counts
    ra = mpq.fns.get(F + "rebuild_archive")
    if ra is None or not ra.hir:
        ctx.bad(R_counts, "rebuild_archive|missing", "-", "function not found", "anchor gone")
    else:
        ctx.saw_fn(ra)
        body = ra.hir["body"]
        # which call extracts, and what is bound to its result
        def leaves(e):
            return [("?" if v is None else hirq.render(v)) for v in hirq.value_leaves(body, e)]

        def from_extraction(txt):
            return "extract_files_with_metadata(" in txt
        for i, lit in enumerate(x for x in hirq.find(body, "struct") if x["res"].get("def", "").endswith("RebuildSummary")):
            flds = {k: v for k, v in lit["fields"]}
            probs = []
            src_l, ext_l = leaves(flds.get("source_files")), leaves(flds.get("extracted_files"))
            # extracted = length of the list the extraction returned
            if not (len(ext_l) == 1 and re.search(r"\.len\(\)$", ext_l[0]) and from_extraction(" ".join(leaves(hirq.strip(hirq.value_leaves(body, flds.get("extracted_files"))[0])["recv"])))):
                probs.append("extracted_files = `%s` is not the length of the extracted list" % ", ".join(ext_l))
            # source = a count of the source archive's files: the table count, or what the extraction reports as listed
            if not (len(src_l) == 1 and (re.search(r"\.file_count$", src_l[0]) or from_extraction(src_l[0]))):
                probs.append("source_files = `%s` is neither the archive's file count nor the listing's count" % ", ".join(src_l))
            # skipped = source - extracted, on the very same two values; a plain `-` needs both to come from one enumeration
            sk = [v for v in hirq.value_leaves(body, flds.get("skipped_files"))]
            sk0 = hirq.strip(sk[0]) if len(sk) == 1 and sk[0] is not None else {}
            if sk0.get("k") == "bin" and sk0["op"] == "-":
                a_, b_, plain = sk0["l"], sk0["r"], True
            elif sk0.get("k") == "mcall" and sk0["m"] in ("saturating_sub", "checked_sub") and sk0.get("args"):
                a_, b_, plain = sk0["recv"], sk0["args"][0], False
            else:
                a_ = b_ = None
                plain = False
                probs.append("skipped_files = `%s` is not a difference" % hirq.render(sk0)[:60])
            if a_ is not None:
                if leaves(a_) != src_l or leaves(b_) != ext_l:
                    probs.append("skipped_files = `%s` is not source_files - extracted_files" % hirq.render(sk0)[:60])
                elif plain and not from_extraction(" ".join(src_l)):
                    probs.append("skipped_files subtracts the extracted count from `%s`, a count taken from a different enumeration than the list that was extracted, with a plain `-`" % src_l[0])
            if probs:
                ctx.bad(R_counts, "rebuild_archive|summary#%d" % i, "%s:%d" % (ra.file, lit["ln"]), "; ".join(probs),
                        "the reported counts are not the measured ones; when the two enumerations disagree (a zero-length file is listed but not counted by the block-table scan) the subtraction underflows: panic, or usize::MAX skipped files in release builds")
            else:
                ctx.ok(R_counts, {"summary_literal_line": lit["ln"], "source": src_l[0][:60], "skipped": hirq.render(sk0)[:60]})
        # phases
        for callee in ("extract_files_with_metadata", "rebuild_with_files", "verify_rebuild"):
            hit = [(bb, t) for bb, t in mirg.iter_calls(ra) if (ncallee(t) or "").endswith("rebuild::" + callee)]
            if hit and all(rules.flows_to_check(ra, None, mirg.plocal(t["d"])) for _, t in hit):
                ctx.ok(R_phase, {"phase": callee, "checked": True})
            else:
                ctx.bad(R_phase, "rebuild_archive|%s" % callee, ra.where, "%s %s" % (callee, "is not called" if not hit else "result is discarded"),
                        "a failed phase would be reported as a successful rebuild")
    rw = mpq.fns.get(F + "rebuild_with_files")
    if rw is not None:
        hit = [(bb, t) for bb, t in mirg.iter_calls(rw) if (ncallee(t) or "").endswith("ArchiveBuilder::build")]
        if hit and all(rules.flows_to_check(rw, None, mirg.plocal(t["d"])) for _, t in hit):
            ctx.ok(R_phase, {"phase": "ArchiveBuilder::build", "checked": True})
        else:
            ctx.bad(R_phase, "rebuild_with_files|build", rw.where, "build result discarded or build not called", "target may not exist while Ok is returned")

    # re-add loop: every extracted file is added, under its own name and bytes
    R_readd = ctx.rule("C07.every-extracted-file-readded", "rebuild_with_files adds each (data, meta) pair exactly once with meta.name and data on every branch; no skip inside the loop", floor=1)
    if rw is not None and rw.hir:
        for lp in hirq.find(rw.hir["body"], "for"):
            binds = hirq.pat_binds(lp["pat"])
            if len(binds) < 2:
                continue
            dname, mname = binds[0], binds[1]
            skips = [x for x in hirq.walk(lp["body"], into_closures=False) if x.get("k") in ("continue", "break")]
            adds = [c for c in hirq.walk(lp["body"]) if c.get("k") == "mcall" and re.match(r"add_file", c["m"])]
            probs = []
            if skips:
                probs.append("loop contains `%s` at line %d" % (skips[0]["k"], skips[0]["ln"]))
            if not adds:
                probs.append("no add_file* call in the loop")
            for a in adds:
                args = [hirq.render(x) for x in a["args"]]
                if not any(args[0] == dname for _ in [0]) or not any(("%s.name" % mname) in x for x in args[:2]):
                    probs.append("add call at line %d passes (%s) instead of (%s, &%s.name, ..)" % (a["ln"], ", ".join(args[:2]), dname, mname))
            # every branch of an if/else chain inside the loop must add
            for n in hirq.find(lp["body"], "if"):
                arms = [n["then"]] + ([n["else"]] if n.get("else") is not None else [])
                if n.get("else") is None or any(not any(c.get("k") == "mcall" and re.match(r"add_file", c["m"]) for c in hirq.walk(arm)) for arm in arms):
                    if any(c.get("k") == "mcall" and re.match(r"add_file", c["m"]) for c in hirq.walk(n)):
                        probs.append("a branch of the `if %s` at line %d adds nothing" % (hirq.render(n["c"])[:40], n["ln"]))
            if probs:
                ctx.bad(R_readd, "rebuild_with_files|re-add", "%s:%d" % (rw.file, lp["ln"]), "; ".join(probs[:3]), "an extracted file is left out of (or mis-named / mis-filled in) the rebuilt archive")
            else:
                ctx.ok(R_readd, {"adds": len(adds), "loop_line": lp["ln"]})
    # listfile strategy: generation may be turned off only on the evidence that a (listfile) is among the files re-added
    R_lf = ctx.rule("C07.listfile-strategy-follows-readded-files", "ListfileOption::None is chosen only under a condition computed from the collection the re-add loop iterates (and naming \"(listfile)\")", floor=1)
    if rw is not None and rw.hir:
        from .c03 import make_inliner
        body = rw.hir["body"]
        inline = make_inliner(body)
        iterated = set()
        for lp in hirq.find(body, "for"):
            if any(c.get("k") == "mcall" and re.match(r"add_file", c["m"]) for c in hirq.walk(lp["body"])):
                iterated |= {x["res"]["local"] for x in hirq.walk(lp["iter"]) if x.get("k") == "path" and "local" in x["res"]}
        for c in hirq.walk(body):
            if c.get("k") == "mcall" and c["m"] == "listfile_option" and c.get("args"):
                a = hirq.strip(c["args"][0])
                none_conds = []
                if a.get("k") == "if":
                    th_none = any(x.get("k") == "path" and x["res"].get("def", "").endswith("ListfileOption::None") for x in hirq.walk(a["then"]))
                    el_none = a.get("else") is not None and any(x.get("k") == "path" and x["res"].get("def", "").endswith("ListfileOption::None") for x in hirq.walk(a["else"]))
                    if th_none or el_none:
                        none_conds.append(a["c"])
                elif any(x.get("k") == "path" and x["res"].get("def", "").endswith("ListfileOption::None") for x in hirq.walk(a)):
                    none_conds.append(None)
                if not none_conds:
                    ctx.ok(R_lf, {"call_line": c["ln"], "never_disables_generation": True})
                for nc in none_conds:
                    if nc is None:
                        ctx.bad(R_lf, "rebuild_with_files|listfile-none-unconditional", "%s:%d" % (rw.file, c["ln"]), "listfile generation is disabled unconditionally", "an archive whose (listfile) is not among the extracted files is rebuilt without any listing")
                        continue
                    ci = inline(nc)
                    used = {x["res"]["local"] for x in hirq.walk(ci) if x.get("k") == "path" and "local" in x["res"]}
                    names_lit = "(listfile)" in hirq.render(ci) or names_the_listfile(ci, mpq)
                    if used & iterated and names_lit:
                        ctx.ok(R_lf, {"call_line": c["ln"], "condition": hirq.render(ci)[:100], "collection": sorted(used & iterated)})
                    else:
                        ctx.bad(R_lf, "rebuild_with_files|listfile-none-evidence", "%s:%d" % (rw.file, c["ln"]), "generation is disabled under `%s`, which is not computed from the re-added collection %s" % (hirq.render(ci)[:80], sorted(iterated)),
                                "when the source has a (listfile) that is not itself among the extracted files (it does not list itself, or was filtered), nothing adds one and nothing generates one: the rebuilt archive cannot be listed")

    # the only success exit that bypasses the build phase is the list_only option
    R_bypass = ctx.rule("C07.build-bypassed-only-by-list-only", "every `return Ok(..)` of rebuild_archive that precedes the rebuild_with_files call is guarded by exactly `options.list_only`", floor=1)
    if ra is not None and ra.hir:
        body = ra.hir["body"]
        call_ln = min([c["ln"] for c in hirq.calls(body) if (c.get("fn") or "").endswith("rebuild::rebuild_with_files")] or [10 ** 9])
        for r_ in hirq.find(body, "ret"):
            if r_["ln"] >= call_ln or "Ok(" not in hirq.render(r_.get("e")) and "Ok" not in hirq.render(r_.get("e")):
                continue
            conds = enclosing_if_conditions(body, r_)
            rend = [(w, hirq.render(hirq.strip(cd))) for w, cd in conds]
            if len(rend) == 1 and rend[0][0] == "then" and re.fullmatch(r"\(?options\.list_only\)?", rend[0][1]):
                ctx.ok(R_bypass, {"return_line": r_["ln"], "guard": rend[0][1]})
            else:
                ctx.bad(R_bypass, "rebuild_archive|early-ok", "%s:%d" % (ra.file, r_["ln"]), "success is returned before the build phase under %s" % (rend or "no condition"),
                        "for inputs satisfying the extra condition no target archive is written (and none is verified) although the rebuild reports Ok")

    # option flags travel by name: a bool field of an options struct built from another options/arguments value is initialised from
    # the same-named flag (two bools swap silently — the type checker cannot see it)
    R_wire = ctx.rule("C07.option-flags-wired-by-name", "in every struct literal, a bool field initialised from a field of another value is initialised from the same-named field whenever a sibling field's name is what it reads instead", floor=12)

    def _leaf(e):
        e = hirq.strip(e)
        while e.get("k") in ("cast", "try", "ref", "un") or (e.get("k") == "mcall" and e["m"] in ("clone", "into", "unwrap", "unwrap_or_default", "copied")):
            nxt = e.get("e") or e.get("recv")
            if nxt is None:
                break
            e = hirq.strip(nxt)
        return e
    for c_ in prog.all_workspace():
        for f in c_.fn_list:
            if not f.hir or f.kind == "Closure" or "::tests::" in f.path or "::test" in f.path:
                continue
            for x in hirq.walk(f.hir["body"]):
                if x.get("k") != "struct" or len(x.get("fields") or []) < 2:
                    continue
                names = {fl[0] for fl in x["fields"]}
                for nm, e in x["fields"]:
                    lf = _leaf(e)
                    if lf.get("k") != "field" or (c_.ty(lf.get("t")) or "") != "bool":
                        continue
                    inst = {"fn": f.path.split("::")[-1], "struct": (x["res"].get("def") or "?").split("::")[-1], "field": nm, "from": hirq.render(lf)[:40]}
                    if lf["name"] == nm or lf["name"] not in names:
                        ctx.ok(R_wire, inst) if len(ctx.samples) < 300 else (ctx.rules[R_wire].__setitem__("obligations", ctx.rules[R_wire]["obligations"] + 1), ctx.rules[R_wire].__setitem__("discharged", ctx.rules[R_wire]["discharged"] + 1))
                    else:
                        ctx.bad(R_wire, "%s|%s.%s<-%s" % (f.path.split("::")[-1], inst["struct"], nm, lf["name"]), "%s:%d" % (f.file, e.get("ln") or x.get("ln") or 0),
                                "`%s.%s` is initialised from `%s`, the flag that belongs to its sibling field `%s`" % (inst["struct"], nm, hirq.render(lf)[:50], lf["name"]),
                                "the user's option is applied to the wrong behaviour: files are skipped (or kept) that the options given do not exclude (or exclude)")

    # extraction and verification skip the same files: the disjunction of the `continue` guards of the two loops is one predicate —
    # evaluated over (skip_signatures, skip_encrypted, is-a-signature-file, block flags in {0, ENCRYPTED, FIX_KEY, both, COMPRESS,...})
    R_same = ctx.rule("C07.verify-skips-what-extract-skips", "for every option pair, signature/non-signature name and flag word, extract_files_with_metadata and verify_rebuild skip the same files", floor=1)
    from .c10 import _bval as _bv, _NoEval as _NE
    consts_ = {k: v.get("v") for k, v in mpq.consts().items()}

    def skip_pred(fn_):
        body_ = fn_.hir["body"]
        guards = []
        for n_ in hirq.find(body_, "if"):
            th = hirq.strip(n_["then"])
            sts = (th.get("stmts") or []) + ([th["e"]] if th.get("e") is not None else []) if th.get("k") == "block" else [th]
            if any(isinstance(x, dict) and hirq.strip(x).get("k") == "continue" for x in sts) and re.search(r"skip_", hirq.render(n_["c"])):
                guards.append(n_["c"])
        return guards
    ex_f, ve_f = mpq.fns.get(F + "extract_files_with_metadata"), mpq.fns.get(F + "verify_rebuild")
    if ex_f is None or ve_f is None or not ex_f.hir or not ve_f.hir:
        ctx.bad(R_same, "rebuild|missing", "-", "extract_files_with_metadata / verify_rebuild not found", "anchor gone")
    else:
        ge, gv = skip_pred(ex_f), skip_pred(ve_f)
        if not ge or not gv:
            ctx.bad(R_same, "rebuild|no-skip-guards", ex_f.where, "skip guards not recognised (%d / %d)" % (len(ge), len(gv)), "shape changed")
        else:
            FL = {n_.split("::")[-1]: v_ for n_, v_ in consts_.items() if "BlockEntry::FLAG_" in n_ and isinstance(v_, int)}
            words = sorted({0} | set(FL.values()) | {FL.get("FLAG_ENCRYPTED", 0x10000) | FL.get("FLAG_FIX_KEY", 0x20000), FL.get("FLAG_ENCRYPTED", 0x10000) | FL.get("FLAG_COMPRESS", 0x200)})

            def ev(guards, body_, ss, se, sig_, fw):
                lets_ = {l["pat"]["name"]: l["init"] for l in hirq.find(body_, "let") if l["pat"].get("k") == "bind" and l.get("init") is not None}
                env = {"__bleaf__": (lambda r_: ss if r_.endswith("skip_signatures") else se if r_.endswith("skip_encrypted") else sig_ if "is_signature_file" in r_ else None),
                       "__leaf__": (lambda r_: fw if r_.endswith(".flags") else FL.get(r_))}
                return any(_bv(g_, env, lets_) for g_ in guards)
            try:
                diff = None
                n_ev = 0
                for ss in (False, True):
                    for se in (False, True):
                        for sig_ in (False, True):
                            for fw in words:
                                n_ev += 1
                                a_, b_ = ev(ge, ex_f.hir["body"], ss, se, sig_, fw), ev(gv, ve_f.hir["body"], ss, se, sig_, fw)
                                if a_ != b_ and diff is None:
                                    diff = (ss, se, sig_, fw, a_, b_)
                if diff:
                    ctx.bad(R_same, "rebuild|skip-predicates-differ", ve_f.where, "with skip_signatures=%s skip_encrypted=%s, %s name and flags 0x%X extraction %s the file but verification %s it" % (diff[0], diff[1], "a signature" if diff[2] else "an ordinary", diff[3], "skips" if diff[4] else "keeps", "skips" if diff[5] else "expects"),
                            "a correct rebuild is reported as a count / content mismatch (or a wrong one passes) whenever such a file is in the source: the outcome depends on whether verify is on")
                else:
                    ctx.ok(R_same, {"evaluations": n_ev, "extract_guards": [hirq.render(g_)[:60] for g_ in ge]})
            except _NE as e:
                ctx.bad(R_same, "rebuild|skip-not-evaluable", ex_f.where, "skip guards not evaluable: %s" % e, "shape changed")

    sig = mpq.fns.get(F + "is_signature_file")
    if sig is not None and sig.hir:
        lits = sorted({hirq.lit_str(x) or x["v"].get("str") for x in hirq.walk(sig.hir["body"]) if x.get("k") == "lit" and "str" in x["v"]})
        pl = sorted(set(re.findall(r'"str": "([^"]+)"', __import__("json").dumps(sig.hir))))
        names = sorted(set(lits) | set(pl))
        if names and all(n in ("(signature)", "(strong signature)") for n in names):
            ctx.ok(R_skip, {"fn": "is_signature_file", "names": names})
        else:
            ctx.bad(R_skip, "is_signature_file|names", sig.where, "treats %s as signature files" % names, "skip_signatures would exclude files that are not signatures")

    # verify compares
    vr = mpq.fns.get(F + "verify_rebuild")
    if vr is not None and vr.hir:
        body = vr.hir["body"]
        count_ok = bytes_ok = False
        for n in hirq.find(body, "if"):
            c = n["c"]
            ats = cmpeval.atoms(c)
            fails = any(x.get("k") == "ret" and "Err" in hirq.render(x.get("e")) for x in hirq.walk(n["then"]))
            if len(ats) == 2 and fails:
                try:
                    tt = cmpeval.truth_table(c, ats[0], ats[1])
                except cmpeval.Unknown:
                    continue
                if tt == {"lt": True, "eq": False, "gt": True}:
                    # (a count is a len() or a local holding an `.iter()..count()` / `.len()` of the listing it is named after)
                    lets_v = {l["pat"]["name"]: hirq.render(l["init"]) for l in hirq.find(body, "let") if l["pat"].get("k") == "bind" and l.get("init") is not None}
                    ats_x = [a + " " + lets_v.get(a, "") for a in ats]
                    if all(re.search(r"\.len\(\)|\.count\(\)", a) for a in ats_x) and any("target" in a for a in ats_x) and any("expected" in a or "source" in a for a in ats_x):
                        count_ok = True
                    elif any("source" in a for a in ats) and any("target" in a for a in ats):
                        bytes_ok = True
        if count_ok:
            ctx.ok(R_verify, {"check": "file count"})
        else:
            ctx.bad(R_verify, "verify_rebuild|count", vr.where, "no `if target.len() != expected.len() { return Err }`", "a target with missing/extra files verifies")
        if bytes_ok:
            ctx.ok(R_verify, {"check": "content bytes"})
        else:
            ctx.bad(R_verify, "verify_rebuild|bytes", vr.where, "no `if source_data != target_data { return Err }`", "a target with altered content verifies")

    _listing_rules(ctx, mpq)


def _listing_rules(ctx, mpq):
    """what the rebuild copies is what it lists: the listing must be the set of stored files, each once"""
    byp = {f.path: f for f in mpq.fn_list if f.hir and f.kind != "Closure"}

    # (1) Archive::list() reports the names the (listfile) holds.  A listfile need not name itself (Blizzard's do not), yet it is a file
    # of the archive: rebuild and verification must count it on both sides, or a faithful rebuild fails its own verification and
    # the source's listfile bytes are replaced by a regenerated text
    R_self = ctx.rule("C07.listings-account-for-the-listfile-itself", "every function of rebuild.rs that lists an archive (Archive::list / list_all) reaches, in itself or a helper it lists through, a lookup of the literal \"(listfile)\"", floor=3)
    listers = {}
    for f in mpq.fn_list:
        if not f.hir or f.kind == "Closure" or "::rebuild::" not in f.path or "::tests::" in f.path:
            continue
        direct = [c for c in hirq.walk(f.hir["body"]) if c.get("k") == "mcall" and c["m"] == "list" and re.search(r"Archive::list$", c.get("fn") or "Archive::list")]
        if direct:
            listers[f.path] = (f, direct)
    n_sites = 0
    for path, (f, direct) in sorted(listers.items()):
        ctx.saw_fn(f)
        ok_ = names_the_listfile(f.hir["body"], mpq)
        # the sites that obtain a listing: the direct calls, and every call of this function from rebuild.rs (a listing helper)
        sites = [(f, c) for c in direct]
        for g in mpq.fn_list:
            if g.hir and g.kind != "Closure" and "::rebuild::" in g.path and "::tests::" not in g.path and g.path != path:
                sites += [(g, c) for c in hirq.calls(g.hir["body"]) if c.get("fn") == path]
        for k, (g, c) in enumerate(sites):
            n_sites += 1
            if ok_:
                ctx.ok(R_self, {"fn": g.path.split("::")[-1], "line": c.get("ln"), "through": f.path.split("::")[-1]})
            else:
                ctx.bad(R_self, "%s|list#%d|listfile-uncounted" % (g.path.split("::")[-1], k), "%s:%d" % (g.file, c.get("ln") or 0),
                        "the archive is listed through `list()` alone: a `(listfile)` that does not name itself is not in the result",
                        "for such a source (every archive built with an external listfile text) the rebuild regenerates a different `(listfile)` instead of copying the source's, reports one file too few, and with verify=true fails: \"File count mismatch: expected 2, got 3\"")
    if n_sites == 0:
        ctx.bad(R_self, "rebuild|no-listing", "-", "no Archive::list call found in rebuild.rs", "shape changed")

    listing_once_rule(ctx, mpq, "C07")

    # (3) the comparison summary counts files: a file that differs in size *and* in flags is one different file
    R_cmp = ctx.rule("C07.comparison-summary-counts-files", "compare_archives: identical_files = common - different_files, and different_files is the size of a set of names, not a sum of per-aspect list lengths", floor=1)
    ca = byp.get("wow_mpq::compare::compare_archives")
    if ca is None:
        ctx.bad(R_cmp, "compare_archives|missing", "-", "function not found", "anchor gone")
    else:
        ctx.saw_fn(ca)
        lit = next((n for n in hirq.walk(ca.hir["body"]) if n.get("k") == "struct" and re.search(r"ComparisonSummary$", (n.get("res") or {}).get("def") or mpq.ty(n.get("t")) or "")
                    and not any(nm == "different_files" and hirq.strip(e).get("k") == "lit" for nm, e in n["fields"])), None)   # (the metadata-only early return carries zeros)
        if lit is None:
            ctx.bad(R_cmp, "compare_archives|shape", ca.where, "ComparisonSummary literal not found", "shape changed")
        else:
            fd = {nm: e for nm, e in lit["fields"]}
            def lens(e):
                out = []
                for v in [e] + [x for x in hirq.value_leaves(ca.hir["body"], e) if x is not None]:
                    for x in hirq.walk(v):
                        if x.get("k") == "mcall" and x["m"] == "len":
                            out.append((hirq.render(x["recv"]), mpq.ty(hirq.strip(x["recv"]).get("t")) or ""))
                return list(dict.fromkeys(out))
            dl = lens(fd.get("different_files"))
            idl = lens(fd.get("identical_files"))
            subs = sum(1 for x in hirq.walk(fd.get("identical_files") or {}) if x.get("k") == "bin" and x["op"] == "-")
            sums = sum(1 for x in hirq.walk(fd.get("different_files") or {}) if x.get("k") == "bin" and x["op"] == "+")
            if len(dl) == 1 and re.search(r"HashSet|BTreeSet", dl[0][1]) and subs <= 1 and sums == 0:
                ctx.ok(R_cmp, {"different_files": dl[0][0], "identical_files": hirq.render(fd.get("identical_files"))[:60]})
            else:
                ctx.bad(R_cmp, "compare_archives|summary", "%s:%d" % (ca.file, lit.get("ln") or 0), "different_files is built from %d list lengths (%s), identical_files subtracts %d of them from the common count" % (len(dl), ", ".join(d[0].split(".")[-1] for d in dl)[:80], subs),
                        "a file that differs in two aspects (size and flags, size and content) is counted twice as different and subtracted twice: with few common files the subtraction underflows — a panic in debug builds, identical_files = 18446744073709551615 in release")

    # (4) the rebuild's write side is ArchiveBuilder::write_file: a re-added FIX_KEY / encrypted file is bit-identical only if the
    # key is derived from the flags the block entry ends up with and from the uncompressed size (rules shared with C01 / C02 / C06)
    from .c01 import key_from_final_flags_rule, key_size_operand_rule
    key_from_final_flags_rule(ctx, mpq, "C07")
    key_size_operand_rule(ctx, mpq, "C07")
    # ... through codecs and cipher wrappers that undo each other on every block the rebuild can produce: the store-raw decision
    # (a block exactly as long as its source is raw to every reader) and the wrappers' early-return classes (shared with C03 / C04)
    from .c03 import never_expands_rule
    never_expands_rule(ctx, mpq, "C07")
    from .c04 import wrapper_guards_rule
    wrapper_guards_rule(ctx, mpq, "C07")
