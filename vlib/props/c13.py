"""C13 — M2, skin and anim files survive write→parse.

Wire-signature agreement (E4): for every record type of wow-m2 that has both a parse and a write
function, the sequence of primitives / sub-records / repetitions the writer emits equals what the
parser consumes, for every version in the finite version domain (every threshold and its
predecessor); field identity is compared where both sides name a struct field.  Record-size
constants used by M2Model::write's offset bookkeeping equal the computed width of the writer they
account for, at every version.
"""
import re

from .. import hirq, wire
from ..rules import norm

META = {
    "level": "other",
    "technique": "wire-signature abstract interpretation of typed HIR (reader vs writer, all versions of the finite version domain) + computed record widths vs bookkeeping constants",
    "claim": "Decides layout agreement (width, order, int/float kind, named field order, version thresholds) for every linear parse/write pair of wow-m2 at every version threshold, and that the per-record size constants in M2Model::write equal the widths of the writers they describe. Seek-driven top-level readers (M2Model, SkinG, AnimSection…) are listed unarmed. Does not compare values, floats or relocated key-frame blobs. Also: relocation cursors advance only on new mappings and every written blob is mapped; conversion paths reach the target for all index pairs; tracks are skipped only when fully empty; header references are reset when a section is empty; layout advances equal element writer widths; no struct size_of in writers; the .anim entry size inverts to the bone count. Wave 5: enumerate() indices used as positions count every element; the bone-index validity test equals index >= bone_count for all bytes x 13 skeleton sizes; embedded-skin element widths agree across reader / writer / extractor; no end-position compared with itself; pre-allocation caps bound only the allocation. Wave 6: AnimEntry offsets derive from captured stream positions only; the submesh record width is version-indexed consistently by writer and counter. Wave 8: emptiness guards name what their block writes (37 guards); the header size counts the header as written.",
    "note": "Trusted: the primitive tables (ReadExt/WriteExt read_*/write_* names carry their width; to_le_bytes width from the operand type). Conditions other than version comparisons are matched as unordered alternatives.",
    "assumptions": ["a record's wire layout is determined by its own parse/write body plus its sub-records' bodies"],
    "explanation": "All wow_m2 types with parse/read and write methods (≈73), M2Model::write's *_size constants (animation, bone, vertex, texture, submesh, material) and calculate_header_size vs M2Header::write.",
}

CR = "wow_m2"


def owners(crate):
    by_owner = {}
    for f in crate.fn_list:
        if f.kind == "Closure" or not f.hir:
            continue
        p = norm(f.path)
        parts = p.split("::")
        last = parts[-1]
        owner = "::".join(parts[:-1])
        if p.startswith("<"):
            m = re.match(r"^<(.+?) as (.+?)>::(\w+)$", p)
            if m:
                owner, last = norm(m.group(1)), m.group(3)
        by_owner.setdefault(owner, {})[last] = f
    return by_owner


def struct_fields(crate, owner):
    for a in crate.items["adts"]:
        if norm(a["path"]) == owner and a["k"] == "struct":
            return {f["name"] for f in a["fields"]}
    return None


class Widths:
    """byte width of what a type's writer emits, per version assignment"""

    def __init__(self, crate, by_owner):
        self.crate = crate
        self.by_owner = by_owner
        self.short = {}
        for o in by_owner:
            self.short.setdefault(o.split("::")[-1], o)
        self.cache = {}

    def writer_tokens(self, owner):
        fs = self.by_owner.get(owner) or self.by_owner.get(self.short.get(owner.split("::")[-1], ""), {})
        w = fs.get("write") if fs else None
        if w is None:
            return None
        if owner not in self.cache:
            self.cache[owner] = wire.extract(self.crate, w, "w")[0]
        return self.cache[owner]

    def width(self, toks, asg, depth=0):
        if depth > 8:
            return None
        total = 0
        for t in wire.specialise(toks, asg):
            if t.k in ("P",):
                total += t.w
            elif t.k == "B":
                if t.w is None:
                    return None
                total += t.w
            elif t.k == "S":
                sub = self.writer_tokens(norm(t.sub or ""))
                if sub is None:
                    # M2Array<T> header = count + offset
                    if (t.sub or "").split("::")[-1].startswith("M2Array"):
                        total += 8
                        continue
                    return None
                w = self.width(sub, asg, depth + 1)
                if w is None:
                    return None
                total += w
            elif t.k == "REP":
                n = rep_count(t)
                w = self.width(t.arms[0], asg, depth + 1)
                if n is None or w is None:
                    return None
                total += n * w
            elif t.k == "ALT":
                ws = {self.width(a, asg, depth + 1) for a in t.arms}
                if len(ws) != 1 or None in ws:
                    return None
                total += ws.pop()
        return total


def rep_count(t):
    c = t.cond or ""
    if getattr(t, "count", None) is not None:
        return t.count
    m = re.search(r"0\.\.(\d+)\)?$", c.replace(" ", ""))
    if m:
        return int(m.group(1))
    return None


def eval_version_expr(n, v):
    """evaluate `if version <op> k {..} else if .. {..} else {..}` / literal to an int for version v"""
    n = hirq.strip(n)
    k = n.get("k")
    if k == "block" and not n.get("stmts") and n.get("e"):
        return eval_version_expr(n["e"], v)
    if k == "lit":
        return n["v"].get("int")
    if k == "if":
        c = wire.norm_cond(n["c"])
        if c[0] != "ver" or not isinstance(c[2], int):
            return None
        truth = {">=": v >= c[2], "<": v < c[2], "==": v == c[2], "!=": v != c[2]}.get(c[1])
        if truth is None:
            return None
        return eval_version_expr(n["then"] if truth else n.get("else"), v) if (truth or n.get("else")) else None
    if k == "bin" and n["op"] in ("*", "+"):
        a, b = eval_version_expr(n["l"], v), eval_version_expr(n["r"], v)
        if a is None or b is None:
            return None
        return a * b if n["op"] == "*" else a + b
    return None


def thresholds(n, out):
    for x in hirq.walk(n):
        if x.get("k") == "if":
            c = wire.norm_cond(x["c"])
            if c[0] == "ver" and isinstance(c[2], int):
                out.add(c[2])


SIZE_VARS = {
    # local in M2Model::write -> record type whose writer it must describe
    "anim_size": "wow_m2::chunks::animation::M2Animation",
    "bone_size": "wow_m2::chunks::bone::M2Bone",
    "vertex_size": "wow_m2::chunks::vertex::M2Vertex",
    "texture_def_size": "wow_m2::chunks::texture::M2Texture",
}


def _relocation_rule(ctx, m2):
    """offset relocation of preserved key-frame data: the map-building pass advances its cursor exactly when it
    creates a mapping (shared blobs are laid out once), so the cursor equals the position the data pass writes at"""
    R = ctx.rule("C13.relocation-cursor-advances-only-on-new-mapping", "in every relocation-map loop, `cursor += len` sits under the same vacant-entry test that inserts `cursor` (no advance for an already-mapped shared blob)", floor=12)
    from .c07 import enclosing_if_conditions
    for f in m2.fn_list:
        if f.kind == "Closure" or not f.hir or "::tests::" in f.path:
            continue
        for lp in hirq.find(f.hir["body"], "for"):
            entries = [c for c in hirq.walk(lp["body"]) if c.get("k") == "mcall" and c["m"] == "entry" and "HashMap" in (m2.ty(hirq.strip(c["recv"]).get("t")) or "")]
            if not entries:
                continue
            # inner loops are visited on their own
            if any(any(e is x for x in hirq.walk(l2["body"])) for l2 in hirq.find(lp["body"], "for") if l2 is not lp for e in entries):
                continue
            inserted = set()
            for c in hirq.walk(lp["body"]):
                if c.get("k") == "mcall" and c["m"] in ("insert", "or_insert") and c.get("args"):
                    a = hirq.strip(c["args"][-1])
                    if a.get("k") == "path" and "local" in a["res"]:
                        inserted.add(a["res"]["local"])
            for ao in hirq.walk(lp["body"]):
                if ao.get("k") != "assignop" or ao["op"] not in ("+", "+=", "Add"):
                    continue
                l = hirq.strip(ao["l"])
                if l.get("k") != "path" or l["res"].get("local") not in inserted:
                    continue
                cur = l["res"]["local"]
                ctx.saw_fn(f)
                conds = enclosing_if_conditions(lp["body"], ao)
                vac = False
                for side, cd in conds:
                    for x in hirq.walk(cd):
                        if x.get("k") == "letx" and (hirq.pat_ctor(x["pat"]) or "").endswith("Entry::Vacant") and side == "then":
                            vac = True
                        if x.get("k") == "mcall" and x["m"] in ("contains_key",) and side in ("then", "else"):
                            vac = True
                        if x.get("k") == "mcall" and x["m"] == "is_none" and "insert" in hirq.render(x) and side == "then":
                            vac = True
                inst = {"fn": norm(f.path), "cursor": cur, "line": ao["ln"], "advance": hirq.render(ao)[:60]}
                if vac:
                    ctx.ok(R, inst)
                else:
                    ctx.bad(R, "%s|%s|%s" % (norm(f.path), cur, re.sub(r"\W+", "_", hirq.render(ao["r"]))[:40]), "%s:%d" % (f.file, ao["ln"]),
                            "`%s` runs whether or not a new mapping was created (guards: %s)" % (hirq.render(ao)[:60], [hirq.render(cd)[:50] for _, cd in conds] or "none"),
                            "when two tracks share one key-frame blob the cursor runs ahead of the data actually written: every later relocated offset points past its data and the re-parsed model has different key frames")


def _track_skip_rule(ctx, m2):
    """key-frame collectors skip a track only when it has neither timestamps nor values (truth table over the two emptiness facts)"""
    R = ctx.rule("C13.track-skipped-only-when-fully-empty", "every collect_*_track_data skips a track exactly when timestamps AND values are both empty", floor=8)
    from .c10 import _bval, _NoEval
    for f in m2.fn_list:
        if f.kind == "Closure" or not f.hir or not re.search(r"model::collect_\w*track_data$", norm(f.path)):
            continue
        hit = False
        for n in hirq.find(f.hir["body"], "if"):
            r_ = hirq.render(n["c"])
            if "timestamps" not in r_ or "is_empty" not in r_:
                continue
            if not any(x.get("k") in ("ret", "continue") for x in hirq.walk(n["then"])):
                continue
            tab = {}
            try:
                for te in (True, False):
                    for ve in (True, False):
                        env = {"__leaf__": (lambda q, te=te, ve=ve: (0 if te else 3) if "timestamps" in q else ((0 if ve else 3) if ("values" in q or "array" in q) else None))}
                        tab[(te, ve)] = _bval(n["c"], env, {})
            except _NoEval:
                continue
            hit = True
            ctx.saw_fn(f)
            if tab == {(True, True): True, (True, False): False, (False, True): False, (False, False): False}:
                ctx.ok(R, {"fn": norm(f.path), "cond": r_[:80]})
            else:
                ctx.bad(R, "%s|skip-guard" % norm(f.path).split("::")[-1], "%s:%d" % (f.file, n["ln"]), "`%s` skips a track with %s" % (r_[:80], [("no timestamps" if a else "timestamps") + " / " + ("no values" if b else "values") for (a, b), v in tab.items() if v and not (a and b)]),
                        "a half-populated track (a constant: one value, no timestamps) is not preserved: parse(write(m)) loses its key-frame data and the next write zeroes it")
        if not hit:
            ctx.note_unarmed(R, norm(f.path), "no emptiness skip guard recognised")


def _section_reset_rule(ctx, m2):
    """M2Model::write starts from a clone of the parsed header: a section whose reference is set when non-empty must be
    reset when empty, or the stale (count, offset) of the source file survives"""
    R = ctx.rule("C13.section-reference-reset-when-empty", "in M2Model::write every `if <non-empty> { header.F = M2Array::new(n, off) .. }` has an else branch that assigns header.F as well", floor=15)
    f = m2.fns.get("wow_m2::model::M2Model::write")
    if f is None or not f.hir:
        ctx.bad(R, "M2Model::write|missing", "-", "function not found", "anchor gone")
        return
    ctx.saw_fn(f)

    def header_fields(n):
        out = set()
        for x in hirq.walk(n, into_closures=False):
            if x.get("k") == "assign":
                l = hirq.strip(x["l"])
                if l.get("k") == "field" and hirq.render(hirq.strip(l["e"])) == "header":
                    out.add(l["name"])
        return out
    blk = hirq.strip(f.hir["body"])
    tops = blk.get("stmts", []) + ([blk["e"]] if blk.get("e") else []) if blk.get("k") == "block" else []
    for n in tops:
        if n.get("k") != "if":
            continue
        set_then = header_fields(n["then"])
        if not set_then:
            continue
        set_else = header_fields(n["else"]) if n.get("else") is not None else set()
        # a reset under the complementary condition elsewhere in the function (e.g. the version-specific epilogue) counts too
        elsewhere = set()
        for m_ in tops:
            if m_ is not n:
                elsewhere |= header_fields(m_)
        missing = sorted(set_then - set_else - elsewhere)
        if missing:
            ctx.bad(R, "M2Model::write|no-reset|%s" % missing[0], "%s:%d" % (f.file, n["ln"]), "`if %s` sets header.%s but the empty case leaves it as it was in the source header" % (hirq.render(n["c"])[:50], ", header.".join(missing)),
                    "after the list was emptied (parse, clear, write) the file still announces the old count at a stale offset: parsing it decodes entries from unrelated bytes")
        else:
            ctx.ok(R, {"section_line": n["ln"], "fields": sorted(set_then)})


def _reloc_map_covers_written_rule(ctx, m2):
    """relocation of preserved key-frame blobs: the map-building pass and the data-emitting pass of one section walk the same
    raw-data list; every blob the data pass emits has its original offset mapped, in the same order"""
    R = ctx.rule("C13.relocation-map-covers-every-written-blob", "for each raw-data list, the blobs emitted by the data pass (same order) are exactly the offsets the map pass assigns", floor=5)
    f = m2.fns.get("wow_m2::model::M2Model::write")
    if f is None or not f.hir:
        ctx.bad(R, "M2Model::write|missing", "-", "function not found", "anchor gone")
        return
    ctx.saw_fn(f)
    maps, writes = {}, {}
    for lp in hirq.find(f.hir["body"], "for"):
        it = hirq.render(lp["iter"])
        m_ = re.search(r"raw_data\.(\w+)", it)
        if not m_:
            continue
        lst = m_.group(1)
        def keys_of(method):
            out = []
            for c_ in hirq.walk(lp["body"]):
                if c_.get("k") == "mcall" and c_["m"] == method and c_.get("args"):
                    for x in hirq.walk(c_["args"][0]):
                        if x.get("k") == "field" and x["name"].startswith("original_"):
                            out.append(x["name"])
                        elif x.get("k") == "path" and "local" in x["res"] and re.search(r"orig|offset", x["res"]["local"]):
                            out.append(x["res"]["local"])
            return out
        mapped = keys_of("entry")
        emits = any(c_.get("k") == "mcall" and c_["m"] == "extend_from_slice" for c_ in hirq.walk(lp["body"]))
        written = keys_of("insert") if emits else []
        if mapped and not emits:
            maps.setdefault(lst, []).append((mapped, lp["ln"]))
        elif written and not mapped:
            writes.setdefault(lst, []).append((written, lp["ln"]))
    for lst in sorted(set(maps) | set(writes)):
        ms, ws = maps.get(lst, []), writes.get(lst, [])
        for (mp, mln), (wr, wln) in zip(ms, ws):
            mk = list(mp)
            missing = [w_ for w_ in wr if w_ not in mk]
            if missing:
                ctx.bad(R, "M2Model::write|%s|unmapped-%s" % (lst, missing[0]), "%s:%d" % (f.file, mln), "the data pass over raw_data.%s (line %d) emits %s, the map pass (line %d) assigns offsets only to %s" % (lst, wln, wr, mln, mk),
                        "the unmapped blob is still written: every mapped offset after it is too small by its length, and the reference to the blob itself is zeroed — the re-parsed model has different key frames")
            elif [x for x in mk if x in wr] != [x for x in wr if x in mk]:
                ctx.bad(R, "M2Model::write|%s|order" % lst, "%s:%d" % (f.file, mln), "map pass assigns %s in that order, data pass writes %s" % (mk, wr), "offsets are assigned in a different order than the data is laid out")
            else:
                ctx.ok(R, {"list": lst, "blobs": wr, "map_line": mln, "data_line": wln})
        if len(ms) != len(ws):
            ctx.note_unarmed(R, lst, "map passes %d vs data passes %d recognised" % (len(ms), len(ws)))


def _no_struct_sizeof_rule(ctx, m2):
    """the in-memory size of a Rust struct is never a wire size: layout arithmetic may use size_of only of primitives"""
    R = ctx.rule("C13.no-struct-size-of-in-layout", "no size_of::<crate struct>() in a writer (on-disk header/record sizes come from the version-aware size functions); size_of of primitives is fine", floor=5)
    from .. import mirg
    n = 0
    for f in m2.fn_list:
        if "::tests::" in f.path or not f.mir.get("blocks") or not re.search(r"::write(_\w+)?(::\{closure#\d+\})*$|::calculate_header_size$", norm(f.path)):
            continue
        for bb, t in mirg.iter_calls(f):
            k = mirg.op_const(t["f"])
            if not k or not re.search(r"mem::size_of$", k.get("fn") or ""):
                continue
            n += 1
            ga = str(k.get("ga") or "")
            tname = ga.strip("[]")

            def pod(tn, depth=0):
                """plain-old-data of 4-byte-aligned scalars: in-memory size == wire size"""
                if re.fullmatch(r"[uif](8|16|32|64)|\[[uif](8|16|32|64); \d+\]", tn):
                    return True
                adt = next((a_ for a_ in m2.items["adts"] if a_["path"] == tn and a_.get("k") == "struct"), None)
                if adt is None or depth > 3:
                    return False
                tys = [fl["ty"] for fl in adt["fields"]]
                return all(pod(t_, depth + 1) for t_ in tys) and len({re.sub(r"\D", "", t_.split(";")[0])[-2:] for t_ in tys if re.match(r"^\[?[uif]", t_)}) <= 1
            if re.search(r"wow_m2::|[A-Z]\w+", ga) and not pod(tname):
                ctx.saw_fn(f)
                ctx.bad(R, "%s|size_of-struct" % norm(f.path).split("::")[-1], "%s:%d" % (f.file, t["ln"]), "`size_of::<%s>()` is used in a writer" % ga.strip("[]")[:50],
                        "the Rust struct's size (padding, Options, Vecs) is not the record's size in the file: offsets derived from it point into the wrong place")
            else:
                ctx.ok(R, {"fn": norm(f.path), "size_of": ga.strip("[]")[:40], "line": t["ln"]})
    if n == 0:
        ctx.note_unarmed(R, "size_of", "no size_of call in any writer")


def _anim_entry_size_rule(ctx, m2):
    """AnimEntry.size: what AnimFile::write stores is what AnimSection::parse inverts to the bone count"""
    R = ctx.rule("C13.anim-entry-size-inverts-to-bone-count", "for n = 0..6 bones, AnimSection::parse's bone-count formula applied to the size AnimFile::write stores gives n", floor=1)
    from .c10 import _ival, _NoEval
    wr = next((f for f in m2.fn_list if f.hir and f.kind != "Closure" and re.search(r"anim::AnimFile::write(_modern)?$", norm(f.path)) and any(x.get("k") == "assign" and hirq.render(hirq.strip(x["l"])).endswith(".size") for x in hirq.walk(f.hir["body"]))), None)
    pr = m2.fns.get("wow_m2::anim::AnimSection::parse")
    if wr is None or pr is None or not pr.hir:
        ctx.bad(R, "anim|missing", "-", "AnimFile::write (size assignment) or AnimSection::parse not found", "anchor gone")
        return
    ctx.saw_fn(wr)
    ctx.saw_fn(pr)
    size_expr = next(x["r"] for x in hirq.walk(wr.hir["body"]) if x.get("k") == "assign" and hirq.render(hirq.strip(x["l"])).endswith(".size"))
    plets = {l["pat"]["name"]: l["init"] for l in hirq.find(pr.hir["body"], "let") if l["pat"].get("k") == "bind" and l.get("init") is not None}
    wlets = {l["pat"]["name"]: l["init"] for l in hirq.find(wr.hir["body"], "let") if l["pat"].get("k") == "bind" and l.get("init") is not None}
    if "bone_count" not in plets:
        ctx.bad(R, "anim|parser-shape", pr.where, "no `bone_count` derivation in AnimSection::parse", "shape changed")
        return
    bad = None
    try:
        for n in range(0, 7):
            stored = _ival(size_expr, {"__leaf__": (lambda r_, n=n: n if r_.endswith(".len()") else None)}, wlets)
            got = _ival(plets["bone_count"], {"size": stored}, {k_: v_ for k_, v_ in plets.items() if k_ != "bone_count"})
            if got != n and bad is None:
                bad = (n, stored, got)
    except _NoEval as e:
        ctx.bad(R, "anim|size-not-a-function-of-bone-count", wr.where, "the stored size `%s` is not computed from the number of bones (%s), but the parser derives the bone count from it" % (hirq.render(size_expr)[:60], e),
                "a section with key-frame data is written with a size from which the parser computes the wrong number of bones: the file does not parse back")
        return
    if bad:
        ctx.bad(R, "anim|size-formula", wr.where, "for %d bones the writer stores size %d, from which the parser derives %d bones" % bad, "the file does not parse back")
    else:
        ctx.ok(R, {"writer_size": hirq.render(size_expr)[:60], "parser_bone_count": hirq.render(plets["bone_count"])[:40]})


def _anim_legacy_pair_rule(ctx, m2):
    """the legacy .anim flavour: what write_legacy emits is what parse_legacy consumes (wire signatures)"""
    R = ctx.rule("C13.anim-legacy-reader-consumes-what-writer-emits", "AnimParser::parse_legacy's wire signature equals AnimFile::write_legacy's", floor=1)
    rd = next((f for f in m2.fn_list if f.hir and f.kind != "Closure" and norm(f.path).endswith("anim::AnimParser::parse_legacy")), None)
    wr = next((f for f in m2.fn_list if f.hir and f.kind != "Closure" and norm(f.path).endswith("anim::AnimFile::write_legacy")), None)
    if rd is None or wr is None:
        ctx.note_unarmed(R, "anim-legacy", "parse_legacy / write_legacy not both present")
        ctx.ok(R, {"legacy_pair": "absent"})
        return
    ctx.saw_fn(rd)
    ctx.saw_fn(wr)
    rt = wire.specialise(wire.extract(m2, rd, "r")[0], {})
    wt = wire.specialise(wire.extract(m2, wr, "w")[0], {})
    d = wire.compare(rt, wt)
    if d:
        ctx.bad(R, "anim-legacy|layout", rd.where, "reader `%s` vs writer `%s`: %s" % (wire.flat(rt)[:60], wire.flat(wt)[:80], "%s: %s" % d[0]),
                "a legacy-format .anim written by the library cannot be read back (the reader is a placeholder that consumes only the leading bytes)")
    else:
        ctx.ok(R, {"layout": wire.flat(wt)[:100]})


def _conversion_path_rule(ctx, m2):
    """M2Converter's multi-step paths: for every (from, to) index pair the listed steps start next to `from` and end at `to`"""
    R = ctx.rule("C13.conversion-path-reaches-target", "build_conversion_paths: for all index pairs the upgrade slice is (from, to] ascending and the downgrade slice is [to, from) descending — decided over every ordering of the two indices", floor=2)
    f = m2.fns.get("wow_m2::converter::M2Converter::build_conversion_paths")
    if f is None or not f.hir:
        ctx.bad(R, "build_conversion_paths|missing", "-", "function not found", "anchor gone")
        return
    ctx.saw_fn(f)
    body = f.hir["body"]
    # the version list length
    n = None
    for l in hirq.find(body, "let"):
        if l.get("init") is not None and hirq.strip(l["init"]).get("k") == "array":
            n = len(hirq.strip(l["init"])["es"])
    pushes = []

    def range_index(n_):
        for x in hirq.walk(n_):
            if x.get("k") == "index" and hirq.strip(x["i"]).get("k") in ("struct", "call") and re.search(r"Range", (hirq.strip(x["i"]).get("fn") or hirq.strip(x["i"]).get("res", {}).get("def", ""))):
                return hirq.strip(x["i"])
        return None
    for lp in hirq.find(body, "for"):
        rng = range_index(lp["iter"])
        if rng is None or not any(c.get("k") == "mcall" and c["m"] in ("push", "extend", "extend_from_slice") for c in hirq.walk(lp["body"])):
            continue
        rev = any(c.get("k") == "mcall" and c["m"] == "rev" for c in hirq.walk(lp["iter"]))
        pushes.append((lp, rng, rev))
    # the same paths built without an explicit loop: path.extend_from_slice(&versions[a..=b]) / path.extend(versions[a..b].iter().rev())
    for c in hirq.walk(body):
        if c.get("k") == "mcall" and c["m"] in ("extend", "extend_from_slice", "append") and c.get("args"):
            if any(c is x for lp, _r, _v in pushes for x in hirq.walk(lp["body"])):
                continue
            rng = range_index(c["args"][0])
            if rng is None:
                continue
            rev = any(x.get("k") == "mcall" and x["m"] == "rev" for x in hirq.walk(c["args"][0]))
            pushes.append((c, rng, rev))
    if n is None or len(pushes) < 2:
        ctx.bad(R, "build_conversion_paths|shape", f.where, "version list or the two slice loops not recognised (n=%s, loops=%d)" % (n, len(pushes)), "cannot decide the paths")
        return
    from .c10 import _ival, _NoEval
    from .c07 import enclosing_if_conditions

    def bounds(rng, env):
        """(lo, hi_exclusive) of a Range / RangeInclusive expression"""
        if rng.get("k") == "struct":
            fl = dict((a, b) for a, b in rng["fields"])
            return _ival(fl["start"], env, {}), _ival(fl["end"], env, {})
        if rng.get("k") == "call" and re.search(r"RangeInclusive(::<\w+>)?::new$", rng.get("fn") or ""):
            return _ival(rng["args"][0], env, {}), _ival(rng["args"][1], env, {}) + 1
        raise _NoEval(hirq.render(rng))
    idx_names = sorted({x["res"]["local"] for _, rng, _ in pushes for x in hirq.walk(rng) if x.get("k") == "path" and "local" in x["res"]})
    lets = {l["pat"]["name"]: hirq.render(l["init"]) for l in hirq.find(body, "let") if l["pat"].get("k") == "bind" and l.get("init") is not None}
    frm = next((nm for nm in idx_names if "from" in lets.get(nm, "")), None)
    to = next((nm for nm in idx_names if "to_" in lets.get(nm, "") or "to)" in lets.get(nm, "")), None)
    if not frm or not to or frm == to:
        ctx.bad(R, "build_conversion_paths|roles", f.where, "cannot tell the source index from the target index among %s" % idx_names, "cannot decide the paths")
        return
    for lp, rng, rev in pushes:
        conds = enclosing_if_conditions(body, lp)
        up = None
        for side, cd in conds:
            r_ = hirq.render(cd)
            if re.search(r"direction|>", r_):
                up = (side == "then") == bool(re.search(r"> 0|> %s|%s >" % (frm, to), r_))
        label = "upgrade" if not rev else "downgrade"
        bad = None
        checked = 0
        for a in range(n):
            for b in range(n):
                if a == b or abs(a - b) == 1:
                    continue          # identical / adjacent pairs take the direct path
                if (b > a) != (not rev):
                    continue
                try:
                    lo, hi = bounds(rng, {frm: a, to: b})
                except _NoEval as e:
                    ctx.bad(R, "build_conversion_paths|%s|opaque" % label, "%s:%d" % (f.file, lp["ln"]), "slice bounds `%s` not evaluable (%s)" % (hirq.render(rng)[:60], e), "cannot decide")
                    return
                seq = list(range(lo, hi))
                if rev:
                    seq.reverse()
                want = list(range(a + 1, b + 1)) if b > a else list(range(a - 1, b - 1, -1))
                checked += 1
                if seq != want and bad is None:
                    bad = (a, b, seq, want)
        if bad:
            a, b, seq, want = bad
            ctx.bad(R, "build_conversion_paths|%s" % label, "%s:%d" % (f.file, lp["ln"]), "%s path from index %d to %d visits %s; it must visit %s" % (label, a, b, seq, want),
                    "the multi-step conversion stops one version short of (or skips / overshoots) the requested target: convert(model, target) returns a model of another version")
        else:
            ctx.ok(R, {"direction": label, "slice": hirq.render(rng)[:60], "pairs_checked": checked})


def enumerate_index_rule(ctx, crate, pid, floor):
    """`for (i, x) in xs.iter().enumerate()`: when `i` is used as a position (multiplied by a stride, added to an offset, used as
    an index) it must count *all* elements: an adapter that drops or reorders elements before `enumerate()` (filter, skip_while,
    rev, ...) makes i the ordinal among the survivors, not the element's slot"""
    R = ctx.rule("%s.enumerate-index-counts-every-element" % pid, "no loop uses the index of `enumerate()` as a position when a filtering / reordering adapter precedes the `enumerate()`", floor=floor)
    DROP = ("filter", "filter_map", "skip", "skip_while", "step_by", "take_while", "rev", "flat_map", "flatten", "chain", "zip_longest", "dedup")

    def chain(body, e, depth=3):
        names = []
        cur = hirq.strip(e)
        while cur is not None:
            if cur.get("k") == "mcall":
                names.append(cur["m"])
                cur = hirq.strip(cur["recv"])
            elif cur.get("k") == "path" and "local" in cur["res"] and depth > 0:
                vals = hirq.local_values(body, cur["res"]["local"])
                if len(vals) == 1 and vals[0] is not None:
                    cur = hirq.strip(vals[0])
                    depth -= 1
                else:
                    break
            elif cur.get("k") == "call" and (cur.get("fn") or "").endswith("into_iter") and cur.get("args"):
                cur = hirq.strip(cur["args"][0])
            else:
                break
        return names
    for f in crate.fn_list:
        if not f.hir or f.kind == "Closure" or "::tests::" in f.path or "::test" in f.path:
            continue
        body = f.hir["body"]
        for lp in hirq.find(body, "for"):
            ch = chain(body, lp["iter"])
            if "enumerate" not in ch:
                continue
            inner = ch[ch.index("enumerate") + 1:]
            dropped = [a for a in inner if a in DROP]
            binds = hirq.pat_binds(lp["pat"])
            idx = binds[0] if binds else None
            inst = {"fn": f.path.split("::")[-1], "line": lp.get("ln"), "chain": list(reversed(ch))[:6]}
            if not dropped or idx is None:
                ctx.ok(R, inst) if len(ctx.samples) < 300 else (ctx.rules[R].__setitem__("obligations", ctx.rules[R]["obligations"] + 1), ctx.rules[R].__setitem__("discharged", ctx.rules[R]["discharged"] + 1))
                continue
            positional = [x for x in hirq.walk(lp["body"]) if (x.get("k") == "bin" and x["op"] in ("*", "+", "-", "<<") and any(y.get("k") == "path" and y["res"].get("local") == idx for y in hirq.walk(x))) or
                          (x.get("k") == "index" and any(y.get("k") == "path" and y["res"].get("local") == idx for y in hirq.walk(x.get("i") or x.get("idx") or {})))]
            if positional:
                ctx.bad(R, "%s|%s" % (f.path.split("::")[-1], idx), "%s:%d" % (f.file, lp.get("ln") or 0), "`%s` enumerates after `%s` and is used as a position: `%s`" % (idx, ", ".join(dropped), hirq.render(positional[0])[:70]),
                        "for collections where the adapter drops an element before the end, later elements are written to / read from the slot of an earlier one")
            else:
                ctx.ok(R, dict(inst, note="index of a filtered enumeration not used as a position"))


def _bone_index_validity_rule(ctx, m2):
    """M2Vertex::validate_bone_data rewrites a bone index it considers invalid to 0: the test must be exactly `index >= bone_count`
    for every index a byte can hold and every skeleton size (decided by evaluating each comparison that involves bone_count over
    idx in 0..=255 and bone counts around 255/256, with `as u8` truncation modelled)"""
    R = ctx.rule("C13.bone-index-validity-is-the-range-test", "every comparison of a vertex bone index with (a value derived from) bone_count in validate_bone_data is true exactly when index >= bone_count, for index 0..=255 and bone_count in {1,2,3,127,128,254,255,256,257,300,1000,65535,65536}", floor=2)
    from .c10 import _bval, _NoEval
    f = next((x for x in m2.fn_list if x.hir and x.kind != "Closure" and norm(x.path).endswith("chunks::vertex::M2Vertex::validate_bone_data")), None)
    if f is None:
        ctx.bad(R, "validate_bone_data|missing", "-", "function not found", "anchor gone")
        return
    ctx.saw_fn(f)
    body = f.hir["body"]
    lets = {l["pat"]["name"]: l["init"] for l in hirq.find(body, "let") if l["pat"].get("k") == "bind" and l.get("init") is not None}

    def mentions_count(e, depth=3):
        for y in hirq.walk(e):
            if y.get("k") == "path" and y["res"].get("local") == "bone_count":
                return True
            if y.get("k") == "path" and y["res"].get("local") in lets and depth > 0 and mentions_count(lets[y["res"]["local"]], depth - 1):
                return True
        return False
    n_cmp = 0
    for x in hirq.walk(body):
        if x.get("k") != "bin" or x["op"] not in ("<", "<=", ">", ">=") or not mentions_count(x):
            continue
        free = sorted({y["res"]["local"] for y in hirq.walk(x) if y.get("k") == "path" and "local" in y["res"] and y["res"]["local"] != "bone_count" and y["res"]["local"] not in lets})
        if len(free) != 1:
            continue
        el = free[0]
        n_cmp += 1
        try:
            bad = None
            env0 = {"__ty__": (lambda t_: m2.ty(t_))}
            invalid_form = not _bval(x, dict(env0, **{el: 0, "bone_count": 1}), lets)
            for n in (1, 2, 3, 127, 128, 254, 255, 256, 257, 300, 1000, 65535, 65536):
                for i in range(256):
                    got = _bval(x, dict(env0, **{el: i, "bone_count": n}), lets)
                    want = (i >= n) if invalid_form else (i < n)
                    if got != want and bad is None:
                        bad = (i, n, got)
            if bad:
                ctx.bad(R, "validate_bone_data|%s" % hirq.render(x)[:40], "%s:%d" % (f.file, x.get("ln") or 0), "`%s` is %s for index %d with %d bones" % (hirq.render(x)[:60], bad[2], bad[0], bad[1]),
                        "a valid bone reference is rewritten to bone 0 (or an invalid one kept) when the model is parsed: vertices attached to that bone come back attached to the root")
            else:
                ctx.ok(R, {"comparison": hirq.render(x)[:60], "form": "invalid-if" if invalid_form else "valid-if", "evaluations": 13 * 256})
        except _NoEval as e:
            ctx.bad(R, "validate_bone_data|not-evaluable", "%s:%d" % (f.file, x.get("ln") or 0), "`%s` not evaluable: %s" % (hirq.render(x)[:60], e), "shape changed")
    if n_cmp == 0:
        ctx.bad(R, "validate_bone_data|no-comparison", f.where, "no comparison between a bone index and bone_count found", "invalid indices are no longer detected, or the shape changed")


def _embedded_skin_width_rule(ctx, m2):
    """pre-WotLK models carry their skin views inside the M2 file.  Three routines name the element width of each view array:
    collect_embedded_skin_data (reads n * K bytes), M2Model::write (writes n = len / K) and parse_embedded_skin (slices n * K):
    per array the three K must be one number"""
    R = ctx.rule("C13.embedded-skin-element-widths-agree", "for indices / triangles / properties / batches the byte width per element is the same in collect_embedded_skin_data, M2Model::write and parse_embedded_skin", floor=4)
    byname = {}
    for f in m2.fn_list:
        if not f.hir or f.kind == "Closure":
            continue
        last = norm(f.path).split("::")[-1]
        if last == "collect_embedded_skin_data":
            ctx.saw_fn(f)
            for c_ in hirq.calls(f.hir["body"]):
                if re.search(r"read_counted_bytes$|read_raw|read_exact", c_.get("fn") or "") and len(c_.get("args") or []) >= 3:
                    nm = hirq.render(c_["args"][1])
                    k = hirq.lit_int(hirq.strip(c_["args"][2]))
                    m_ = re.fullmatch(r"n_(\w+)", nm)
                    if m_ and k is not None:
                        byname.setdefault(m_.group(1), {})["reader collect_embedded_skin_data"] = (k, f, c_.get("ln"))
        elif last in ("write", "parse_embedded_skin") and ("M2Model" in f.path):
            for l in hirq.find(f.hir["body"], "let"):
                if l["pat"].get("k") != "bind" or l.get("init") is None:
                    continue
                r_ = hirq.render(l["init"])
                m1 = re.fullmatch(r"\(*\(*skin\.(\w+)\.len\(\) / (\d+)\)* as _\)*", r_)
                m2_ = re.fullmatch(r"\(*\(*n_\w+ as _\)* \* (\d+)\)*", r_) if re.fullmatch(r"(\w+)_size", l["pat"]["name"]) else None
                if m1 and last == "write":
                    byname.setdefault(m1.group(1), {})["writer M2Model::write"] = (int(m1.group(2)), f, l.get("ln"))
                elif m2_ and last == "parse_embedded_skin":
                    byname.setdefault(l["pat"]["name"][:-5], {})["extractor parse_embedded_skin"] = (int(m2_.group(1)), f, l.get("ln"))
    # the submesh record changed width between versions: the three routines must pick the width by the same version table
    from .c10 import _ival as _iv, _NoEval as _NE
    tabs = {}
    for f in m2.fn_list:
        if not f.hir or f.kind == "Closure":
            continue
        last = norm(f.path).split("::")[-1]
        if last not in ("collect_embedded_skin_data", "write", "parse_embedded_skin") or (last != "collect_embedded_skin_data" and "M2Model" not in f.path):
            continue
        for l in hirq.find(f.hir["body"], "let"):
            if l["pat"].get("k") == "bind" and l.get("init") is not None and re.search(r"submesh_size", l["pat"]["name"]) and hirq.strip(l["init"]).get("k") == "if" and "version" in hirq.render(l["init"]):
                try:
                    tabs[(last, l.get("ln"))] = (tuple(_iv(l["init"], {"__leaf__": (lambda r_, v=v: v if r_.endswith("version") else None)}, {}) for v in (256, 257, 259, 260, 261, 263, 264, 272)), f)
                except _NE:
                    pass
    if len(tabs) >= 2:
        ref = None
        for (who, ln), (tab, f) in sorted(tabs.items()):
            if who == "collect_embedded_skin_data":
                ref = tab
        ref = ref or sorted(tabs.values(), key=lambda v: v[0])[0][0]
        for (who, ln), (tab, f) in sorted(tabs.items()):
            if tab == ref:
                ctx.ok(R, {"array": "submeshes", "routine": who, "width_by_version_256_257_259_260_261_263_264_272": tab})
            else:
                ctx.bad(R, "embedded-skin|submeshes|%s" % who, "%s:%d" % (f.file, ln or 0), "%s takes the submesh width %s for versions 256,257,259,260,261,263,264,272; the reader takes %s" % (who, tab, ref),
                        "for the version where they differ the submesh count written into the view header does not match the bytes stored: the submesh block comes back with the wrong length or parsing fails")
    if not byname:
        ctx.bad(R, "embedded-skin|missing", "-", "no element widths recognised", "anchor gone")
        return
    for arr, srcs in sorted(byname.items()):
        if len(srcs) < 2:
            continue
        ks = {v[0] for v in srcs.values()}
        if len(ks) == 1:
            ctx.ok(R, {"array": arr, "width": ks.pop(), "named_by": sorted(srcs)})
        else:
            ref = srcs.get("reader collect_embedded_skin_data") or sorted(srcs.values(), key=lambda v: v[0])[0]
            who, (k, f, ln) = next((w, v) for w, v in sorted(srcs.items()) if v[0] != ref[0])
            ctx.bad(R, "embedded-skin|%s|%s" % (arr, who.split()[-1]), "%s:%d" % (f.file, ln or 0), "%s counts `%s` at %d bytes per element, %s" % (who, arr, k, ", ".join("%s at %d" % (w, v[0]) for w, v in sorted(srcs.items()) if w != who)),
                    "the count written into the view header does not match the bytes stored: a pre-WotLK model written by the library loses (or misreads) that array when parsed back")


def vacuous_position_test_rule(ctx, crate, pid, floor):
    """`let end = r.seek(SeekFrom::End(0))?; if end > r.stream_position()? {..}`: the stream is *at* the end when the position is
    re-read, so the comparison is a constant — whatever it was meant to detect (trailing optional fields) is never detected.
    Counted instances: every seek-to-end whose result is bound; judged: a comparison of that value with stream_position() on the
    same reader with no repositioning in between."""
    R = ctx.rule("%s.end-position-not-compared-with-itself" % pid, "no comparison of a bound `seek(SeekFrom::End(0))` result with `stream_position()` of the same reader without a seek in between", floor=floor)
    for f in crate.fn_list:
        if not f.hir or f.kind == "Closure" or "::tests::" in f.path:
            continue
        for blk in [x for x in hirq.walk(f.hir["body"]) if x.get("k") == "block"]:
            stmts = list(blk.get("stmts") or []) + ([blk["e"]] if blk.get("e") is not None else [])
            for i, st in enumerate(stmts):
                if not (st.get("k") == "let" and st["pat"].get("k") == "bind" and st.get("init") is not None):
                    continue
                init = hirq.strip(st["init"])
                mc = next((y for y in hirq.walk(init) if y.get("k") == "mcall" and y["m"] == "seek" and "SeekFrom::End(0)" in hirq.render(y)), None)
                if mc is None:
                    continue
                rdr = hirq.render(mc["recv"])
                name = st["pat"]["name"]
                verdict = None
                for st2 in stmts[i + 1:]:
                    cmp_ = next((y for y in hirq.walk(st2.get("c") if st2.get("k") == "if" else st2) if y.get("k") == "bin" and y["op"] in ("<", "<=", ">", ">=", "==", "!=") and
                                 any(z.get("k") == "path" and z["res"].get("local") == name for z in hirq.walk(y)) and
                                 any(z.get("k") == "mcall" and z["m"] == "stream_position" and hirq.render(z["recv"]) == rdr for z in hirq.walk(y))), None) if isinstance(st2, dict) else None
                    if cmp_ is not None:
                        verdict = (cmp_, st2)
                        break
                    if any(z.get("k") == "mcall" and z["m"] in ("seek", "read_exact", "read", "rewind", "seek_relative") or (z.get("k") == "mcall" and re.match(r"read_", z["m"])) for z in hirq.walk(st2)):
                        break           # repositioned / consumed: a later comparison is meaningful
                if verdict:
                    ctx.bad(R, "%s|%s" % (f.path.split("::")[-1], name), "%s:%d" % (f.file, verdict[0].get("ln") or 0), "`%s` compares the end position with the position re-read right after seeking to the end" % hirq.render(verdict[0])[:70],
                            "the test is constant: the optional trailing fields it guards are never read although the writer emits them — they are lost on write -> parse")
                else:
                    ctx.ok(R, {"fn": f.path.split("::")[-1], "end_position": name})


def _anim_entry_offset_rule(ctx, m2):
    """the entry table of a modern .anim file records where each section *was written*: the offset stored for a section is a
    stream position captured around its write (or a sum of byte counts actually written), never a running total of the entries'
    `size` fields — those cover the section header and bone table only, not the key-frame data behind them"""
    R = ctx.rule("C13.anim-entry-offsets-are-captured-positions", "every value assigned to an AnimEntry `.offset` in AnimFile::write_modern derives from stream_position() and from no `.size` field", floor=1)
    f = next((x for x in m2.fn_list if x.hir and x.kind != "Closure" and re.search(r"anim::AnimFile::write(_modern)?$", norm(x.path)) and any(a.get("k") == "assign" and hirq.render(hirq.strip(a["l"])).endswith(".offset") for a in hirq.walk(x.hir["body"]))), None)
    if f is None:
        ctx.bad(R, "write_modern|missing", "-", "no `.offset =` assignment found in AnimFile::write(_modern)", "anchor gone")
        return
    ctx.saw_fn(f)
    body = f.hir["body"]
    for a in [a for a in hirq.walk(body) if a.get("k") == "assign" and hirq.render(hirq.strip(a["l"])).endswith(".offset")]:
        if hirq.lit_int(hirq.strip(a["r"])) is not None:
            continue                      # placeholder
        leaves = [("?" if v is None else hirq.render(v)) for v in hirq.value_leaves(body, a["r"], depth=5)]
        from_size = [l for l in leaves if re.search(r"\.size\b", l)]
        captured = [l for l in leaves if "stream_position" in l]
        if from_size or not captured:
            ctx.bad(R, "write_modern|offset-not-captured", "%s:%d" % (f.file, a.get("ln") or 0), "`%s` is built from %s" % (hirq.render(a)[:60], ", ".join(from_size or leaves)[:90]),
                    "every section after one that carries key-frame data gets an offset that is too small: the written file does not parse back (InvalidMagic at the wrong place)")
        else:
            ctx.ok(R, {"assignment": hirq.render(a)[:60], "from": captured[:2]})


def run(ctx):
    prog = ctx.prog
    m2 = prog.crate(CR)
    R_pair = ctx.rule("C13.parse-write-wire-agreement", "for every linear parse/write pair the writer's wire signature equals the reader's at every version of the domain", floor=55)
    R_size = ctx.rule("C13.record-size-constants", "each record-size constant in M2Model::write equals the computed width of that record's writer at every version", floor=3)

    enumerate_index_rule(ctx, m2, "C13", floor=20)
    _bone_index_validity_rule(ctx, m2)
    _embedded_skin_width_rule(ctx, m2)
    _anim_entry_offset_rule(ctx, m2)
    vacuous_position_test_rule(ctx, m2, "C13", floor=2)
    from .c15 import prealloc_cap_rule
    prealloc_cap_rule(ctx, [m2], "C13", floor=10)
    _relocation_rule(ctx, m2)
    _conversion_path_rule(ctx, m2)
    _track_skip_rule(ctx, m2)
    _section_reset_rule(ctx, m2)
    _reloc_map_covers_written_rule(ctx, m2)
    _no_struct_sizeof_rule(ctx, m2)
    _anim_entry_size_rule(ctx, m2)
    _anim_legacy_pair_rule(ctx, m2)
    by_owner = owners(m2)
    armed = 0
    for owner, fs in sorted(by_owner.items()):
        r = fs.get("parse") or fs.get("read") or fs.get("from_reader")
        w = fs.get("write") or fs.get("to_writer")
        if not r or not w:
            continue
        # delegation: parse() that only forwards to another function of the same type
        rt, _ = wire.extract(m2, r, "r")
        if len(rt) == 1 and rt[0].k == "S" and rt[0].kind:
            callee = next((f for f in m2.fn_list if norm(f.path) == norm(rt[0].kind) and f.hir), None)
            if callee is not None and norm(callee.path).rsplit("::", 1)[0] == owner:
                r = callee
        if wire.check_pair(ctx, R_pair, m2, r, w, owner, fields=struct_fields(m2, owner)):
            armed += 1

    # literal element sizes in section layout: `offset += list.len() * K` — K is the width the element's writer emits
    widths = Widths(m2, by_owner)
    R_lit = ctx.rule("C13.layout-advance-equals-element-width", "every `offset += self.LIST.len() * K` in a writer advances by the byte width of LIST's element writer (primitive size or computed record width)", floor=4)
    PRIM = {"u8": 1, "i8": 1, "u16": 2, "i16": 2, "u32": 4, "i32": 4, "f32": 4, "u64": 8, "i64": 8, "f64": 8}
    for f in m2.fn_list:
        if f.kind == "Closure" or not f.hir or "::tests::" in f.path or not re.search(r"::write(_\w+)?$", norm(f.path)):
            continue
        for x in hirq.walk(f.hir["body"]):
            if x.get("k") != "assignop" or not x["op"].startswith("+"):
                continue
            r_ = hirq.strip(x["r"])
            while r_.get("k") == "cast" or (r_.get("k") == "block" and not r_.get("stmts") and r_.get("e")):
                r_ = hirq.strip(r_["e"])
            if not (r_.get("k") == "bin" and r_["op"] == "*"):
                continue
            a_, b_ = hirq.strip(r_["l"]), hirq.strip(r_["r"])
            lenx, kx = (a_, b_) if a_.get("k") == "mcall" and a_["m"] == "len" else ((b_, a_) if b_.get("k") == "mcall" and b_["m"] == "len" else (None, None))
            if lenx is None:
                continue
            k_lit = hirq.lit_int(kx)
            lty = m2.ty(hirq.strip(lenx["recv"]).get("t")) or ""
            m_ = re.search(r"Vec<([\w:]+)", lty)
            if not m_:
                continue
            elem = m_.group(1)
            if k_lit is None:
                # size_of::<T>() of the element's own primitive type is right by construction
                if re.search(r"size_of", hirq.render(kx)):
                    ctx.ok(R_lit, {"fn": norm(f.path), "list": hirq.render(lenx["recv"])[:40], "per_element": hirq.render(kx)[:40]})
                continue
            want = PRIM.get(elem)
            if want is None:
                toks = widths.writer_tokens(norm(elem))
                want = widths.width(toks, {}) if toks else None
            if want is None:
                ctx.note_unarmed(R_lit, "%s:%s" % (norm(f.path), hirq.render(lenx["recv"])[:30]), "element width of %s not computable" % elem)
                continue
            ctx.saw_fn(f)
            if want == k_lit:
                ctx.ok(R_lit, {"fn": norm(f.path), "list": hirq.render(lenx["recv"])[:40], "per_element": k_lit, "element": elem.split("::")[-1]})
            else:
                ctx.bad(R_lit, "%s|%s|element-size" % (norm(f.path).split("::")[-2] + "::" + norm(f.path).split("::")[-1], hirq.render(lenx["recv"])[-30:]), "%s:%d" % (f.file, x["ln"]),
                        "`%s` advances %d bytes per element, but %s::write emits %d" % (hirq.render(x)[:70], k_lit, elem.split("::")[-1], want),
                        "every section laid out after this one gets an offset that is %d bytes per element off: it parses back from the wrong bytes" % abs(want - k_lit))

    # record-size constants
    mw = m2.fns.get("wow_m2::model::M2Model::write")
    if mw is None or not mw.hir:
        ctx.bad(R_size, "M2Model::write|missing", "-", "function not found", "anchor gone")
        return
    ctx.saw_fn(mw)
    lets = {}
    for l in hirq.find(mw.hir["body"], "let"):
        if l["pat"].get("k") == "bind" and l.get("init") is not None and l["pat"]["name"] in SIZE_VARS:
            lets.setdefault(l["pat"]["name"], l)
    for var, owner in SIZE_VARS.items():
        l = lets.get(var)
        if l is None:
            ctx.note_unarmed(R_size, var, "size local not found in M2Model::write")
            continue
        toks = widths.writer_tokens(owner)
        if toks is None:
            ctx.note_unarmed(R_size, var, "writer of %s not found" % owner)
            continue
        ths = set()
        thresholds(l["init"], ths)
        for a in wire.version_atoms(toks):
            if isinstance(a[2], int):
                ths.add(a[2])
        for sub in [t for t in toks if t.k == "S"]:
            st = widths.writer_tokens(norm(sub.sub or ""))
            if st:
                for a in wire.version_atoms(st):
                    if isinstance(a[2], int):
                        ths.add(a[2])
        domain = sorted({256} | {k - 1 for k in ths} | ths | {k + 1 for k in ths})
        bad = None
        checked = []
        for v in domain:
            if v < 256:
                continue
            atoms = set()

            def collect(ts, depth=0):
                for a in wire.version_atoms(ts):
                    atoms.add(a)
                if depth < 4:
                    for t in ts:
                        if t.k == "S":
                            st_ = widths.writer_tokens(norm(t.sub or ""))
                            if st_:
                                collect(st_, depth + 1)
                        if t.arms:
                            for a_ in t.arms:
                                collect(a_, depth + 1)
            collect(toks)
            asg = {}
            for a in atoms:
                if isinstance(a[2], int):
                    asg[a] = {">=": v >= a[2], "<": v < a[2], "==": v == a[2], "!=": v != a[2]}.get(a[1])
            declared = eval_version_expr(l["init"], v)
            computed = widths.width(toks, asg)
            if declared is None or computed is None:
                continue
            checked.append((v, declared, computed))
            if declared != computed and bad is None:
                bad = (v, declared, computed)
        if bad:
            ctx.bad(R_size, "M2Model::write|%s" % var, "%s:%d" % (mw.file, l["ln"]),
                    "`%s` is %d at header version %d but %s::write emits %d bytes" % (var, bad[1], bad[0], owner.split("::")[-1], bad[2]),
                    "every (count, offset) pair written after this section points at the wrong place: the file does not re-parse to the same content")
        elif checked:
            ctx.ok(R_size, {"constant": var, "type": owner.split("::")[-1], "versions": checked})
        else:
            ctx.note_unarmed(R_size, var, "width not computable (variable-length member)")


def run_extra(ctx):
    """rules armed after run(): they need nothing from run()'s locals"""
    m2 = ctx.prog.crate("wow_m2")
    # (1) an emptiness guard is about what its block writes: `if !self.X.is_empty() { .. }` in model.rs mentions self.X again inside
    # the guarded block (a guard copied from the neighbouring section and left on the neighbour's data writes this section's
    # key-frames only when the *other* section has some)
    R_g = ctx.rule("C13.emptiness-guard-names-what-its-block-writes", "in model.rs every `if [!]self.<field path>.is_empty()` guard's live block reads that same field path again", floor=30)
    for f in m2.fn_list:
        if f.kind == "Closure" or not f.hir or "::tests::" in f.path or not f.file.endswith("wow-m2/src/model.rs"):
            continue
        for n in hirq.find(f.hir["body"], "if"):
            c = hirq.strip(n["c"])
            neg = False
            if c.get("k") == "un" and c.get("op") == "Not":
                neg, c = True, hirq.strip(c["e"])
            if not (c.get("k") == "mcall" and c["m"] == "is_empty" and not c.get("args")):
                continue
            subj = hirq.render(c["recv"])
            if not subj.startswith("self."):
                continue
            blk = n["then"] if neg else n.get("else")
            if blk is None:
                continue
            ctx.saw_fn(f)
            fields = [hirq.render(x) for x in hirq.walk(blk) if x.get("k") == "field"]
            inst = {"fn": norm(f.path).split("::")[-1], "guard": subj}
            if any(subj == r_ or r_.startswith(subj + ".") or subj in r_ for r_ in fields):
                ctx.ok(R_g, inst) if len(ctx.samples) < 380 else (ctx.rules[R_g].__setitem__("obligations", ctx.rules[R_g]["obligations"] + 1), ctx.rules[R_g].__setitem__("discharged", ctx.rules[R_g]["discharged"] + 1))
            else:
                sib = sorted({r_ for r_ in fields if r_.startswith("self.") and r_.rsplit(".", 1)[0] == subj.rsplit(".", 1)[0] and r_ != subj})
                ctx.bad(R_g, "%s|%s|guard-subject-unused" % (inst["fn"], subj.split(".")[-1]), "%s:%d" % (f.file, n.get("ln") or 0),
                        "the block guarded by `%s%s.is_empty()` never reads %s (it reads %s)" % ("!" if neg else "", subj, subj, ", ".join(sib[:3]) or "other data"),
                        "whether this section's data is written depends on whether a *different* collection is empty: a model that has the one and not the other loses the section's key-frames (or writes an empty section as populated)")
    # (2) the header size used to lay out the file is the size of the header *as written*: M2Model::write clears some optional
    # header references on its copy before serialising it; the size calculation must not count a field on the strength of the
    # model's own (uncleared) header
    R_h = ctx.rule("C13.header-size-counts-the-header-as-written", "calculate_header_size reads no header field that M2Model::write resets (`header.<f> = None`) on the copy it serialises", floor=2)
    wr = next((x for x in m2.fn_list if x.hir and x.kind != "Closure" and norm(x.path).endswith("model::M2Model::write")), None)
    cs = next((x for x in m2.fn_list if x.hir and x.kind != "Closure" and norm(x.path).endswith("model::M2Model::calculate_header_size")), None)
    if wr is None or cs is None:
        ctx.bad(R_h, "header-size|missing", "-", "M2Model::write / calculate_header_size not found", "anchor gone")
        return
    ctx.saw_fn(wr)
    ctx.saw_fn(cs)
    cleared = set()
    for a in hirq.find(wr.hir["body"], "assign"):
        l_ = hirq.strip(a["l"])
        r_ = hirq.strip(a["r"])
        if l_.get("k") == "field" and hirq.strip(l_["e"]).get("k") == "path" and r_.get("k") == "path" and (r_["res"].get("def") or "").endswith("Option::None") and re.search(r"M2Header", m2.ty(hirq.strip(l_["e"]).get("t")) or ""):
            cleared.add(l_["name"])
    read = {x["name"] for x in hirq.walk(cs.hir["body"]) if x.get("k") == "field" and re.search(r"M2Header", m2.ty(hirq.strip(x["e"]).get("t")) or "")}
    if not cleared:
        ctx.bad(R_h, "header-size|no-cleared-fields", wr.where, "no `header.<field> = None` found in M2Model::write", "shape changed")
    for fl in sorted(cleared):
        if fl in read:
            ctx.bad(R_h, "header-size|counts|%s" % fl, cs.where, "calculate_header_size consults `header.%s`, which write() sets to None on the header it serialises" % fl,
                    "for a model whose header carries that optional reference (a parsed or converted model) every array offset is laid out past bytes the header never contains: name, sequences, bones, vertices are read from the wrong place after write -> parse")
        else:
            ctx.ok(R_h, {"cleared_in_write": fl, "read_by_size": False})
