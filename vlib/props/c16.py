"""C16 — BLP encode→parse is exact (structure).

Header codec agreement per scenario: for each (BlpVersion, flags variant, mipmap locator variant)
that the format allows, the byte sequence `encode_header` emits has the same primitive widths,
order and named fields as `parse_header` (+ parse_mipmap_locator) consumes; content dispatch
covers every BlpContent variant on both sides; the mipmap locator has 16 offsets + 16 sizes on
both sides.
"""
import re

from .. import hirq, wire
from ..rules import norm

META = {
    "level": "other",
    "technique": "scenario-wise evaluation of the header writer/reader wire signatures (typed HIR; version × flags variant × locator variant) + variant-coverage of the content dispatchers",
    "claim": "Decides header layout agreement between encode_header and parse_header for BLP0/BLP1/BLP2, that every BlpContent variant is dispatched by both the encoder and the parser, and that the locator tables have equal entry counts. Does not decide pixel exactness, offset non-overlap or mipmap-count arithmetic (value-level). Also: bit-plane lengths round up and sibling parsers agree; the (compression, alpha_type) written selects the stored content variant in the parser; every mip-level bound reaches the last level. Wave 5: the header parser keeps every alpha depth the encoder can write (evaluated per content kind); mip levels are resampled with an exact-size call; halving clamps are evaluated, not matched as text. Wave 6: image_to_raw3 packs a<<24|r<<16|g<<8|b for every pixel with no value-dependent control flow. Wave 7: mipmap_size halves each side independently down to 1 (576 evaluations); the RAW3 unpacker reads the packed layout; the alpha-plane unpackers (1/4/8 bit) read the bit positions the packers' loop structure writes. Wave 8: the 4-bit alpha quantiser picks the nearest level of the unpacker's expansion (256 values, float-aware evaluation).",
    "note": "Trusted: push_le_u32/Vec::push/extend widths; ByteReader primitive names.",
    "assumptions": ["BLP0 ⇒ external mipmaps, BLP1/2 ⇒ internal; BLP2 ⇔ BlpFlags::Blp2"],
    "explanation": "wow_blp::encode::encode_header vs wow_blp::parser::header::{parse_header, parse_magic, parse_mipmap_locator}; encode_content / parse_content match arms over BlpContent(Tag).",
}

VERS = ["Blp0", "Blp1", "Blp2"]


class BlpEx(wire.Extractor):
    def classify(self, n):
        name = n.get("m") if n.get("k") == "mcall" else (n.get("fn") or "").split("::")[-1]
        if self.mode == "w":
            if name == "push_le_u32":
                t = wire.Tok("P", w=4, kind="u", name=self.field_name(n["args"][0]), ln=n["ln"])
                return [t]
            if name == "push" and n.get("k") == "mcall" and "Vec<u8>" in (self.ty(hirq.strip(n["recv"])) or self.crate.ty(n.get("rt")) or ""):
                return [wire.Tok("P", w=1, kind="u", name=self.field_name(n["args"][0]), ln=n["ln"])]
            if name == "extend" and n.get("k") == "mcall" and "Vec<u8>" in (self.crate.ty(n.get("rt")) or ""):
                w = wire.ty_width(self.ty(hirq.strip(n["args"][0])) or "")
                return [wire.Tok("B", w=w, ln=n["ln"])]
        else:
            if name == "read_u32_array" and len(n["args"]) == 2 and hirq.lit_int(n["args"][1]) is not None:
                t = wire.Tok("REP", arms=[[wire.Tok("P", w=4, kind="u", ln=n["ln"])]], cond="read_u32_array", ln=n["ln"])
                t.count = hirq.lit_int(n["args"][1])
                return [t]
            if name in ("parse_magic", "parse_mipmap_locator"):
                callee = next((f for f in self.crate.fn_list if norm(f.path).endswith("header::" + name) and f.hir), None)
                if callee is not None:
                    sub = BlpEx(self.crate, "r")
                    return sub.emit(callee.hir["body"])
        return super().classify(n)


def pick(toks, scen):
    out = []
    for t in toks:
        if t.k == "ALT":
            c = t.cond
            arm = None
            if c[0] == "ver" and isinstance(c[2], str) and c[2] in VERS:
                v, k = VERS.index(scen["version"]), VERS.index(c[2])
                truth = {">=": v >= k, "<": v < k, ">": v > k, "<=": v <= k, "==": v == k, "!=": v != k}.get(c[1])
                arm = t.arms[0] if truth else (t.arms[1] if len(t.arms) > 1 else [])
            elif c[0] == "match" and isinstance(t.name, list):
                want = scen["flags"] if "flags" in c[1] else scen["locator"] if "locator" in c[1] else None
                if want in t.name:
                    arm = t.arms[t.name.index(want)]
            elif c[0] == "opaque" and re.search(r"let Old", c[1]):
                arm = t.arms[0] if scen["flags"] == "Old" else (t.arms[1] if len(t.arms) > 1 else [])
            if arm is None:
                # unknown condition: keep if all arms equal, else mark
                rend = {wire.strip_names(wire.flat(a)) for a in t.arms}
                if len(rend) == 1:
                    arm = t.arms[0]
                else:
                    nt = wire.Tok("ALT", cond=c, arms=[pick(a, scen) for a in t.arms], ln=t.ln)
                    out.append(nt)
                    continue
            out += pick(arm, scen)
        elif t.k == "REP":
            body = pick(t.arms[0], scen)
            if t.count is not None and t.count <= 32:
                for _ in range(t.count):
                    out += body
            elif body:
                nt = wire.Tok("REP", arms=[body], cond=t.cond, ln=t.ln)
                nt.count = t.count
                out.append(nt)
        else:
            out.append(t)
    return out


def _alpha_depth_rule(ctx, blp):
    """BLP0/BLP1 header: the parser replaces an alpha depth it considers non-standard by 0.  Every depth the encoder can write for
    a content kind (the values of `From<AlphaBits> for u32`; 0 and 8 for JPEG) must pass unchanged — decided by evaluating the
    parser's `alpha_bits` expression for every raw value 0..=16 under both content tags"""
    R = ctx.rule("C16.header-keeps-every-alpha-depth-the-encoder-writes", "parse_header's alpha_bits(raw, content) == raw for every raw the encoder can emit: {0,1,4,8} for direct content, {0,8} for JPEG", floor=2)
    from .c10 import _ival, _bval, _NoEval
    ph = next((f for f in blp.fn_list if f.hir and f.kind != "Closure" and norm(f.path).endswith("parser::header::parse_header")), None)
    conv = [f for f in blp.fn_list if f.hir and re.search(r"From<.*AlphaBits>.*for u32>::from$|<u32 as .*From<.*AlphaBits>>::from$", f.path)]
    if ph is None:
        ctx.bad(R, "parse_header|missing", "-", "function not found", "anchor gone")
        return
    ctx.saw_fn(ph)
    depths = set()
    for f in conv:
        for m_ in hirq.find(f.hir["body"], "match"):
            for a_ in m_["arms"]:
                v = hirq.lit_int(hirq.strip(a_["body"]))
                if v is not None:
                    depths.add(v)
    if len(depths) < 2:
        depths = {0, 1, 4, 8}
    let = next((l for l in hirq.find(ph.hir["body"], "let") if l["pat"].get("k") == "bind" and l["pat"]["name"] == "alpha_bits" and l.get("init") is not None and hirq.strip(l["init"]).get("k") == "if"), None)
    if let is None:
        ctx.bad(R, "parse_header|shape", ph.where, "no `let alpha_bits = if ..` found", "shape changed")
        return

    def ev(n, env):
        n = hirq.strip(n)
        if n.get("k") == "if":
            return ev(n["then"] if _bval(n["c"], env, {}) else n["else"], env)
        if n.get("k") == "block":
            return ev(n["e"], env)          # (log statements have no effect on the value)
        return _ival(n, env, {})
    TAGS = {"Jpeg": 0, "Direct": 1}
    try:
        for tag, want in (("Direct", sorted(depths)), ("Jpeg", [0, 8])):
            lost = []
            for raw in range(0, 17):
                env = {"content": TAGS[tag], "alpha_bits_raw": raw, "__leaf__": (lambda r_: TAGS.get(r_)), "__fns__": {g.path: g for g in blp.fn_list if g.hir and g.kind != "Closure"}}
                if ev(let["init"], env) != raw and raw in want:
                    lost.append(raw)
            if lost:
                ctx.bad(R, "parse_header|alpha-depth|%s" % tag, "%s:%d" % (ph.file, let.get("ln") or 0), "for %s content the header parser replaces the alpha depth(s) %s by 0" % (tag.lower(), lost),
                        "an image encoded with that alpha depth parses back with alpha depth 0: its alpha plane is dropped and the decoded image is opaque, with no error")
            else:
                ctx.ok(R, {"content": tag, "depths_kept": want})
    except _NoEval as e:
        ctx.bad(R, "parse_header|not-evaluable", "%s:%d" % (ph.file, let.get("ln") or 0), "alpha_bits expression not evaluable: %s" % e, "shape changed")



def _depth_branch(dec_body, W):
    """the code raw1_to_image runs for alpha depth W: the `then` of `if alpha_bits == W` (either operand order), or the arm `W =>` of a
    `match alpha_bits { .. }`"""
    for n in hirq.find(dec_body, "if"):
        c = hirq.strip(n["c"])
        if c.get("k") == "bin" and c["op"] == "==":
            l_, r_ = hirq.strip(c["l"]), hirq.strip(c["r"])
            for a_, b_ in ((l_, r_), (r_, l_)):
                if a_.get("k") == "path" and re.search(r"alpha_bits$", hirq.render(a_)) and hirq.const_int(b_) == W:
                    return n["then"]
    for m in hirq.find(dec_body, "match"):
        if re.search(r"alpha_bits$", hirq.render(hirq.strip(m["e"]))):
            for a in m["arms"]:
                p = a["pat"]
                if p.get("k") == "lit" and (p.get("v") or {}).get("int") == W:
                    return a["body"]
    return None


def _alpha_plane_rule(ctx, blp):
    """palettised (RAW1) alpha planes: the packer lays pixel k's W-bit alpha at bit W*(k mod 8/W) of byte k div (8/W) (shift counter
    advanced by W per pixel, new byte at 8, value OR-ed in shifted by the counter); the unpacker must read it from there.  The packer's
    layout is derived from its loop structure, the unpacker's expressions are evaluated for pixels 0..15 over bytes packed that way"""
    R = ctx.rule("C16.alpha-plane-unpacker-reads-the-packers-layout", "for alpha depths 1, 4 and 8: the bit position index_alpha_<W>bit gives pixel k (from its counter step, reset and shift) is where raw1_to_image's branch for that depth reads pixel k's alpha (k in 0..16; 4 byte patterns)", floor=3)
    from .c10 import _ival, _bval, _NoEval
    dec = next((x for x in blp.fn_list if x.hir and x.kind != "Closure" and norm(x.path).endswith("convert::raw1::raw1_to_image")), None)
    if dec is None:
        ctx.bad(R, "raw1_to_image|missing", "-", "function not found", "anchor gone")
        return
    ctx.saw_fn(dec)
    for W in (1, 4, 8):
        enc = next((x for x in blp.fn_list if x.hir and x.kind != "Closure" and norm(x.path).endswith("convert::raw1::index_alpha_%dbit" % W)), None)
        if enc is None:
            ctx.bad(R, "index_alpha_%dbit|missing" % W, "-", "function not found", "anchor gone")
            continue
        ctx.saw_fn(enc)
        key = "alpha%d" % W
        # --- packer layout from structure
        if W == 8:
            pushes = [n for n in hirq.walk(enc.hir["body"]) if n.get("k") == "mcall" and n["m"] == "push" and n.get("args")]
            # (`res.extend(pixels.map(|p| p[3]))` appends the same bytes as a push loop)
            ext = [n for n in hirq.walk(enc.hir["body"]) if n.get("k") == "mcall" and n["m"] == "extend" and n.get("args")
                   and any(c_.get("k") == "closure" and re.search(r"\[3\]\s*\}?$", hirq.render(c_["body"]).rstrip(" }")) for c_ in hirq.walk(n["args"][0]))]
            if len(ext) == 1 and not pushes:
                pushes = [{"args": [{"k": "path", "res": {"local": "pixel[3]"}}]}]
            if len(pushes) != 1 or not re.search(r"\[3\]$", hirq.render(pushes[0]["args"][0])):
                ctx.bad(R, key + "|packer-shape", enc.where, "8-bit packer does not push pixel[3] once per pixel", "shape changed")
                continue
            step, lsb_first = 8, True
        else:
            ors = [n for n in hirq.walk(enc.hir["body"]) if n.get("k") == "assignop" and n.get("op") in ("|=", "BitOr", "|") and hirq.strip(n["l"]).get("k") == "index"]
            if len(ors) != 1:
                ctx.bad(R, key + "|packer-shape", enc.where, "no single `res[i] |= ..` found (%d)" % len(ors), "shape changed")
                continue
            sh = next((x for x in hirq.walk(ors[0]["r"]) if x.get("k") == "bin" and x["op"] == "<<" and hirq.strip(x["r"]).get("k") == "path"), None)
            cnt = hirq.strip(sh["r"])["res"].get("local") if sh is not None else None
            adds = [n for n in hirq.walk(enc.hir["body"]) if n.get("k") == "assignop" and n.get("op") in ("+=", "Add", "+") and hirq.strip(n["l"]).get("k") == "path" and hirq.strip(n["l"])["res"].get("local") == cnt]
            def resets_at_8(c_, cnt=cnt):
                """the counter test fires when the counter has reached 8 and not one step before (whatever the spelling)"""
                try:
                    return bool(cnt) and cnt in hirq.render(c_) and _bval(c_, {cnt: 8}, {}) and not _bval(c_, {cnt: 4}, {}) and not _bval(c_, {cnt: 7}, {})
                except _NoEval:
                    return False
            rst = next((n for n in hirq.find(enc.hir["body"], "if") if cnt and resets_at_8(n["c"])
                        and any(a.get("k") == "assign" and hirq.render(a["l"]) == cnt and hirq.lit_int(hirq.strip(a["r"])) == 0 for a in hirq.walk(n["then"]))
                        and any(a.get("k") == "mcall" and a["m"] == "push" for a in hirq.walk(n["then"]))), None)
            if cnt is None or len(adds) != 1 or hirq.lit_int(hirq.strip(adds[0]["r"])) is None or rst is None:
                ctx.bad(R, key + "|packer-shape", enc.where, "shift counter, its single `+= W` or its `>= 8` reset (with a new byte pushed) not recognised", "shape changed")
                continue
            step, lsb_first = hirq.lit_int(hirq.strip(adds[0]["r"])), True
            if step != W:
                ctx.bad(R, key + "|packer-step", "%s:%d" % (enc.file, adds[0].get("ln") or 0), "the %d-bit packer advances its shift counter by %d per pixel" % (W, step), "neighbouring pixels overlap or leave gaps in the plane: the unpacker reads other pixels' bits")
                continue
        # --- unpacker branch for this depth
        br = _depth_branch(dec.hir["body"], W)
        lp = next((l for l in hirq.find(br, "for") if "pixels_mut()" in hirq.render(l["iter"])), None) if br is not None else None
        if lp is None:
            ctx.bad(R, key + "|unpacker-shape", dec.where, "branch `alpha_bits == %d` with its pixel loop not found" % W, "shape changed")
            continue
        asg = next((a for a in hirq.walk(lp["body"]) if a.get("k") == "assign" and re.search(r"\[3\]$", hirq.render(a["l"]))), None)
        lets = {l["pat"]["name"]: l["init"] for l in hirq.find(lp["body"], "let") if l["pat"].get("k") == "bind" and l.get("init") is not None}
        ivar = next((b for b in hirq.pat_binds(lp["pat"]) if b != "pixel"), "i")
        if asg is None:
            ctx.bad(R, key + "|unpacker-shape", dec.where, "no assignment to the alpha channel (`..[3] = ..`) in the loop", "shape changed")
            continue
        per = 8 // step
        try:
            bad = None
            for pat_ in (0x00, 0xFF, 0xA5, 0x3C):
                # alpha values per pixel, W bits each, derived from a byte pattern so that neighbours differ
                vals = [((pat_ >> ((k * 3) % 8)) | (pat_ << (8 - (k * 3) % 8))) & ((1 << W) - 1) for k in range(16)]
                plane = [0] * (16 // per + 1)
                for k, v in enumerate(vals):
                    plane[k // per] |= (v << (step * (k % per))) & 0xFF
                for k in range(16):
                    env = {ivar: k, "__ty__": (lambda t_: blp.ty(t_))}
                    # indexed_alpha[<expr>] : the index is evaluated first, then the byte is looked up in the packed plane
                    got = _eval_with_plane(asg["r"], env, lets, plane, _ival, _bval)
                    want = {1: 255 if vals[k] else 0, 4: (vals[k] << 4) | vals[k], 8: vals[k]}[W]
                    if got != want and bad is None:
                        bad = (k, pat_, got, want)
            if bad:
                ctx.bad(R, key + "|position", "%s:%d" % (dec.file, asg.get("ln") or 0), "pixel %d (plane packed from pattern 0x%02X): the unpacker yields alpha %d, the packed value means %d" % bad,
                        "the %d-bit alpha plane is read at other bit positions than it is written: decoded alpha belongs to a neighbouring pixel" % W)
            else:
                ctx.ok(R, {"depth": W, "packer": "step %d, LSB first, new byte at 8" % step, "unpacker": hirq.render(asg["r"])[:50], "pixels": 16, "patterns": 4})
        except _NoEval as e:
            ctx.bad(R, key + "|not-evaluable", "%s:%d" % (dec.file, asg.get("ln") or 0), "alpha expression not evaluable: %s" % e, "shape changed")



def _numval(n, env, lets, ty, depth=0):
    """value of a numeric expression with Rust semantics for the float <-> integer steps a quantiser uses: `as f64/f32`,
    float arithmetic (IEEE double = Python float; f32 results are rounded to single), round/floor/ceil/trunc, and `as uN`
    (truncation toward zero, saturating).  env: rendered leaf -> value; locals resolve through their `let`"""
    import math
    import struct
    n = hirq.strip(n)
    if depth > 14:
        raise ValueError("depth")
    r = hirq.render(n)
    if r in env:
        return env[r]
    k = n.get("k")
    t = ty(n.get("t")) or ""

    def f32(x):
        return struct.unpack("f", struct.pack("f", x))[0] if t == "f32" and isinstance(x, float) else x
    if k == "lit":
        v = n["v"]
        if "float" in v:
            return f32(float(str(v["float"]).replace("_", "").rstrip("f3264").rstrip("_") or 0))
        if "int" in v:
            return float(v["int"]) if t in ("f32", "f64") else int(v["int"])
    if k == "path" and "local" in n["res"]:
        nm = n["res"]["local"]
        if nm in lets:
            return _numval(lets[nm], env, lets, ty, depth + 1)
        raise ValueError(nm)
    if k == "block" and not n.get("stmts") and n.get("e") is not None:
        return _numval(n["e"], env, lets, ty, depth + 1)
    if k == "cast":
        v = _numval(n["e"], env, lets, ty, depth + 1)
        if t in ("f64", "f32"):
            return f32(float(v))
        m_ = re.fullmatch(r"([ui])(8|16|32|64|size)", t)
        if m_:
            bits = 64 if m_.group(2) == "size" else int(m_.group(2))
            lo, hi = (0, (1 << bits) - 1) if m_.group(1) == "u" else (-(1 << (bits - 1)), (1 << (bits - 1)) - 1)
            if isinstance(v, float):
                if math.isnan(v):
                    return 0
                return max(lo, min(hi, int(math.trunc(v))))          # float -> int `as` saturates
            v &= (1 << bits) - 1                                      # int -> int `as` truncates
            return v - (1 << bits) if m_.group(1) == "i" and v > hi else v
        raise ValueError("cast to " + t)
    if k == "bin":
        a, b = _numval(n["l"], env, lets, ty, depth + 1), _numval(n["r"], env, lets, ty, depth + 1)
        op = n["op"]
        if isinstance(a, float) or isinstance(b, float):
            if op == "/" and b == 0:
                raise ValueError("division by zero")
            return f32({"+": a + b, "-": a - b, "*": a * b, "/": a / b if op == "/" else 0.0}[op]) if op in "+-*/" else (_ for _ in ()).throw(ValueError(op))
        if op in ("/", "%") and b == 0:
            raise ValueError("division by zero")
        tab = {"+": a + b, "-": a - b, "*": a * b, "/": a // b if b else 0, "%": a % b if b else 0, "&": a & b, "|": a | b, "^": a ^ b,
               "<<": a << b if 0 <= b < 64 else 0, ">>": a >> b if 0 <= b < 64 else 0}
        if op not in tab:
            raise ValueError(op)
        v = tab[op]
        m_ = re.fullmatch(r"u(8|16|32|64)", t)
        if m_ and op == "<<":
            v &= (1 << int(m_.group(1))) - 1
        return v
    if k == "mcall" and not n.get("args") and n["m"] in ("round", "floor", "ceil", "trunc"):
        v = _numval(n["recv"], env, lets, ty, depth + 1)
        if n["m"] == "round":                                        # Rust rounds half away from zero
            return float(math.floor(abs(v) + 0.5)) * (1.0 if v >= 0 else -1.0)
        return float({"floor": math.floor, "ceil": math.ceil, "trunc": math.trunc}[n["m"]](v))
    if k == "mcall" and n["m"] in ("min", "max", "clamp") and n.get("args"):
        vs = [_numval(n["recv"], env, lets, ty, depth + 1)] + [_numval(a, env, lets, ty, depth + 1) for a in n["args"]]
        return min(vs) if n["m"] == "min" else max(vs) if n["m"] == "max" else max(vs[1], min(vs[2], vs[0]))
    if k == "call" and (n.get("fn") or "").endswith("::from") and len(n.get("args") or []) == 1:
        v = _numval(n["args"][0], env, lets, ty, depth + 1)
        return float(v) if t in ("f32", "f64") else v
    if k == "if":
        raise ValueError("conditional")
    raise ValueError(r[:50])


def _alpha_quantiser_rule(ctx, blp):
    """"alpha is the source alpha quantised to the declared depth": where the packer rescales the 8-bit alpha to W bits (W = 4), the
    level it stores must be the one the *unpacker's* expansion brings closest to the source value.  Both sides are read from the
    code: the stored level q(a) is the value OR-ed into the plane (evaluated for every a in 0..=255 with Rust's float / cast
    semantics), the expansion d(v) is the unpacker's alpha expression for a plane holding v.  Required: |d(q(a)) - a| = min_v |d(v) - a|."""
    from .c10 import _ival, _bval, _NoEval
    R = ctx.rule("C16.alpha-quantiser-picks-the-nearest-level-of-the-unpacker", "for the 4-bit palettised alpha: for every source alpha 0..=255 the level index_alpha_4bit stores is, after raw1_to_image's expansion, a level nearest to the source (256 evaluations against the 16 expanded levels)", floor=1)
    dec = next((x for x in blp.fn_list if x.hir and x.kind != "Closure" and norm(x.path).endswith("convert::raw1::raw1_to_image")), None)
    enc = next((x for x in blp.fn_list if x.hir and x.kind != "Closure" and norm(x.path).endswith("convert::raw1::index_alpha_4bit")), None)
    if dec is None or enc is None:
        ctx.bad(R, "alpha4|missing", "-", "index_alpha_4bit / raw1_to_image not found", "anchor gone")
        return
    ctx.saw_fn(enc)
    W = 4
    ors = [n for n in hirq.walk(enc.hir["body"]) if n.get("k") == "assignop" and n.get("op") in ("|=", "BitOr", "|") and hirq.strip(n["l"]).get("k") == "index"]
    lp = next((l for l in hirq.find(enc.hir["body"], "for") if ors and any(x is ors[0] for x in hirq.walk(l["body"]))), None)
    if len(ors) != 1 or lp is None:
        ctx.bad(R, "alpha4|packer-shape", enc.where, "no single `res[i] |= ..` inside a pixel loop", "shape changed")
        return
    sh = next((x for x in hirq.walk(ors[0]["r"]) if x.get("k") == "bin" and x["op"] == "<<"), None)
    if sh is None:
        ctx.bad(R, "alpha4|packer-shape", enc.where, "the OR-ed value is not `<level> << <counter>`", "shape changed")
        return
    level = sh["l"]
    pix = next((b for b in hirq.pat_binds(lp["pat"])), "pixel")
    elets = {l["pat"]["name"]: l["init"] for l in hirq.find(lp["body"], "let") if l["pat"].get("k") == "bind" and l.get("init") is not None}
    # the unpacker's expansion of a stored level v (plane byte holding v in its low nibble, pixel 0)
    br = _depth_branch(dec.hir["body"], W)
    dlp = next((l for l in hirq.find(br, "for") if "pixels_mut()" in hirq.render(l["iter"])), None) if br is not None else None
    asg = next((a for a in hirq.walk(dlp["body"]) if a.get("k") == "assign" and re.search(r"\[3\]$", hirq.render(a["l"]))), None) if dlp is not None else None
    if asg is None:
        ctx.bad(R, "alpha4|unpacker-shape", dec.where, "branch `alpha_bits == 4` with its alpha assignment not found", "shape changed")
        return
    dlets = {l["pat"]["name"]: l["init"] for l in hirq.find(dlp["body"], "let") if l["pat"].get("k") == "bind" and l.get("init") is not None}
    ivar = next((b for b in hirq.pat_binds(dlp["pat"]) if b != "pixel"), "i")
    try:
        levels = [_eval_with_plane(asg["r"], {ivar: 0, "__ty__": (lambda t_: blp.ty(t_))}, dlets, [v, 0], _ival, _bval) for v in range(1 << W)]
    except _NoEval as e:
        ctx.bad(R, "alpha4|not-evaluable", dec.where, "unpacker expansion not evaluable: %s" % e, "shape changed")
        return
    worst = None
    try:
        for a in range(256):
            q = _numval(level, {"%s[3]" % pix: a, "%s.0[3]" % pix: a}, elets, blp.ty)
            if not isinstance(q, int) or not 0 <= q < (1 << W):
                worst = (a, q, None, None)
                break
            err = abs(levels[q] - a)
            best = min(abs(lv - a) for lv in levels)
            if err != best and (worst is None or err - best > worst[2] - worst[3]):
                worst = (a, q, err, best)
    except ValueError as e:
        ctx.bad(R, "alpha4|not-evaluable", "%s:%d" % (enc.file, ors[0].get("ln") or 0), "stored level `%s` not evaluable: %s" % (hirq.render(level)[:60], e), "shape changed")
        return
    if worst is None:
        ctx.ok(R, {"depth": W, "stored_level": hirq.render(elets.get(hirq.render(level), level))[:70], "expanded_levels": levels, "sources": 256})
    elif worst[2] is None:
        ctx.bad(R, "alpha4|level-out-of-range", "%s:%d" % (enc.file, ors[0].get("ln") or 0), "source alpha %d is stored as level %r, outside 0..15" % (worst[0], worst[1]), "the level spills into the neighbouring pixel's nibble")
    else:
        ctx.bad(R, "alpha4|not-nearest", "%s:%d" % (enc.file, ors[0].get("ln") or 0),
                "source alpha %d is stored as level %d, which the unpacker expands to %d (off by %d) although level %d would be off by %d" % (
                    worst[0], worst[1], levels[worst[1]], worst[2], min(range(len(levels)), key=lambda v: abs(levels[v] - worst[0])), worst[3]),
                "decoded alpha is not the source alpha quantised to the declared depth: the packer's scale (or rounding) is not the inverse of the unpacker's expansion")


def _eval_with_plane(expr, env, lets, plane, _ival, _bval):
    """_ival with `X.indexed_alpha[e]` answered from the packed plane (e evaluated first)"""
    from .c10 import _NoEval
    cache = {}

    def leaf(r_):
        return cache.get(r_)
    # pre-evaluate every index expression into the plane
    work = [expr] + list(lets.values())
    for root in work:
        for n in hirq.walk(root):
            if n.get("k") == "index" and "indexed_alpha" in hirq.render(n["e"] if "e" in n else n.get("base") or {}):
                ix = n.get("i") or n.get("idx") or n.get("index")
                v = _ival(ix, dict(env), lets)
                if not 0 <= v < len(plane):
                    raise _NoEval("plane index %d out of range" % v)
                cache[hirq.render(n)] = plane[v]
    e2 = dict(env)
    e2["__leaf__"] = leaf
    e = hirq.strip(expr)
    if e.get("k") == "if":
        return _ival(e["then"] if _bval(e["c"], e2, lets) else e["else"], e2, lets) & 0xFF
    return _ival(expr, e2, lets) & 0xFF


def _mip_size_rule(ctx, blp):
    """level i of a w x h texture is max(w >> i, 1) x max(h >> i, 1): each side halves on its own and stops at 1 (an 8x2 texture has
    levels 8x2, 4x1, 2x1, 1x1).  BlpHeader::mipmap_size is what every parser and decoder takes the level geometry from; it is evaluated
    here for all small shapes"""
    R = ctx.rule("C16.mip-level-size-halves-each-side-independently", "BlpHeader::mipmap_size(i) == (max(w >> i, 1), max(h >> i, 1)) for w, h in {1,2,3,4,8,16,64,100} and i in 0..=8 (576 evaluations)", floor=1)
    from .c10 import _ival, _bval, _NoEval
    f = next((x for x in blp.fn_list if x.hir and x.kind != "Closure" and norm(x.path).endswith("header::BlpHeader::mipmap_size")), None)
    if f is None:
        ctx.bad(R, "mipmap_size|missing", "-", "function not found", "anchor gone")
        return
    ctx.saw_fn(f)
    pn = [b for p_ in f.hir["params"] for b in hirq.pat_binds(p_)]
    ivar = next((p_ for p_ in pn if p_ != "self"), None)

    def tup(n, env, lets):
        n = hirq.strip(n)
        if n.get("k") == "block":
            lets = dict(lets)
            for st in n.get("stmts") or []:
                st = hirq.strip(st)
                if st.get("k") == "let" and st["pat"].get("k") == "bind" and st.get("init") is not None:
                    lets[st["pat"]["name"]] = st["init"]
                elif st.get("k") == "if" and any(x.get("k") == "ret" for x in hirq.walk(st["then"])) and _bval(st["c"], env, lets):
                    r_ = next(x for x in hirq.walk(st["then"]) if x.get("k") == "ret")
                    return tup(r_["e"], env, lets)
            if n.get("e") is None:
                raise _NoEval("block without value")
            return tup(n["e"], env, lets)
        if n.get("k") == "if":
            return tup(n["then"] if _bval(n["c"], env, lets) else n["else"], env, lets)
        if n.get("k") == "ret":
            return tup(n["e"], env, lets)
        if n.get("k") == "match":
            from .c10 import _match_arm
            return tup(_match_arm(n, env, lets, 0), env, lets)
        if n.get("k") == "tup" and len(n["es"]) == 2:
            return tuple(_ival(e, env, lets) for e in n["es"])
        if n.get("k") == "path" and (n.get("res") or {}).get("local") in lets:
            return tup(lets[n["res"]["local"]], env, lets)
        raise _NoEval("not a pair: " + hirq.render(n)[:40])
    try:
        bad, n_ev = None, 0
        for w in (1, 2, 3, 4, 8, 16, 64, 100):
            for h in (1, 2, 3, 4, 8, 16, 64, 100):
                for i in range(0, 9):
                    leaf = lambda r_, w=w, h=h: w if re.search(r"\.width$", r_) else (h if re.search(r"\.height$", r_) else None)
                    got = tup(f.hir["body"], {ivar: i, "__leaf__": leaf, "__ty__": (lambda t_: blp.ty(t_))}, {})
                    n_ev += 1
                    want = (max(w >> i, 1), max(h >> i, 1))
                    if got != want and bad is None:
                        bad = (w, h, i, got, want)
        if bad:
            ctx.bad(R, "mipmap_size|level-geometry", f.where, "a %dx%d texture: level %d is given as %s, halving each side down to 1 gives %s" % bad,
                    "parsers and decoders read the deep levels of elongated textures with the wrong geometry: the parsed texture differs from the encoded one although the file is right")
        else:
            ctx.ok(R, {"fn": "mipmap_size", "evaluations": n_ev})
    except _NoEval as e:
        ctx.bad(R, "mipmap_size|not-evaluable", f.where, "level size not evaluable: %s" % e, "shape changed")


def _raw3_unpack_rule(ctx, blp):
    """the RAW3 decoder takes the four channels back out of the word the packer laid them in: for sample words, [r,g,b,a] read by
    raw3_to_image are the bytes the packer's layout puts there (bits 16..23, 8..15, 0..7, 24..31)"""
    R = ctx.rule("C16.raw3-unpack-reads-the-packed-layout", "raw3_to_image assigns each pixel [c>>16 & 255, c>>8 & 255, c & 255, c>>24] of its word c (8 sample words; per-channel assignments accepted), with no value-dependent control flow in the loop", floor=1)
    from .c10 import _ival, _NoEval
    f = next((x for x in blp.fn_list if x.hir and x.kind != "Closure" and norm(x.path).endswith("convert::raw3::raw3_to_image")), None)
    if f is None:
        ctx.bad(R, "raw3_to_image|missing", "-", "function not found", "anchor gone")
        return
    ctx.saw_fn(f)
    lp = next((l for l in hirq.find(f.hir["body"], "for") if "pixels_mut()" in hirq.render(l["iter"])), None)
    if lp is None:
        ctx.bad(R, "raw3_to_image|shape", f.where, "no `for .. in ..pixels_mut()` loop found", "shape changed")
        return
    ctl = [x for x in hirq.walk(lp["body"]) if x.get("k") in ("if", "match", "continue", "break", "ret") and not x.get("x")]
    if ctl:
        ctx.bad(R, "raw3_to_image|value-dependent", "%s:%d" % (f.file, ctl[0].get("ln") or 0), "the per-pixel loop contains `%s`" % hirq.render(ctl[0])[:50], "pixels the condition selects are not decoded as stored")
        return
    lets = {l["pat"]["name"]: l["init"] for l in hirq.find(lp["body"], "let") if l["pat"].get("k") == "bind" and l.get("init") is not None}
    # channel expressions: one array assignment `pixel.0 = [r, g, b, a]` or four indexed assignments `pixel.0[k] = ..` / `pixel[k] = ..`
    chans = {}
    for a in hirq.walk(lp["body"]):
        if a.get("k") != "assign":
            continue
        r_ = hirq.strip(a["r"])
        l_ = hirq.strip(a["l"])
        if r_.get("k") == "array" and len(r_.get("es") or []) == 4:
            for k_, e_ in enumerate(r_["es"]):
                chans[k_] = e_
        elif l_.get("k") == "index" and hirq.lit_int(hirq.strip(l_.get("i") or l_.get("idx") or {})) is not None:
            chans[hirq.lit_int(hirq.strip(l_.get("i") or l_.get("idx")))] = a["r"]
    if sorted(chans) != [0, 1, 2, 3]:
        ctx.bad(R, "raw3_to_image|shape", f.where, "the four channel assignments were not recognised (%s)" % sorted(chans), "shape changed")
        return
    # the word: the local read from `.pixels[..]`
    word = next((nm for nm, init in lets.items() if re.search(r"\.pixels\[", hirq.render(init))), None)
    try:
        bad = None
        for c in (0x00000000, 0x01020304, 0xFF000000, 0x00FF0000, 0x0000FF00, 0x000000FF, 0x80C0E0F0, 0xFFFFFFFF):
            env = {"__ty__": (lambda t_: blp.ty(t_))}
            if word is not None:
                env[word] = c
            else:
                env["__leaf__"] = (lambda r_, c=c: c if re.search(r"\.pixels\[", r_) else None)
            got = tuple(_ival(chans[k_], env, {k2: v2 for k2, v2 in lets.items() if k2 != word}) & 0xFF for k_ in range(4))
            want = ((c >> 16) & 255, (c >> 8) & 255, c & 255, (c >> 24) & 255)
            if got != want and bad is None:
                bad = (c, got, want)
        if bad:
            ctx.bad(R, "raw3_to_image|unpacking", "%s:%d" % (f.file, lp.get("ln") or 0), "word 0x%08X is decoded as rgba %s; the packed layout holds %s" % bad, "channels come back exchanged or shifted: the decoded image differs from the encoded one")
        else:
            ctx.ok(R, {"channels": [hirq.render(chans[k_])[:30] for k_ in range(4)], "samples": 8})
    except _NoEval as e:
        ctx.bad(R, "raw3_to_image|not-evaluable", f.where, "channel expression not evaluable: %s" % e, "shape changed")


def _raw3_pack_rule(ctx, blp):
    """raw BGRA (RAW3) is pixel-exact: the packer lays the four channels of *every* pixel into the 32-bit word, whatever their
    values — no pixel is special-cased (a fully transparent pixel still carries its colour)"""
    R = ctx.rule("C16.raw3-packs-every-pixel-verbatim", "image_to_raw3's per-pixel loop has no value-dependent control flow and pushes a<<24 | r<<16 | g<<8 | b for 8 sample pixels (including alpha 0 with colour)", floor=1)
    from .c10 import _ival, _NoEval
    f = next((x for x in blp.fn_list if x.hir and x.kind != "Closure" and norm(x.path).endswith("convert::raw3::image_to_raw3")), None)
    if f is None:
        ctx.bad(R, "image_to_raw3|missing", "-", "function not found", "anchor gone")
        return
    ctx.saw_fn(f)
    lp = next((l for l in hirq.find(f.hir["body"], "for") if "pixels()" in hirq.render(l["iter"])), None)
    if lp is None:
        ctx.bad(R, "image_to_raw3|shape", f.where, "no `for pixel in ..pixels()` loop found", "shape changed")
        return
    ctl = [x for x in hirq.walk(lp["body"]) if x.get("k") in ("if", "match", "continue", "break", "ret") and not x.get("x")]
    if ctl:
        ctx.bad(R, "image_to_raw3|value-dependent", "%s:%d" % (f.file, ctl[0].get("ln") or lp.get("ln") or 0), "the per-pixel loop contains `%s`" % hirq.render(ctl[0])[:50],
                "pixels the condition selects are not stored as they are: the decoded image differs from the source in those pixels (e.g. fully transparent pixels lose their colour)")
        return
    push = next((x for x in hirq.walk(lp["body"]) if x.get("k") == "mcall" and x["m"] == "push" and x.get("args")), None)
    pv = (hirq.pat_binds(lp["pat"]) or [None])[0]
    if push is None or pv is None:
        ctx.bad(R, "image_to_raw3|shape", f.where, "no push of the packed word found", "shape changed")
        return
    lets = {l["pat"]["name"]: l["init"] for l in hirq.find(lp["body"], "let") if l["pat"].get("k") == "bind" and l.get("init") is not None}
    packed = push["args"][0]
    # the packing may live in a helper that is handed the pixel: evaluate the helper's body (and hold it to the same no-control-flow rule)
    byp = {x.path: x for x in blp.fn_list if x.hir and x.kind != "Closure"}
    for _ in range(3):
        pe = hirq.strip(packed)
        g = byp.get(pe.get("fn")) if pe.get("k") == "call" else None
        if g is None or not all(hirq.strip(a_).get("k") in ("path", "ref") for a_ in pe.get("args") or []):
            break
        ctx.saw_fn(g)
        ctl = [x for x in hirq.walk(g.hir["body"]) if x.get("k") in ("if", "match", "continue", "break", "ret") and not x.get("x")]
        if ctl:
            ctx.bad(R, "image_to_raw3|value-dependent", "%s:%d" % (g.file, ctl[0].get("ln") or 0), "the per-pixel packer `%s` contains `%s`" % (g.path.split("::")[-1], hirq.render(ctl[0])[:50]),
                    "pixels the condition selects are not stored as they are: the decoded image differs from the source in those pixels (e.g. fully transparent pixels lose their colour)")
            return
        gb = hirq.strip(g.hir["body"])
        lets = {l["pat"]["name"]: l["init"] for l in hirq.find(gb, "let") if l["pat"].get("k") == "bind" and l.get("init") is not None}
        packed = gb.get("e") if gb.get("k") == "block" and gb.get("e") is not None else gb
    try:
        bad = None
        for (r, g, b, a) in ((0, 0, 0, 0), (255, 1, 2, 0), (1, 2, 3, 4), (255, 255, 255, 255), (16, 32, 64, 128), (0, 0, 0, 255), (200, 0, 0, 0), (7, 77, 177, 1)):
            leaf = lambda r_, ch=(r, g, b, a): ch[int(r_[-2])] if re.search(r"\[\d\]$", r_) else None
            got = _ival(packed, {"__leaf__": leaf, "__ty__": (lambda t_: blp.ty(t_))}, lets) & 0xFFFFFFFF
            want = (a << 24) | (r << 16) | (g << 8) | b
            if got != want and bad is None:
                bad = ((r, g, b, a), got, want)
        if bad:
            ctx.bad(R, "image_to_raw3|packing", "%s:%d" % (f.file, push.get("ln") or 0), "pixel %s is packed as 0x%08X, BGRA order gives 0x%08X" % bad, "the decoded pixel differs from the source pixel")
        else:
            ctx.ok(R, {"packed": hirq.render(packed)[:60], "samples": 8})
    except _NoEval as e:
        ctx.bad(R, "image_to_raw3|not-evaluable", f.where, "packed word not evaluable: %s" % e, "shape changed")


def run(ctx):
    prog = ctx.prog
    blp = prog.crate("wow_blp")
    R_hdr = ctx.rule("C16.header-codec-agreement", "for BLP0/1/2 the header bytes encode_header emits are what parse_header consumes (widths, order, named fields)", floor=3)
    R_disp = ctx.rule("C16.content-dispatch-covers-variants", "every BlpContent variant is handled by the encoder and the parser dispatch", floor=2)
    _alpha_depth_rule(ctx, blp)
    _raw3_pack_rule(ctx, blp)
    _raw3_unpack_rule(ctx, blp)
    _mip_size_rule(ctx, blp)
    _alpha_plane_rule(ctx, blp)
    _alpha_quantiser_rule(ctx, blp)

    enc = next((f for f in blp.fn_list if norm(f.path) == "wow_blp::encode::encode_header"), None)
    par = next((f for f in blp.fn_list if norm(f.path) == "wow_blp::parser::header::parse_header"), None)
    if enc is None or par is None:
        ctx.bad(R_hdr, "header|missing", "-", "encode_header or parse_header not found", "anchor gone")
    else:
        ctx.saw_fn(enc)
        ctx.saw_fn(par)
        wt = BlpEx(blp, "w").emit(enc.hir["body"])
        rt = BlpEx(blp, "r").emit(par.hir["body"])
        for ver, flags, loc in (("Blp0", "Old", "External"), ("Blp1", "Old", "Internal"), ("Blp2", "Blp2", "Internal")):
            scen = {"version": ver, "flags": flags, "locator": loc}
            w_ = [t for t in pick(wt, scen)]
            r_ = [t for t in pick(rt, scen)]
            # error-only alternatives on the writer side (size limits) carry no bytes
            w_ = [t for t in w_ if not (t.k == "ALT" and not any(a for a in t.arms))]
            r_ = [t for t in r_ if not (t.k == "ALT" and not any(a for a in t.arms))]
            d = wire.compare(r_, w_, fields={"width", "height", "alpha_bits", "extra", "has_mipmaps", "compression", "alpha_type", "content"})
            names_r = [wire.norm_name(re.sub(r"_(raw|value|field)$", "", t.name)) for t in r_ if t.k == "P" and t.name]
            names_w = [wire.norm_name(t.name) for t in w_ if t.k == "P" and t.name]
            order_bad = None
            common = [n for n in names_r if n in names_w]
            common_w = [n for n in names_w if n in names_r]
            if common != common_w:
                order_bad = (common, common_w)
            key = "header|%s" % ver
            if d:
                ctx.bad(R_hdr, key, "%s / %s" % (par.where, enc.where), "%s: %s" % d[0], "a %s header is parsed differently than it was encoded" % ver)
            elif order_bad:
                ctx.bad(R_hdr, key + "|order", enc.where, "parser reads fields in order %s, encoder writes %s" % order_bad, "equal-width header fields swap on round-trip")
            else:
                ctx.ok(R_hdr, {"scenario": scen, "bytes": sum((t.w or 0) for t in w_ if t.k in ("P", "B")), "layout": wire.strip_names(wire.flat(w_))[:100]})

    # sub-byte planes: bit counts are converted to byte counts by rounding up, identically in sibling parsers
    R_bits = ctx.rule("C16.bit-planes-round-up", "every byte length computed from `pixels * alpha_bits` rounds up (div_ceil / +7), and the sibling Raw1 parsers use the same expression", floor=2)
    plane = []
    for f in blp.fn_list:
        if not f.hir or "::tests::" in f.path:
            continue
        # closures are folded into their parent's HIR
        if f.kind == "Closure":
            continue
        for x in hirq.walk(f.hir["body"]):
            r_ = None
            if x.get("k") == "mcall" and x["m"] in ("div_ceil", "div_floor", "checked_div", "wrapping_div") and "alpha_bits" in hirq.render(x["recv"]):
                r_ = (x["m"] == "div_ceil" and hirq.lit_int(x["args"][0]) == 8, hirq.render(x))
            elif x.get("k") == "bin" and x["op"] in ("/", ">>") and "alpha_bits" in hirq.render(x["l"]) and hirq.lit_int(x["r"]) in (8, 3):
                rounds = bool(re.search(r"\+ 7\)", hirq.render(x["l"])))
                r_ = (rounds, hirq.render(x))
            if r_ is None:
                continue
            ctx.saw_fn(f)
            plane.append((f, x["ln"], r_[1]))
            if r_[0]:
                ctx.ok(R_bits, {"fn": norm(f.path), "line": x["ln"], "expr": r_[1][:80]})
            else:
                ctx.bad(R_bits, "%s|truncating-bit-plane" % norm(f.path), "%s:%d" % (f.file, x["ln"]), "`%s` truncates a bit count to bytes" % r_[1][:80],
                        "when pixels*alpha_bits is not a multiple of 8 (1/4-bit alpha on small or odd-sized levels) the last alpha byte the encoder wrote is not read: the parsed level differs from the encoded one")
    exprs = {re.sub(r"\b\w*header\b", "H", e) for _, _, e in plane}
    if len(plane) >= 2 and len(exprs) > 1:
        ctx.bad(R_bits, "raw1-siblings|plane-length", plane[0][0].where, "sibling parsers compute the alpha plane length differently: %s" % sorted(exprs), "BLP0 and BLP1/2 palettised levels are sized by different rules")

    # codec tags: what image_to_blp writes into (compression, alpha_type) selects, in the parser, the same content variant
    R_tag = ctx.rule("C16.codec-tags-select-written-content", "for every BLP2 target, parser(compression, alpha_type) of the header image_to_blp builds is the BlpContent variant it stores", floor=4)
    conv = next((f for f in blp.fn_list if norm(f.path) == "wow_blp::convert::image_to_blp" and f.hir), None)
    pd = next((f for f in blp.fn_list if f.hir and f.kind != "Closure" and norm(f.path).startswith("wow_blp::parser::direct::")
               and any((x.get("fn") or "").endswith("Error::Blp2UnknownAlphaType") for x in hirq.calls(f.hir["body"]))), None)
    if conv is None or pd is None:
        ctx.bad(R_tag, "codec-tags|missing", "-", "image_to_blp or the BLP2 direct-content dispatcher not found", "anchor gone")
    else:
        ctx.saw_fn(conv)
        ctx.saw_fn(pd)
        # parser table: (compression variant, alpha_type variant or None=any) -> content variant
        ptab = []
        for m in hirq.find(pd.hir["body"], "match"):
            if hirq.render(m["e"]) != "compression":
                continue
            for arm in m["arms"]:
                pat = arm["pat"]
                guard = arm.get("guard")
                if pat.get("k") == "guard":
                    guard, pat = pat.get("g"), pat.get("sub")
                comp = (hirq.pat_ctor(pat) or "").split("::")[-1]
                at = None
                if guard is not None:
                    g = hirq.strip(guard)
                    if g.get("k") == "bin" and g["op"] == "==":
                        at = hirq.render(g["r"]) if "alpha_type" in hirq.render(g["l"]) else hirq.render(g["l"])
                    else:
                        at = "?"
                res = None
                for x in hirq.walk(arm["body"]):
                    if x.get("k") == "call" and re.search(r"BlpContent::(\w+)$", x.get("fn") or ""):
                        res = x["fn"].split("::")[-1]
                ptab.append((comp, at, res))

        def parser_of(comp, at):
            for c_, a_, r_ in ptab:
                if c_ == comp and (a_ is None or a_ == at):
                    return r_
            return None
        body = conv.hir["body"]

        def possible(n, depth=0):
            """set of enum-variant names an expression may evaluate to"""
            n = hirq.strip(n)
            k = n.get("k")
            if depth > 6:
                return {"?"}
            if k == "path" and "def" in n["res"]:
                return {n["res"]["def"].split("::")[-1]}
            if k == "if":
                out = possible(n["then"], depth + 1)
                return out | (possible(n["else"], depth + 1) if n.get("else") is not None else {"?"})
            if k == "block":
                return possible(n["e"], depth + 1) if n.get("e") else {"?"}
            if k == "match":
                out = set()
                for a in n["arms"]:
                    out |= possible(a["body"], depth + 1)
                return out
            if k == "path" and "local" in n["res"]:
                nm = n["res"]["local"]
                out = set()
                for l in hirq.find(body, "let"):
                    if l.get("init") is None:
                        continue
                    if l["pat"].get("k") == "bind" and l["pat"]["name"] == nm:
                        out |= possible(l["init"], depth + 1)
                    elif l["pat"].get("k") == "tuple":
                        names = [s_.get("name") for s_ in l["pat"]["subs"]]
                        if nm in names:
                            i_ = names.index(nm)

                            def tup(e, d):
                                e = hirq.strip(e)
                                if e.get("k") == "tup":
                                    return possible(e["es"][i_], d + 1)
                                if e.get("k") == "if":
                                    return tup(e["then"], d + 1) | (tup(e["else"], d + 1) if e.get("else") is not None else {"?"})
                                if e.get("k") == "block" and e.get("e"):
                                    return tup(e["e"], d + 1)
                                return {"?"}
                            out |= tup(l["init"], depth + 1)
                return out or {"?"}
            return {"?"}
        for lit in hirq.find(body, "struct"):
            if not lit["res"].get("def", "").endswith("BlpImage"):
                continue
            flds = dict((a, b) for a, b in lit["fields"])
            content = None
            for x in hirq.walk(flds.get("content")):
                if x.get("k") == "call" and re.search(r"BlpContent::(\w+)$", x.get("fn") or ""):
                    content = x["fn"].split("::")[-1]
            flags = next((x for x in hirq.walk(flds.get("header")) if x.get("k") == "struct" and x["res"].get("def", "").endswith("BlpFlags::Blp2")), None)
            if flags is None or content is None:
                continue
            ff = dict((a, b) for a, b in flags["fields"])
            comps = possible(ff.get("compression"))
            ats = possible(ff.get("alpha_type"))
            if content == "Jpeg":
                ctx.ok(R_tag, {"content": content, "line": lit["ln"], "note": "JPEG is selected by the content tag, not by these fields"})
                continue
            bad = [(c_, a_, parser_of(c_, a_)) for c_ in sorted(comps) for a_ in sorted(ats) if parser_of(c_, a_) != content]
            if bad:
                c_, a_, got = bad[0]
                ctx.bad(R_tag, "image_to_blp|%s|tags" % content, "%s:%d" % (conv.file, lit["ln"]), "stores BlpContent::%s under (compression=%s, alpha_type=%s), which the parser reads as %s" % (content, c_, a_, got),
                        "the file parses without error as a different content type: structure and pixels differ from what was encoded")
            else:
                ctx.ok(R_tag, {"content": content, "compression": sorted(comps), "alpha_type": sorted(ats)})

    # mip chains: every loop / take bound derived from mipmaps_count() reaches the last level (count + 1 images, levels 0..=count)
    R_mip = ctx.rule("C16.mip-level-bounds-reach-last-level", "every `1..B` loop and `.take(T)` whose bound is built from mipmaps_count() has B = T = count + 1 for every count 0..15 (the 16-slot cap aside)", floor=6)
    from .c10 import _ival, _NoEval
    for f in blp.fn_list:
        if f.kind == "Closure" or not f.hir or "::tests::" in f.path:
            continue
        cands = []
        for x in hirq.walk(f.hir["body"]):
            if x.get("k") == "for":
                for y in hirq.walk(x["iter"]):
                    if y.get("k") == "struct" and y["res"].get("def", "").endswith("range::Range"):
                        fl = dict((a, b) for a, b in y["fields"])
                        if "mipmaps_count" in hirq.render(fl.get("end")) and hirq.lit_int(fl.get("start")) == 1:
                            cands.append(("loop 1..B", fl["end"], x["ln"]))
                    if y.get("k") == "call" and re.search(r"RangeInclusive(::<\w+>)?::new$", y.get("fn") or "") and "mipmaps_count" in hirq.render(y["args"][1]) and hirq.lit_int(y["args"][0]) == 1:
                        cands.append(("loop 1..=B", {"k": "bin", "op": "+", "l": y["args"][1], "r": {"k": "lit", "v": {"int": 1}}}, x["ln"]))
            if x.get("k") == "mcall" and x["m"] == "take" and x.get("args") and "mipmaps_count" in hirq.render(x["args"][0]):
                cands.append(("take(T)", x["args"][0], x["ln"]))
        for kind, expr, ln in cands:
            ctx.saw_fn(f)
            bad = None
            try:
                for cnt in range(0, 16):
                    got = _ival(expr, {"__leaf__": (lambda r_, cnt=cnt: cnt if "mipmaps_count" in r_ else None)}, {})
                    if got != cnt + 1 and bad is None:
                        bad = (cnt, got)
            except _NoEval as e:
                ctx.note_unarmed(R_mip, "%s:%d" % (norm(f.path), ln), "bound not evaluable: %s" % e)
                continue
            if bad:
                ctx.bad(R_mip, "%s|mip-bound" % norm(f.path).split("::")[-1], "%s:%d" % (f.file, ln), "%s with bound `%s`: for mipmaps_count = %d it is %d, the chain has %d images" % (kind, hirq.render(expr)[:60], bad[0], bad[1], bad[0] + 1),
                        "the smallest level(s) are never parsed / written: the parsed texture has fewer images than were encoded and the chain stops short of 1×1")
            else:
                ctx.ok(R_mip, {"fn": norm(f.path), "kind": kind, "bound": hirq.render(expr)[:60]})

    # mip chain generation agrees with the header's level count: the generator stops only when BOTH dimensions are <= 1
    R_gen = ctx.rule("C16.mip-generator-runs-to-1x1", "generate_mipmaps' stop test is false whenever the larger dimension is still > 1 (finite table over w, h in {1, 2, 3}) and the halved dimensions are clamped at 1", floor=1)
    gm = next((f for f in blp.fn_list if f.hir and f.kind != "Closure" and norm(f.path) == "wow_blp::convert::mipmap::generate_mipmaps"), None)
    from .c10 import _bval
    if gm is None:
        ctx.bad(R_gen, "generate_mipmaps|missing", "-", "function not found", "anchor gone")
    else:
        ctx.saw_fn(gm)
        # each level is produced with exactly the halved dimensions: the resampling call must be one whose output size is the size
        # asked for (DynamicImage::resize / thumbnail / resize_to_fill keep the aspect ratio or crop instead)
        R_exact = ctx.rule("C16.mip-levels-resampled-to-exact-size", "every image-resampling call in generate_mipmaps is an exact-size one (resize_exact / thumbnail_exact / imageops::resize)", floor=1)
        for x in hirq.walk(gm.hir["body"]):
            nm = (x.get("fn") or "") if x.get("k") in ("call", "mcall") else ""
            if not re.search(r"image::.*(resize|thumbnail|resize_to_fill)\w*$", nm):
                continue
            if re.search(r"(DynamicImage::resize_exact|DynamicImage::thumbnail_exact|imageops::(sample::)?resize|imageops::thumbnail)$", nm.replace("::<", "<").split("<")[0] if "<" in nm else nm):
                ctx.ok(R_exact, {"call": nm.split("::")[-1], "line": x.get("ln")})
            else:
                ctx.bad(R_exact, "generate_mipmaps|%s" % nm.split("::")[-1], "%s:%d" % (gm.file, x.get("ln") or 0), "`%s` does not produce the requested width x height (it preserves the aspect ratio / crops)" % nm.split("::", 1)[-1][:60],
                        "for non-square images with a non-power-of-two side the generated levels are smaller than the header's independent halving expects: raw chains fail to parse, DXT/JPEG chains carry wrong-dimension levels")
        stop = next((n for n in hirq.find(gm.hir["body"], "if") if any(x.get("k") == "break" for x in hirq.walk(n["then"])) and re.search(r"width|height", hirq.render(n["c"]))), None)
        if stop is None:
            ctx.bad(R_gen, "generate_mipmaps|shape", gm.where, "no `if <dims> { break }` found", "shape changed")
        else:
            bad = None
            try:
                for w_ in (1, 2, 3):
                    for h_ in (1, 2, 3):
                        got = _bval(stop["c"], {"width": w_, "height": h_, "__leaf__": (lambda r_: 0 if r_.endswith(".len()") else None)}, {})
                        want = (w_ <= 1 and h_ <= 1)
                        if got != want and bad is None:
                            bad = (w_, h_, got)
            except _NoEval as e:
                bad = ("?", "?", str(e))
            halves = [hirq.render(l["init"]) for l in hirq.find(gm.hir["body"], "let") if l["pat"].get("k") == "bind" and re.search(r">> 1|/ 2", hirq.render(l["init"]))]
            # clamped at 1: evaluated, not matched as text (`(w >> 1).max(1)`, `cmp::max(w >> 1, 1)`, `if w > 1 { w / 2 } else { 1 }`, ...)
            from .c10 import _ival as _iv, _NoEval as _NE
            unclamped = []
            for l_ in hirq.find(gm.hir["body"], "let"):
                if l_["pat"].get("k") == "bind" and l_.get("init") is not None and re.search(r">> 1|/ 2", hirq.render(l_["init"])):
                    try:
                        vals = [_iv(l_["init"], {"width": d_, "height": d_}, {}) for d_ in (1, 2, 3, 5)]
                        if vals != [1, 1, 1, 2]:
                            unclamped.append(hirq.render(l_["init"]))
                    except _NE:
                        unclamped.append(hirq.render(l_["init"]))
            if bad:
                ctx.bad(R_gen, "generate_mipmaps|stop-test", "%s:%d" % (gm.file, stop["ln"]), "stop test `%s` is %s for a %sx%s image" % (hirq.render(stop["c"])[:60], bad[2], bad[0], bad[1]),
                        "BlpHeader::mipmaps_count (which every parser trusts) counts levels until the LARGER dimension reaches 1: a non-square texture is written with fewer levels than its header announces — BLP0 fails to parse back, JPEG/DXT parse phantom empty levels, and the chain never reaches 1×1")
            elif unclamped:
                ctx.bad(R_gen, "generate_mipmaps|halving-unclamped", gm.where, "halved dimension `%s` is not clamped at 1" % unclamped[0][:50], "the shorter side reaches 0 before the longer one reaches 1")
            else:
                ctx.ok(R_gen, {"stop_test": hirq.render(stop["c"])[:70], "halving": halves})

    # DXT levels are whole 4x4 blocks per dimension
    R_dxt = ctx.rule("C16.dxt-block-count-per-dimension", "parse_dxtn sizes a level as ceil(w/4)·ceil(h/4) blocks (evaluated for w, h in 1..9)", floor=1)
    pdx = next((f for f in blp.fn_list if f.hir and f.kind != "Closure" and norm(f.path).endswith("parser::direct::blp2::parse_dxtn")), None)
    if pdx is None:
        ctx.bad(R_dxt, "parse_dxtn|missing", "-", "function not found", "anchor gone")
    else:
        ctx.saw_fn(pdx)
        lets = {}
        tup = None
        for l in hirq.find(pdx.hir["body"], "let"):
            if l.get("init") is None:
                continue
            if l["pat"].get("k") == "bind":
                lets[l["pat"]["name"]] = l["init"]
            elif l["pat"].get("k") == "tuple" and "mipmap_size" in hirq.render(l["init"]):
                tup = [s_.get("name") for s_ in l["pat"]["subs"]]
        bl = next((nm for nm in lets if re.search(r"block", nm) and re.search(r"_n$|count|num", nm)), None)
        if bl is None:
            ctx.bad(R_dxt, "parse_dxtn|shape", pdx.where, "no block-count local found", "shape changed")
        else:
            bad = None
            try:
                for w_ in range(1, 10):
                    for h_ in range(1, 10):
                        env = {"__leaf__": (lambda r_, w_=w_, h_=h_: (w_ * h_) if "mipmap_pixels" in r_ else None)}
                        if tup and len(tup) == 2:
                            env[tup[0]], env[tup[1]] = w_, h_
                        got = _ival(lets[bl], env, {k_: v_ for k_, v_ in lets.items() if k_ != bl})
                        want = -(-w_ // 4) * -(-h_ // 4)
                        if got != want and bad is None:
                            bad = (w_, h_, got, want)
            except _NoEval as e:
                bad = ("?", "?", "not an integer formula over the level's width and height (%s)" % e, "ceil(w/4)*ceil(h/4)")
            if bad:
                ctx.bad(R_dxt, "parse_dxtn|block-count", "%s:%d" % (pdx.file, lets[bl]["ln"] if isinstance(lets[bl], dict) and lets[bl].get("ln") else pdx.lo), "`%s = %s` gives %s blocks for a %sx%s level; DXT stores %s" % (bl, hirq.render(lets[bl])[:60], bad[2], bad[0], bad[1], bad[3]),
                        "levels whose sides are not multiples of 4 (6×6, 10×5, the 8×2 level of a 16×4 chain) are read short: the parsed content differs from the encoded one")
            else:
                ctx.ok(R_dxt, {"block_count": "%s = %s" % (bl, hirq.render(lets[bl])[:70])})

    # dispatch coverage
    content = next((a for a in blp.items["adts"] if a["path"].endswith("::BlpContent") and a["k"] == "enum"), None)
    variants = [v["name"] for v in content["variants"]] if content else []
    for path, side in (("wow_blp::encode::encode_content", "encoder"), ("wow_blp::parser::parse_content", "parser")):
        f = next((x for x in blp.fn_list if norm(x.path) == path and x.hir), None)
        if f is None or not variants:
            ctx.bad(R_disp, "%s|missing" % side, "-", "dispatcher or BlpContent enum not found", "anchor gone")
            continue
        ctx.saw_fn(f)
        handled = set()
        wild = False
        bodies = [f.hir["body"]]
        if side == "parser":
            from .. import mirg
            cg = mirg.CallGraph([blp])
            for p2 in cg.local_reachable([f.path]):
                g = cg.fns[p2]
                if g.hir and "::parser::" in p2 and g is not f:
                    bodies.append(g.hir["body"])
        for x in (y for b in bodies for y in hirq.walk(b)):
            # encoder matches BlpContent::V(..) patterns; parser constructs BlpContent::V(..)
            if x.get("k") == "match":
                for a in x["arms"]:
                    c = hirq.pat_ctor(a["pat"])
                    if c and "BlpContent::" in c:
                        handled.add(c.split("::")[-1])
                    if a["pat"].get("k") == "wild" and "BlpContent" in (blp.ty(x["e"].get("t")) or ""):
                        wild = True
            if x.get("k") == "call" and "BlpContent::" in (x.get("fn") or ""):
                handled.add(x["fn"].split("::")[-1])
            if x.get("k") == "path" and "BlpContent::" in x["res"].get("def", ""):
                handled.add(x["res"]["def"].split("::")[-1])
        missing = [v for v in variants if v not in handled]
        if missing and not (side == "encoder" and wild):
            ctx.bad(R_disp, "%s|missing-variants" % side, f.where, "%s does not handle %s" % (side, missing), "textures of that content type cannot round-trip")
        else:
            ctx.ok(R_disp, {"side": side, "variants": sorted(handled)})
