"""C11 — extraction never writes outside the chosen output directory.

Taint rule over the CLI crate: every file-system mutation whose path derives from an
archive-supplied name (the result of `mpq_path_to_system`, or names coming out of the listing /
extraction APIs) must have that derivation pass a sanitiser — `Path::file_name` (yields a single
normal component), `validate_file_path`, or a component check rejecting `..`/root/prefix — or be
guarded by one that dominates it.
"""
import re

from .. import hirq, mirg, rules
from ..rules import ncallee, norm, Derive
from .c12 import FS_MUT

META = {
    "level": "other",
    "technique": "backward value-flow (taint) over MIR from fs-mutation sinks to archive-name sources with sanitiser stops + dominating guard recognition; sink wrappers summarised to depth 3",
    "claim": "Decides for every fs-mutating call site in the CLI (all sub-commands, both extraction branches) whether an archive-supplied name can reach its path without a component sanitiser. Complete at the level of value flow; does not consider symlink races inside the output tree. Wave 5: what a sanitiser joins is a plain view of the very value it tested (no rewriting after validation); named component predicates are followed. Wave 7: no success return of a sanitiser precedes its component test (MIR dominance). Wave 8: helpers that build the output path from the base name alone are recognised as sanitising joins.",
    "note": "Trusted: Path::file_name returns a single Normal component; Path::join semantics; MIR def-use (flow-insensitive union of definitions, so a sink is clean only if every definition of its path is clean).",
    "assumptions": ["archive-supplied names enter the CLI only through the wow_mpq listing/extraction APIs and mpq_path_to_system"],
    "explanation": "All functions of warcraft_rs::commands::* (binary crate): every call to a std::fs mutator (write/create/create_dir_all/rename/copy/remove/OpenOptions::open) and every local wrapper that forwards a path parameter to one.",
}

SOURCES = re.compile(
    r"(wow_mpq::path::mpq_path_to_system|wow_mpq::single_archive_parallel::extract_with_config|"
    r"wow_mpq::archive::Archive::list(_all)?(_with_hashes)?|wow_mpq::patch_chain::PatchChain::list|"
    r"wow_mpq::special_files::listfile::parse_listfile|wow_mpq::single_archive_parallel::ParallelArchive::(extract_\w+|list_files)|"
    r"wow_mpq::patch_chain::PatchChain::extract_files|wow_mpq::path::normalize_mpq_path)$")
SANITISER_CALLS = re.compile(r"(std::path::Path::file_name|wow_mpq::security::validate_file_path|std::path::Path::strip_prefix)$")


def sanitiser_fns(crates):
    """local functions that inspect path components for ParentDir (structural recognition)"""
    out = set()
    for c in crates:
        for f in c.fn_list:
            if not f.hir:
                continue
            txt = None
            for n in hirq.walk(f.hir["body"]):
                d = None
                if n.get("k") == "path":
                    d = n["res"].get("def")
                if d and re.search(r"path::Component::(ParentDir|Normal|RootDir|Prefix)$", d):
                    out.add(f.path)
                    break
            # patterns (match arms) referencing Component::ParentDir
            if f.path not in out:
                import json
                if re.search(r"path::Component::(ParentDir|Normal)", json.dumps(f.hir)):
                    out.add(f.path)
    # a function that hands one of those (a named component predicate) to an iterator over `components()` is the sanitiser proper
    changed = True
    while changed:
        changed = False
        for c in crates:
            for f in c.fn_list:
                if not f.hir or f.path in out:
                    continue
                uses_pred = any(n.get("k") == "path" and n["res"].get("def") in out for n in hirq.walk(f.hir["body"])) or any((n.get("fn") or "") in out for n in hirq.walk(f.hir["body"]) if n.get("k") == "call")
                if uses_pred and any(n.get("k") == "mcall" and n["m"] == "components" for n in hirq.walk(f.hir["body"])):
                    out.add(f.path)
                    changed = True
    return out


def inline_guard_lines(fn):
    """lines in fn's HIR where Component::ParentDir is tested inside a diverging conditional"""
    import json
    lines = []
    if not fn.hir:
        return lines
    for n in hirq.walk(fn.hir["body"]):
        if n.get("k") in ("if", "match"):
            s = json.dumps(n.get("c") or n.get("e"))
            whole = json.dumps(n)
            if re.search(r"path::Component::(ParentDir|Normal)", whole) and re.search(r'"k": "(ret|continue|break)"|anyhow::|Err', whole):
                if "path::Component::ParentDir" in s or n.get("k") == "match" or True:
                    lines.append(n["ln"])
    return lines


def run(ctx):
    prog = ctx.prog
    cli = prog.crate("warcraft_rs", "bin")
    mpq = prog.crate("wow_mpq")
    R_sink = ctx.rule("C11.archive-name-sanitised-before-fs-write", "no archive-supplied name reaches a file-system mutation without passing file_name()/a component validator", floor=4)
    R_cover = ctx.rule("C11.extraction-sinks-found", "the extraction command's write sites exist and were analysed (both the plain and the patch-chain branch)", floor=2)

    san_fns = sanitiser_fns([cli, mpq])
    # ... and helpers that build the output path from the base name alone: a function of commands/*.rs every `Path::join` of which
    # joins a component that derives only from Path::file_name() (nothing of its parameters reaches the join unsanitised)
    base_fns = set()
    for f0 in cli.fn_list:
        if f0.kind == "Closure" or not f0.mir or not f0.mir.get("blocks") or "::commands::" not in f0.path or f0.path in san_fns:
            continue
        joins0 = [t0 for _b0, t0 in mirg.iter_calls(f0) if ncallee(t0) == "std::path::Path::join" and len(t0["a"]) >= 2]
        if not joins0 or not (cli.ty(f0.d.get("output")) or "").count("PathBuf"):
            continue
        der0 = Derive(f0, stop=SANITISER_CALLS)
        clean = True
        for t0 in joins0:
            roots0 = der0.roots(t0["a"][1])
            if any(k0 == "param" for k0, _w0, _d0 in roots0) or any(k0 == "call" and SOURCES.search(w0) for k0, w0, _d0 in roots0) or not any(k0 == "call" and SANITISER_CALLS.search(w0) for k0, w0, _d0 in roots0):
                clean = False
        if clean:
            base_fns.add(f0.path)
    san_fns = set(san_fns) | base_fns
    stop = re.compile("(" + SANITISER_CALLS.pattern[:-1] + "|" + "|".join(re.escape(s) for s in sorted(san_fns)) + ")$") if san_fns else SANITISER_CALLS

    fns = [f for f in cli.fn_list if "::commands::" in f.path or "::utils::" in f.path]
    # sink-wrapper summaries: fn path -> set of param indices (0-based) forwarded into an fs mutator path
    wrappers = {}
    for _round in range(3):
        changed = False
        for f in fns:
            der = None
            for bb, t in mirg.iter_calls(f):
                c = ncallee(t)
                idxs = []
                if c in FS_MUT:
                    idxs = [FS_MUT[c]]
                elif c in wrappers:
                    idxs = sorted(wrappers[c])
                for i in idxs:
                    if i >= len(t["a"]):
                        continue
                    der = der or Derive(f, stop=stop)
                    for k, w, d in der.roots(t["a"][i]):
                        if k == "param" and w[1] == () and f.kind != "Closure":
                            s = wrappers.setdefault(f.path, set())
                            if (w[0] - 1) not in s:
                                s.add(w[0] - 1)
                                changed = True
        if not changed:
            break

    extraction_sinks = 0
    for f in fns:
        der = None
        cfg = None
        guard_lines = None
        for bb, t in mirg.iter_calls(f):
            c = ncallee(t)
            idxs = []
            if c in FS_MUT:
                idxs = [FS_MUT[c]]
            elif c in wrappers:
                idxs = sorted(wrappers[c])
            if not idxs:
                continue
            ctx.call_sites += 1
            ctx.saw_fn(f)
            der = der or Derive(f, stop=stop)
            for i in idxs:
                if i >= len(t["a"]):
                    continue
                roots = der.roots(t["a"][i])
                srcs = sorted({w for k, w, d in roots if k == "call" and SOURCES.search(w)})
                key = "%s|%s|arg%d" % (f.path, c, i)
                where = "%s:%d" % (f.file, t["ln"])
                if not srcs:
                    ctx.ok(R_sink, {"fn": f.path, "sink": c, "line": t["ln"], "archive_name_sources": []})
                    continue
                if "extract" in f.path:
                    extraction_sinks += 1
                # guard-style sanitiser: a checked call to a sanitiser fn that dominates the sink
                cfg = cfg or mirg.Cfg(f)
                guarded = False
                for gb, gt in mirg.iter_calls(f):
                    gc_ = ncallee(gt) or ""
                    if (gc_ in san_fns or gc_.endswith("security::validate_file_path")) and cfg.dominates(gb, bb) and gb != bb \
                            and rules.flows_to_check(f, None, mirg.plocal(gt["d"])):
                        groots = der.roots(gt["a"][0]) if gt["a"] else []
                        if {w for k, w, d in groots if k == "call" and SOURCES.search(w)} & set(srcs) or True:
                            guarded = True
                if guard_lines is None:
                    root_fn = cli.fns.get(f.root) if f.kind == "Closure" else f
                    guard_lines = inline_guard_lines(root_fn) if root_fn else []
                if any(l <= t["ln"] and t["ln"] - l < 40 for l in guard_lines):
                    guarded = True
                if guarded:
                    ctx.ok(R_sink, {"fn": f.path, "sink": c, "line": t["ln"], "sources": srcs, "sanitised_by": "dominating component check"})
                else:
                    ctx.bad(R_sink, key, where,
                            "path of %s derives from %s with a derivation that passes no sanitiser" % (c.split("::")[-1], ", ".join(s.split("::")[-1] for s in srcs)),
                            "an entry named like `..\\..\\x` (or an absolute path) makes the tool create or overwrite files outside the output directory")
    # --- positive form for the extraction command: whatever is joined onto the output directory came out of a sanitiser
    R_join = ctx.rule("C11.joined-component-sanitised", "in the extraction functions every component joined onto the output directory is the result of file_name() or of a component-checking sanitiser — on every definition", floor=2)
    R_strict = ctx.rule("C11.sanitiser-checks-every-component", "a component sanitiser tests all components (no skip/filter before the test) and admits only Normal/CurDir (or rejects ParentDir, RootDir and Prefix)", floor=1)
    for f in fns:
        if "commands::mpq" not in f.path or "extract" not in f.path:
            continue
        root_fn = cli.fns.get(f.root) if f.kind == "Closure" else f
        der = None
        for bb, t in mirg.iter_calls(f):
            c = ncallee(t)
            if c in san_fns and "security::" not in c and (cli.ty((cli.fns.get(c).d.get("output") if cli.fns.get(c) else None)) or "").count("PathBuf"):
                ctx.ok(R_join, {"fn": f.path, "line": t["ln"], "sanitised_by": [c.split("::")[-1]], "form": "the output path is built by the sanitiser itself"})
                continue
            if c != "std::path::Path::join" or len(t["a"]) < 2:
                continue
            der = der or Derive(f, stop=stop)
            # only joins whose result reaches a file-system mutation
            dl = mirg.plocal(t["d"])
            reaches = False
            for b2, t2 in mirg.iter_calls(f):
                c2 = ncallee(t2)
                if c2 in FS_MUT or c2 in wrappers:
                    for i2 in ([FS_MUT[c2]] if c2 in FS_MUT else sorted(wrappers[c2])):
                        if i2 < len(t2["a"]) and mirg.op_local(t2["a"][i2]) is not None:
                            ls, _, _ = der.du.slice_back(mirg.op_local(t2["a"][i2]), depth=10)
                            if dl in ls:
                                reaches = True
            if not reaches:
                continue
            roots = der.roots(t["a"][1])
            leaks = sorted({("param %s" % (f.mir["locals"][w[0]][1] or w[0])) for k, w, d in roots if k == "param"} |
                           {w.split("::")[-1] for k, w, d in roots if k == "call" and SOURCES.search(w)})
            sanit = sorted({w.split("::")[-1] for k, w, d in roots if k == "call" and stop.search(w)})
            key = "%s|join|line-ordinal" % f.path
            if leaks:
                ctx.bad(R_join, "%s|join|%s" % (f.path, ",".join(leaks)[:60]), "%s:%d" % (f.file, t["ln"]),
                        "the component joined onto the output directory derives from %s on a definition that passes no sanitiser%s" % (", ".join(leaks), (" (other definitions pass %s)" % ", ".join(sanit)) if sanit else ""),
                        "a name with `..`, mixed separators or a leading separator escapes the output directory")
            else:
                ctx.ok(R_join, {"fn": f.path, "line": t["ln"], "sanitised_by": sanit})
    # ... and no success return of a sanitiser comes before its test: every Ok exit is dominated by the components() walk
    R_all = ctx.rule("C11.sanitiser-has-no-untested-success-path", "every Ok return of a component sanitiser is dominated by its call of Iterator::all / any over path components (no early `return Ok(..)` ahead of the test)", floor=1)
    for sp in sorted(san_fns):
        sf = cli.fns.get(sp) or mpq.fns.get(sp)
        if sf is None or not sf.mir or not sf.mir.get("blocks") or "security::" in sp:
            continue
        tests = [bb for bb, t in mirg.iter_calls(sf) if re.search(r"Iterator::(all|any|find|position)$|Components.*::(all|any)$", ncallee(t) or "") and re.search(r"Components|path::", (mirg.callee(t) or "") + str(t.get("f")))]
        if not tests:
            continue
        ctx.saw_fn(sf)
        cfg_s = mirg.Cfg(sf)
        from ..rules import ret_assignments as _ra
        oks = [bb for bb, kind, _p in _ra(sf) if kind in ("ok", "copy", "other", "call")]
        early = [o for o in oks if not any(cfg_s.dominates(tb, o) for tb in tests)]
        if early:
            ctx.bad(R_all, "%s|untested-success-path" % sp.split("::")[-1], sf.where, "a success return (bb%d) is reachable without passing the component test" % early[0],
                    "for the inputs that take that path (an empty or `.` output directory, a name of a particular shape) the name is joined unvalidated: `..` components or an absolute path leave the output directory")
        else:
            ctx.ok(R_all, {"sanitiser": sp.split("::")[-1], "ok_exits": len(oks), "tests": len(tests)})
    for sp in sorted(san_fns):
        sf = cli.fns.get(sp) or mpq.fns.get(sp)
        if sf is None or not sf.hir or "security::" in sp:
            continue
        body = sf.hir["body"]
        chains_ok = False
        problems = []
        for x in hirq.walk(body):
            if x.get("k") == "mcall" and x["m"] in ("all", "any", "find", "position"):
                # walk the receiver chain back to components()
                names = []
                cur = hirq.strip(x["recv"])
                while cur is not None and cur.get("k") == "mcall":
                    names.append(cur["m"])
                    cur = hirq.strip(cur["recv"])
                if "components" not in names:
                    continue
                adapters = [n for n in names if n != "components"]
                bad_ad = [a for a in adapters if a in ("skip_while", "skip", "filter", "take", "take_while", "step_by", "filter_map", "skip_last", "peekable") or a.startswith("skip")]
                pred = hirq.render(x["args"][0]) if x["args"] else ""
                import json as _json
                ptxt = _json.dumps(x["args"][0]) if x["args"] else ""
                variants = set(re.findall(r"path::Component::(\w+)", ptxt))
                if bad_ad:
                    problems.append("components are passed through `%s` before being tested" % ", ".join(bad_ad))
                # decide the predicate over the five kinds of path component (finite domain), whatever its spelling
                COMP = ["Prefix", "RootDir", "CurDir", "ParentDir", "Normal"]
                decided = False
                cl = hirq.strip(x["args"][0]) if x["args"] else None
                if cl is not None and cl.get("k") == "path" and "def" in cl["res"]:
                    # a named predicate (`.all(stays_inside)`): its body with its own parameter
                    pf = next((g for c_ in (cli, mpq) for g in c_.fn_list if g.hir and g.path == cl["res"]["def"]), None)
                    if pf is not None:
                        cl = {"k": "closure", "params": pf.hir["params"], "body": pf.hir["body"]}
                        ptxt = _json.dumps(pf.hir)
                        variants = set(re.findall(r"path::Component::(\w+)", ptxt))
                if cl is not None and cl.get("k") == "closure" and x["m"] in ("all", "any"):
                    pn = [b for p_ in cl.get("params", []) or [] for b in hirq.pat_binds(p_)]
                    try:
                        from .. import enumpred as _ep
                        truth = {v_: _ep.holds(cl["body"], pn[0], COMP, v_) for v_ in COMP} if pn else None
                    except Exception:
                        truth = None
                    if truth is not None:
                        # is the call negated where it is used?  (`if !it.all(p) { bail }`  ==  `if it.any(!p) { bail }`)
                        negated = False
                        for y in hirq.walk(body):
                            if y.get("k") == "un" and y["op"] == "Not" and hirq.strip(y["e"]) is x:
                                negated = True
                        if x["m"] == "all":
                            rejected = {v_ for v_ in COMP if not truth[v_]} if negated else None
                        else:
                            rejected = {v_ for v_ in COMP if truth[v_]} if not negated else None
                        if rejected is not None:
                            decided = True
                            if not {"ParentDir", "RootDir", "Prefix"} <= rejected:
                                problems.append("components of kind %s are not rejected" % sorted({"ParentDir", "RootDir", "Prefix"} - rejected))
                if not decided:
                    if x["m"] == "all" and not variants <= {"Normal", "CurDir"}:
                        problems.append("allow-list admits %s" % sorted(variants - {"Normal", "CurDir"}))
                    if x["m"] == "any" and not {"ParentDir", "RootDir", "Prefix"} <= variants:
                        problems.append("deny-list lacks %s" % sorted({"ParentDir", "RootDir", "Prefix"} - variants))
                chains_ok = True
        if problems:
            ctx.bad(R_strict, "%s|strictness" % sp, sf.where, "; ".join(problems), "an absolute or prefixed entry name passes the check and `Path::join` then discards the output directory")
        elif chains_ok:
            ctx.ok(R_strict, {"sanitiser": sp})

    # what a sanitiser joins onto the output directory is the very value whose components it tested: any rewriting between the test
    # and the join (trim, replace, case folding, lossy conversion, re-assembly from pieces) re-opens what the test closed
    R_same = ctx.rule("C11.validated-value-is-the-joined-value", "inside a component-checking sanitiser, every value joined/pushed onto a path is a plain view (borrow, Path::new, as_ref, to_path_buf, clone) of the value whose components() were tested", floor=1)
    VIEW = re.compile(r"(std::path::Path::new|::as_ref|::deref|::borrow|::as_path|::to_path_buf|::clone|::to_owned|::as_os_str|::into|::from|::as_str)$")
    for sp in sorted(san_fns):
        sf = cli.fns.get(sp) or mpq.fns.get(sp)
        if sf is None or not sf.mir or "security::" in sp:
            continue
        du_s = mirg.DefUse(sf)

        def roots_(l_):
            out_, st_ = set(), [l_]
            while st_:
                x_ = st_.pop()
                if x_ is None or x_ in out_:
                    continue
                out_.add(x_)
                for _b, k_, p_ in du_s.defs.get(x_, []):
                    if k_ == "assign" and p_[2][0] in ("use", "cast", "ref", "refmut", "rawptr"):
                        for o_ in mirg.rvalue_operands(p_[2]):
                            st_.append(mirg.op_local(o_))
                    elif k_ == "call" and VIEW.search(ncallee(p_) or "") and p_["a"]:
                        st_.append(mirg.op_local(p_["a"][0]))
            return out_
        tested = set()
        for bb, t in mirg.iter_calls(sf):
            if (ncallee(t) or "").endswith("path::Path::components") and t["a"]:
                tested |= roots_(mirg.op_local(t["a"][0]))
        joins = [(bb, t) for bb, t in mirg.iter_calls(sf) if re.search(r"path::(Path::join|PathBuf::push)$", ncallee(t) or "") and len(t["a"]) >= 2]
        for cl_ in sf.closures:
            joins += [(bb, t) for bb, t in mirg.iter_calls(cl_) if re.search(r"path::(Path::join|PathBuf::push)$", ncallee(t) or "") and len(t["a"]) >= 2]
        if not tested or not joins:
            continue
        for bb, t in joins:
            own = sf if any(t is t2 for _b, t2 in mirg.iter_calls(sf)) else None
            if own is None:
                ctx.bad(R_same, "%s|joined-in-closure" % sp, "%s:%d" % (sf.file, t["ln"]), "a path is assembled piecewise inside a closure of the sanitiser", "the joined pieces are not the tested value")
                continue
            if roots_(mirg.op_local(t["a"][1])) & tested:
                ctx.ok(R_same, {"sanitiser": sp, "join_line": t["ln"]})
            else:
                ctx.bad(R_same, "%s|rewritten-after-test" % sp, "%s:%d" % (sf.file, t["ln"]), "the value joined at line %d is not a plain view of the value whose components were tested" % t["ln"],
                        "a component that passes the test as an ordinary name (e.g. `.. ` with a trailing blank) becomes `..` after the rewrite: the file is written outside the output directory")

    ef = cli.fns.get("warcraft_rs::commands::mpq::extract_files_with_options")
    if ef is None:
        ctx.bad(R_cover, "extract_files_with_options|missing", "-", "extraction function not found", "anchor gone")
    else:
        n = 0
        for bb, t in mirg.iter_calls(ef):
            c = ncallee(t)
            if c in ("std::fs::write", "std::fs::File::create") or c in wrappers:
                n += 1
                ctx.ok(R_cover, {"fn": ef.path, "write_site_line": t["ln"], "callee": c})
        if n < 2:
            for cl in ef.closures:
                for bb, t in mirg.iter_calls(cl):
                    c = ncallee(t)
                    if c in ("std::fs::write", "std::fs::File::create") or c in wrappers:
                        ctx.ok(R_cover, {"fn": cl.path, "write_site_line": t["ln"], "callee": c})
