"""C06 — in-place archive modification behaves as a persistent name→bytes map.

Structural clauses: every probe loop terminates (wrap-around exit); a mutator that reports
failure has not yet touched the hash table (no fallible step after the first hash-table
mutation); every successful mutator marks the archive dirty; flush writes tables and header
before clearing the flag and Drop flushes; compact never skips a file except the internal ones.
"""
import re

from .. import hirq, mirg, rules
from ..mirg import plocal, pproj, op_local
from ..rules import ncallee, norm

META = {
    "level": "other",
    "technique": "typed-HIR shape rules (probe-loop exit, statement order of hash-table mutation vs fallible steps, skip discipline) + MIR must-pass-through (dirty flag, flush order)",
    "claim": "Decides termination of the four hash-probe loops, failure atomicity of add/remove/rename with respect to the hash table, the dirty→flush→Drop persistence chain, and that compact drops nothing but internal files. Does not replay operation histories or check table layout after growth. Also: insertion reuses deleted slots (truth table); absolute and archive-relative positions are never mixed (offset-frame analysis over the archive reader / modifier). Wave 5: compact() re-opens the read-only view on every path before reading through it (or flush() does); the probe-loop wrap exit compares with the start value symbolically (rule shared with C05.G). Wave 6: listfile maintenance tests and edits names line by line (no substring contains/replace on the text); adjusted keys use the uncompressed size (shared with C01). Also (wave 6, from a random-history harness): every stream_position() of MutableArchive is dominated by a seek or write of the same function (positions are never taken from the ambient cursor); compact() resets every field another operation sets; update_header writes each header slot from the field the reader takes from that slot (HET/BET slots unarmed: masked by the classic-table fallback); rename_file refuses or re-encrypts files whose key derives from the name. Wave 7: the HET/BET table path of flush is gated by the reader's version rule; stored payloads are not padded before encryption. Wave 8: files the modifier reads back in session are stored plain; AddFileOptions setters keep the other settings.",
    "note": "Trusted: Rust drop semantics; the hash table is the only name→block binding. A fallible step after the hash mutation is reported per (mutator, callee).",
    "assumptions": ["listfile maintenance failures are the only fallible steps that legitimately follow the hash-table update (listed as known findings with reproductions)"],
    "explanation": "MutableArchive::{add_file_data, remove_file, rename_file, compact, flush, Drop}, the two MutableArchive probe loops, HashTable::find_file and ArchiveBuilder::add_to_hash_table.",
}

MUT = "wow_mpq::modification::MutableArchive::"
LISTFILE_MAINTENANCE = {"update_listfile", "remove_from_listfile"}


def probe_step(n):
    """assign `x = (x + 1) & m` / `x = (x + 1) % m`  -> variable name"""
    if n.get("k") != "assign":
        return None
    l = hirq.strip(n["l"])
    if l.get("k") != "path" or "local" not in l["res"]:
        return None
    v = l["res"]["local"]

    def is_v(e):
        e = hirq.strip(e)
        while e.get("k") == "cast":
            e = hirq.strip(e["e"])
        return e.get("k") == "path" and (e.get("res") or {}).get("local") == v

    def succ(e):
        e = hirq.strip(e)
        while e.get("k") == "cast":
            e = hirq.strip(e["e"])
        return e.get("k") == "bin" and e["op"] == "+" and ((is_v(e["l"]) and hirq.lit_int(hirq.strip(e["r"])) == 1) or (is_v(e["r"]) and hirq.lit_int(hirq.strip(e["l"])) == 1))
    r = hirq.strip(n["r"])
    while r.get("k") == "cast":
        r = hirq.strip(r["e"])
    if r.get("k") == "bin" and ((r["op"] == "%" and succ(r["l"])) or (r["op"] == "&" and (succ(r["l"]) or succ(r["r"])))):
        return v
    return None


def has_diverge(n):
    return any(x.get("k") in ("ret", "break") for x in hirq.walk(n))


def run(ctx):
    prog = ctx.prog
    mpq = prog.crate("wow_mpq")
    R_term = ctx.rule("C06.probe-loops-terminate", "every linear-probe loop has an exit taken when the probe index returns to its start (or the table provably has a free slot)", floor=4)
    R_atomic = ctx.rule("C06.no-fallible-step-after-hash-mutation", "in add/remove/rename no `?`/Err exit follows the first hash-table mutation", floor=3)
    R_dirty = ctx.rule("C06.success-sets-dirty", "every success path of a mutator passes `self.dirty = true`", floor=3)
    R_flush = ctx.rule("C06.flush-writes-before-clearing-dirty", "flush: write_tables and update_header (both ?-checked) dominate `dirty = false`; Drop calls flush", floor=3)
    R_compact = ctx.rule("C06.compact-skips-only-internal-files", "in compact every skipped entry is an invalid/deleted slot or an internal special file; read errors abort", floor=2)

    # probe loops
    for f in mpq.fn_list:
        if f.kind == "Closure" or not f.hir:
            continue
        for lp in hirq.find(f.hir["body"], "loop"):
            steps = [probe_step(n) for n in hirq.walk(lp["body"])]
            steps = [s for s in steps if s]
            if not steps:
                continue
            # only hash-table probe loops: the body touches a HashEntry
            if not any("HashEntry" in (mpq.ty(x.get("t")) or "") for x in hirq.walk(lp["body"])):
                continue
            ctx.saw_fn(f)
            v = steps[0]
            wrap = False
            for n in hirq.find(lp["body"], "if"):
                c = hirq.render(n["c"])
                if re.search(r"\(%s == |== %s\)" % (re.escape(v), re.escape(v)), c) and has_diverge(n["then"]):
                    wrap = True
            # bounded counter alternative
            counter = any(n.get("k") == "if" and re.search(r"(count|probes|attempt|tries|steps)\w* (>=|>|==) ", hirq.render(n["c"])) and has_diverge(n["then"]) for n in hirq.find(lp["body"], "if"))
            key = "%s|probe-loop" % f.path
            if wrap or counter:
                ctx.ok(R_term, {"fn": f.path, "index": v, "exit": "wrap-around" if wrap else "bounded counter"})
            elif f.path == "wow_mpq::builder::ArchiveBuilder::add_to_hash_table":
                # exempt with reason: the builder sizes the table itself; checked separately below
                sz = mpq.fns.get("wow_mpq::builder::ArchiveBuilder::calculate_hash_table_size")
                okp = False
                if sz is not None and sz.hir:
                    r = hirq.render(sz.hir["body"])
                    okp = "next_power_of_two" in r and re.search(r"\* 2|\* 3|<< 1|\+ .*len", r) is not None
                if okp:
                    ctx.ok(R_term, {"fn": f.path, "index": v, "exit": "none needed: table size = next_power_of_two(>= 2×files), a free slot always exists"})
                else:
                    ctx.bad(R_term, key, "%s:%d" % (f.file, lp["ln"]), "builder probe loop has no wrap exit and the table is not provably larger than the file count",
                            "build() would hang on a full table")
            else:
                ctx.bad(R_term, key, "%s:%d" % (f.file, lp["ln"]), "probe loop over `%s` has no exit for returning to the start index" % v,
                        "when every slot is occupied the operation never terminates")

    # ... and the value the index is compared with *is* the start value (symbolically: the same masked hash), not merely some
    # `index == x` — shared with C05.G
    from .c05 import probe_wrap_exit_rule
    probe_wrap_exit_rule(ctx, prog, "C06")

    # compact() reads names and file contents through `self.archive`, the read-only view opened at open() time.  flush() writes the
    # tables to disk but does not refresh that view, so unless flush() itself re-opens it, compact() must re-open it on every path
    # before the first read through it (dirty or not: an explicit flush() earlier in the session cleared `dirty` already)
    R_view = ctx.rule("C06.compact-reads-through-fresh-view", "in compact() every path to a read through self.archive passes `Archive::open` (or flush() re-opens the view itself)", floor=1)
    cp = mpq.fns.get("wow_mpq::modification::MutableArchive::compact")
    fl_ = mpq.fns.get("wow_mpq::modification::MutableArchive::flush")
    if cp is None or not cp.mir:
        ctx.bad(R_view, "compact|missing", "-", "compact not found", "anchor gone")
    else:
        ctx.saw_fn(cp)
        READS = re.compile(r"archive::Archive::(list|list_all|read_file|read_file_by_indices|find_file|get_file_info|read_file_with_new_handle)$|modification::MutableArchive::(list|read_file|read_current_file|find_file)$")
        opens = {bb for bb, t in mirg.iter_calls(cp) if re.search(r"archive::Archive::open(_with_options)?$", norm(mirg.callee(t) or ""))}
        reads = [(bb, t) for bb, t in mirg.iter_calls(cp) if READS.search(norm(mirg.callee(t) or ""))]
        flush_reopens = False
        if fl_ is not None and fl_.mir:
            fo = {bb for bb, t in mirg.iter_calls(fl_) if re.search(r"archive::Archive::open(_with_options)?$", norm(mirg.callee(t) or ""))}
            if fo:
                fcfg = mirg.Cfg(fl_)
                flush_reopens = fcfg.must_pass(fo, [b for b in fcfg.returns()])[0]
        if not reads:
            ctx.bad(R_view, "compact|no-reads", cp.where, "no read through the archive view recognised in compact()", "shape changed")
        else:
            ccfg = mirg.Cfg(cp)
            ok_, wit = ccfg.must_pass(opens, [bb for bb, _ in reads])
            if ok_ or flush_reopens:
                ctx.ok(R_view, {"reads_through_view": len(reads), "reopen_sites": len(opens), "flush_reopens": flush_reopens})
            else:
                t_ = next(t for bb, t in reads if bb == wit)
                ctx.bad(R_view, "compact|stale-view", "%s:%d" % (cp.file, t_["ln"]), "`%s` at line %d is reachable without re-opening the archive view" % (norm(mirg.callee(t_) or "").split("::")[-1], t_["ln"]),
                        "after replace/add + flush() in the same session compact() rebuilds the archive from the tables captured at open(): the replacement is silently reverted, added files are reported as unknown")

    # a file added with fix_key() must be encrypted with the key every reader derives (rule shared with C01)
    from .c01 import key_size_operand_rule
    key_size_operand_rule(ctx, mpq, "C06")

    # the (listfile) is a list of lines: whether a name is already listed (update) or which line is dropped (remove) is decided per
    # line — a substring test on the whole text takes `config.txt` for listed once `data\\config.txt` is
    R_lf = ctx.rule("C06.listfile-membership-per-line", "update_listfile / remove_from_listfile never test or edit the listfile text with str::contains / replace / find on a name; they go line by line", floor=2)
    for fn_name in ("update_listfile", "remove_from_listfile"):
        lf = mpq.fns.get("wow_mpq::modification::MutableArchive::" + fn_name)
        if lf is None or not lf.hir:
            ctx.bad(R_lf, "%s|missing" % fn_name, "-", "function not found", "anchor gone")
            continue
        ctx.saw_fn(lf)
        whole = [x for x in hirq.walk(lf.hir["body"]) if x.get("k") == "mcall" and x["m"] in ("contains", "replace", "replacen", "find", "rfind", "matches", "split") and x.get("args")
                 and hirq.strip(x["args"][0]).get("k") not in ("lit",) and not any(y.get("k") == "mcall" and y["m"] in ("lines", "split_terminator") for y in hirq.walk(x["recv"]))
                 and not (hirq.strip(x["recv"]).get("k") == "path" and re.fullmatch(r"line|l|entry|name", hirq.strip(x["recv"])["res"].get("local") or ""))]
        per_line = any(x.get("k") == "mcall" and x["m"] == "lines" for x in hirq.walk(lf.hir["body"]))
        if whole:
            ctx.bad(R_lf, "%s|whole-text-%s" % (fn_name, whole[0]["m"]), "%s:%d" % (lf.file, whole[0].get("ln") or 0), "`%s` applies `%s` to the whole listfile text" % (fn_name, hirq.render(whole[0])[:60]),
                    "a name that is a substring of a listed name (`config.txt` vs `data\\config.txt`) is taken for listed / removed with it: the file exists in the tables but list() does not report it and compact() drops it")
        elif per_line:
            ctx.ok(R_lf, {"fn": fn_name, "membership": "per line"})
        else:
            ctx.bad(R_lf, "%s|no-line-walk" % fn_name, lf.where, "no `.lines()` walk over the listfile text", "shape changed")

    # failure atomicity
    for name in ("add_file_data", "remove_file", "rename_file"):
        f = mpq.fns.get(MUT + name)
        if f is None or not f.hir:
            ctx.bad(R_atomic, "%s|missing" % name, "-", "mutator not found", "anchor gone")
            continue
        ctx.saw_fn(f)
        body = hirq.strip(f.hir["body"])
        stmts = list(body.get("stmts", [])) + ([body["e"]] if body.get("e") else [])
        first_mut = None
        for i, s in enumerate(stmts):
            r = hirq.render(s)
            is_mut = False
            for x in hirq.walk(s):
                if x.get("k") == "assign" and re.search(r"hash_table|EMPTY_DELETED", hirq.render(x)):
                    is_mut = True
                if x.get("k") == "mcall" and x["m"] == "add_to_hash_table":
                    is_mut = True
            if is_mut:
                first_mut = i
                mut_ln = min(x["ln"] for x in hirq.walk(s) if (x.get("k") == "assign" and re.search(r"hash_table|EMPTY_DELETED", hirq.render(x))) or (x.get("k") == "mcall" and x["m"] == "add_to_hash_table"))
                break
        if first_mut is None:
            ctx.bad(R_atomic, "%s|no-hash-mutation" % name, f.where, "no hash-table mutation recognised", "shape changed")
            continue
        late = []
        tolerated = []
        for i, s in enumerate(stmts[first_mut:], start=first_mut):
            for x in hirq.walk(s, into_closures=False):
                if i == first_mut and x.get("ln", 0) <= mut_ln and x.get("k") in ("try", "ret"):
                    continue   # evaluated before the mutation inside the same statement
                if x.get("k") == "try":
                    inner = x["e"]
                    cal = None
                    for c in hirq.walk(inner):
                        if c.get("k") in ("call", "mcall"):
                            cal = (c.get("fn") or c.get("m") or "?").split("::")[-1]
                            break
                    # the mutating call itself failing before it mutated is fine only if it is the *first* mutation
                    if i == first_mut and cal == "add_to_hash_table":
                        continue
                    # inserting right after a slot was released cannot fail for lack of space
                    if cal == "add_to_hash_table" and i > 0 and re.search(r"EMPTY_DELETED", hirq.render(stmts[i - 1])) and not any(y.get("k") == "try" for y in hirq.walk(stmts[i - 1])):
                        continue
                    # accepted idiom, with reason: listfile maintenance follows the hash update by design and fails only on I/O faults,
                    # which are outside this property's quantifier (histories × inputs); everything else stays armed
                    if cal in LISTFILE_MAINTENANCE:
                        tolerated.append((cal, x["ln"]))
                        continue
                    late.append((cal or "?", x["ln"]))
                elif x.get("k") == "ret" and x.get("e") is not None and "Err" in hirq.render(x["e"]):
                    late.append(("return Err", x["ln"]))
        seen = set()
        for cal, ln in late:
            key = "%s|after-hash-mutation|%s" % (name, cal)
            if key in seen:
                continue
            seen.add(key)
            ctx.bad(R_atomic, key, "%s:%d" % (f.file, ln), "`%s` can fail after the hash table was already modified (first mutation at statement %d)" % (cal, first_mut),
                    "the operation reports failure but the in-memory map has changed: a failed operation does not leave the map unchanged")
        if not late:
            ctx.ok(R_atomic, {"fn": name, "first_mutation_stmt": first_mut, "tolerated_listfile_maintenance": tolerated})

    # tombstones: a released slot must keep probe chains intact
    R_tomb = ctx.rule("C06.released-slots-are-tombstoned", "mutators release a hash slot only with the DELETED marker — never by resetting it to never-used, which would cut the probe chain of colliding names", floor=3)
    for name in ("add_file_data", "remove_file", "rename_file"):
        f = mpq.fns.get(MUT + name)
        if f is None or not f.hir:
            continue
        rel = 0
        for x in hirq.walk(f.hir["body"]):
            if x.get("k") != "assign":
                continue
            lr, rr = hirq.render(x["l"]), hirq.render(x["r"])
            if not re.search(r"hash_table", lr) and not re.search(r"block_index$", lr):
                continue
            if re.search(r"EMPTY_NEVER_USED|HashEntry::empty\(\)|empty\(\)|0xFFFFFFFF|4294967295|default\(\)", rr):
                ctx.bad(R_tomb, "%s|slot-reset-to-never-used" % name, "%s:%d" % (f.file, x["ln"]), "`%s = %s`" % (lr[:60], rr[:40]),
                        "lookups stop at a never-used slot: files inserted behind this slot in the same probe chain become unreachable after the operation")
                rel += 1
            elif re.search(r"EMPTY_DELETED", rr):
                ctx.ok(R_tomb, {"fn": name, "release": rr})
                rel += 1

    # FLAG_COMPRESS only for data that actually shrank (shared with C01's threshold rule)
    R_cflag = ctx.rule("C06.compress-flag-iff-shrunk", "prepare_file_data sets FLAG_COMPRESS only under `compressed.len() < data.len()` (strict)", floor=1)
    pf = mpq.fns.get(MUT + "prepare_file_data")
    if pf is not None and pf.hir:
        from .. import cmpeval
        for n in hirq.find(pf.hir["body"], "if"):
            ats = cmpeval.atoms(n["c"])
            if len(ats) == 2 and any("compressed" in a for a in ats) and "FLAG_COMPRESS" in hirq.render(n["then"]):
                st = next(a for a in ats if "compressed" in a)
                og = next(a for a in ats if a != st)
                tt = cmpeval.truth_table(n["c"], st, og)
                if tt == {"lt": True, "eq": False, "gt": False}:
                    ctx.ok(R_cflag, {"cond": hirq.render(n["c"]), "table": tt})
                else:
                    ctx.bad(R_cflag, "prepare_file_data|flag", "%s:%d" % (pf.file, n["ln"]), "FLAG_COMPRESS set under `%s` with table %s" % (hirq.render(n["c"]), tt),
                            "incompressible data (compress() returned the input) is flagged compressed while stored raw: with encryption padding the reader decompresses raw bytes and the added file is unreadable")

    # dirty on success (MIR)
    mut_adt = "wow_mpq::modification::MutableArchive"
    dirty_idx = rules.field_index(mpq, mut_adt, "dirty")
    for name in ("add_file_data", "remove_file", "rename_file"):
        f = mpq.fns.get(MUT + name)
        if f is None:
            continue
        cfg = mirg.Cfg(f)
        setters = []
        for i, b in enumerate(f.mir["blocks"]):
            for st in b["s"]:
                if st[0] == "=" and plocal(st[1]) == 1 and pproj(st[1]) == ["*", dirty_idx] and mirg.op_int(st[2][1]) == 1:
                    setters.append(i)
        exits = [bb for bb, kind, _ in rules.success_exit_blocks(f)]
        okp = True
        for e in exits:
            if e in setters:
                continue
            p, _ = cfg.must_pass(setters, [e])
            if not p:
                okp = False
                ctx.bad(R_dirty, "%s|success-without-dirty" % name, f.where, "success exit bb%d reachable without `self.dirty = true`" % e,
                        "the change would never be flushed: it is lost on close")
        if okp and exits and setters:
            ctx.ok(R_dirty, {"fn": name, "setters": len(setters), "success_exits": len(exits)})
        elif not setters:
            ctx.bad(R_dirty, "%s|no-dirty-store" % name, f.where, "no `self.dirty = true` store", "changes are never persisted")

    # flush
    fl = mpq.fns.get(MUT + "flush")
    if fl is None:
        ctx.bad(R_flush, "flush|missing", "-", "flush not found", "anchor gone")
    else:
        ctx.saw_fn(fl)
        cfg = mirg.Cfg(fl)
        clear = [i for i, b in enumerate(fl.mir["blocks"]) for st in b["s"]
                 if st[0] == "=" and plocal(st[1]) == 1 and pproj(st[1]) == ["*", dirty_idx] and mirg.op_int(st[2][1]) == 0]
        for need in ("write_tables", "update_header"):
            blocks = [bb for bb, t in mirg.iter_calls(fl) if (ncallee(t) or "").endswith("MutableArchive::" + need)]
            checked = all(rules.flows_to_check(fl, None, plocal(t["d"])) for bb, t in mirg.iter_calls(fl) if (ncallee(t) or "").endswith("MutableArchive::" + need))
            dom = bool(blocks) and bool(clear) and all(any(cfg.dominates(b, c) for b in blocks) for c in clear)
            if dom and checked:
                ctx.ok(R_flush, {"step": need, "dominates_clear": True})
            else:
                ctx.bad(R_flush, "flush|%s" % need, fl.where, "%s %s" % (need, "result unchecked" if blocks and not checked else "does not dominate `dirty = false`" if blocks else "is not called"),
                        "the dirty flag would be cleared although the tables/header were not written: modifications are lost")
        if not clear:
            ctx.bad(R_flush, "flush|never-clears", fl.where, "no `dirty = false`", "shape changed")
    dr = mpq.fns.get("<wow_mpq::modification::MutableArchive as core::ops::drop::Drop>::drop")
    if dr is not None and any((ncallee(t) or "").endswith("MutableArchive::flush") for _, t in mirg.iter_calls(dr)):
        ctx.ok(R_flush, {"drop": "calls flush"})
    else:
        ctx.bad(R_flush, "Drop|no-flush", dr.where if dr else "-", "Drop for MutableArchive does not call flush", "changes made without an explicit flush are lost when the archive is dropped")

    # compact skip discipline
    cp = mpq.fns.get(MUT + "compact")
    if cp is None or not cp.hir:
        ctx.bad(R_compact, "compact|missing", "-", "compact not found", "anchor gone")
    else:
        ctx.saw_fn(cp)
        body = cp.hir["body"]
        nskip = 0
        for lp in hirq.find(body, "for"):
            # continues directly in this loop (not nested loops' continues)
            for n in hirq.walk(lp["body"]):
                if n.get("k") == "if" and any(x.get("k") == "continue" for x in hirq.walk(n["then"])):
                    c = hirq.render(n["c"])
                    nskip += 1
                    if re.search(r"is_valid|is_deleted|is_empty|\(listfile\)|\(attributes\)|\(signature\)", c):
                        ctx.ok(R_compact, {"skip_condition": c[:100]})
                    else:
                        ctx.bad(R_compact, "compact|skip|%s" % c[:50], "%s:%d" % (cp.file, n["ln"]), "entries are skipped under `%s`" % c[:100],
                                "compaction drops files other than the internal special files")
            for m in hirq.find(lp["body"], "match"):
                for arm in m["arms"]:
                    if hirq.is_err_ctor(hirq.pat_ctor(arm["pat"])) and any(x.get("k") == "continue" for x in hirq.walk(arm["body"])):
                        nskip += 1
                        ctx.bad(R_compact, "compact|Err-continue|%s" % re.sub(r"\(.*", "", hirq.render(m["e"]))[-30:], "%s:%d" % (cp.file, arm["ln"]),
                                "`match %s`: Err => continue" % hirq.render(m["e"])[:60], "an unreadable file is silently removed from the archive by compaction")
        # anonymous names
        if any((c.get("fn") or "").endswith("generate_anonymous_filename") for c in hirq.calls(body)):
            ctx.bad(R_compact, "compact|anonymous-names", cp.where, "entries missing from the listfile are re-added under generated names",
                    "the file becomes unreachable under its real name after compaction")
        if nskip == 0:
            ctx.bad(R_compact, "compact|no-skip-sites", cp.where, "no skip condition recognised in compact", "shape changed")

    # insertion into an existing archive's table reuses tombstones: a slot is free when it is never-used OR deleted
    R_reuse = ctx.rule("C06.insertion-reuses-deleted-slots", "MutableArchive::add_to_hash_table accepts a slot exactly when it is never-used or deleted (truth table over the three kinds of entry)", floor=1)
    from .c02 import make_entry_state_table
    est = make_entry_state_table(mpq)
    ins = next((f for f in mpq.fn_list if f.hir and f.kind != "Closure" and norm(f.path) == "wow_mpq::modification::MutableArchive::add_to_hash_table"), None)
    if ins is None:
        ctx.bad(R_reuse, "add_to_hash_table|missing", "-", "function not found", "anchor gone")
    else:
        ctx.saw_fn(ins)
        hit = False
        for lp in hirq.find(ins.hir["body"], "loop"):
            for n in hirq.find(lp["body"], "if"):
                writes = any(x.get("k") == "assign" and hirq.strip(x["l"]).get("k") == "un" for x in hirq.walk(n["then"])) or any(x.get("k") == "struct" and x["res"].get("def", "").endswith("HashEntry") for x in hirq.walk(n["then"]))
                if not writes:
                    continue
                tab = est(n["c"])
                if tab is None:
                    continue
                hit = True
                if tab == {"occupied": False, "deleted": True, "never-used": True}:
                    ctx.ok(R_reuse, {"cond": hirq.render(n["c"])[:70], "table": tab})
                else:
                    ctx.bad(R_reuse, "add_to_hash_table|free-slot-test", "%s:%d" % (ins.file, n["ln"]), "a slot is taken when `%s`: %s" % (hirq.render(n["c"])[:70], tab),
                            "every remove/rename/replace leaves a deleted marker; if insertion does not reuse them the never-used slots run out after a bounded number of operations and add/rename/replace fail with 'hash table full' on a nearly empty table — after the old entry was already released")
        if not hit:
            ctx.bad(R_reuse, "add_to_hash_table|shape", ins.where, "no slot-acceptance test on the entry's state recognised", "shape changed")

    # positions are kept in one frame: absolute (container file) and archive-relative offsets are never mixed
    R_frame = ctx.rule("C06.positions-in-one-frame", "in the archive reader / in-place modifier no max/min/comparison/assignment mixes an absolute file position with an archive-relative one, and no seek targets a relative one", floor=100)
    from .. import frames
    n_chk = 0
    for f in mpq.fn_list:
        if f.kind == "Closure" or not f.hir or "::tests::" in f.path or "::debug::" in f.path or not re.search(r"wow_mpq::(archive|modification|patch_chain|rebuild)::", f.path):
            continue
        try:
            fr = frames.Frames(mpq, f).run()
        except RecursionError:
            continue
        n_chk += fr.checked
        seen_ = set()
        for ln, what in fr.clashes:
            if what in seen_:
                continue
            seen_.add(what)
            ctx.saw_fn(f)
            ctx.bad(R_frame, "%s|frame|%s" % (norm(f.path), re.sub(r"[^a-z_]+", "_", what.split(":")[0])[:40]), "%s:%s" % (f.file, ln or f.lo), what,
                    "harmless only while the archive starts at offset 0 of its file: for an embedded / prefixed archive the position computed here is off by the archive offset (new data written over the tables, wrong block read, wrong key)")
    ctx.rules[R_frame]["obligations"] += n_chk
    ctx.rules[R_frame]["discharged"] += n_chk

    # the block table grows with every added file: its write position is chosen by comparing the new size with the room it had
    R_grow = ctx.rule("C06.grown-block-table-not-written-in-place", "in write_tables the position the block table is written at is selected by a comparison of its new entry count with the header's old block_table_size (a grown table moves to the end of the archive)", floor=1)
    wt = next((f for f in mpq.fn_list if f.hir and f.kind != "Closure" and norm(f.path) == "wow_mpq::modification::MutableArchive::write_tables"), None)
    if wt is None:
        ctx.bad(R_grow, "write_tables|missing", "-", "function not found", "anchor gone")
    else:
        ctx.saw_fn(wt)
        body = wt.hir["body"]
        lets = {}
        for l in hirq.find(body, "let"):
            if l["pat"].get("k") == "bind" and l.get("init") is not None:
                lets.setdefault(l["pat"]["name"], []).append(l)
        # the seek that precedes the block-table bytes: its target mentions block_table_pos directly or through a local
        found = False
        for c in hirq.calls(body):
            if not (c.get("fn") or "").endswith("SeekFrom::Start") or not c.get("args"):
                continue
            a = hirq.strip(c["args"][0])
            r_ = hirq.render(a)
            chain = [a]
            if a.get("k") == "path" and a["res"].get("local") in lets:
                chain += [l["init"] for l in lets[a["res"]["local"]]]
            txt = " ".join(hirq.render(x) for x in chain)
            if "block_table_pos" not in txt or "hi_block" in txt:
                continue
            found = True
            selected = False
            for x in chain:
                for n in hirq.walk(x):
                    if n.get("k") == "if" and re.search(r"block_table_size|old_block_table_size", " ".join(hirq.render(lets[v["res"]["local"]][0]["init"]) if v.get("k") == "path" and v["res"].get("local") in lets else hirq.render(v) for v in hirq.walk(n["c"]) if v.get("k") in ("path", "field"))):
                        selected = True
            if selected:
                ctx.ok(R_grow, {"seek": r_[:60], "position_selected_by_size_comparison": True})
            else:
                ctx.bad(R_grow, "write_tables|block-table-in-place", "%s:%d" % (wt.file, c["ln"]), "the block table is written at `%s` whatever its new size" % txt[:80],
                        "file data added in the session starts right behind the old tables: a table that grew by more than the alignment slack overwrites the first appended files (content differs after reopen, no error)")
        if not found:
            ctx.bad(R_grow, "write_tables|shape", wt.where, "no seek to the block table position recognised", "shape changed")

    _session_state_rules(ctx, mpq)
    _rename_key_rule(ctx, mpq)
    _payload_length_rule(ctx, mpq)
    version_gate_rule(ctx, mpq, "C06", r"::modification::")


def version_gate_rule(ctx, mpq, pid, scope):
    """(C06, also armed for the builder in C01) which archives carry HET/BET tables is a rule of the format (version >= 3) that the reader
    applies in load_tables; every writer-side gate that chooses the HET/BET code path admits exactly the versions the reader's gate admits"""
    R = ctx.rule("%s.het-bet-path-gate-equals-the-readers" % pid, "each pure `version >= / == / > Vk` test in %s that guards HET/BET code (or a *_v3_plus / *_het_bet call) admits the same subset of {V1..V4} as the gate of Archive::load_tables" % scope, floor=1)
    ORD = {"V1": 1, "V2": 2, "V3": 3, "V4": 4}

    def gate(c):
        c = hirq.strip(c)
        if c.get("k") == "un" and c.get("op") == "Not":
            # `!(version < V3)` admits the complement
            inner = gate(c["e"])
            return frozenset(v for v in (1, 2, 3, 4) if v not in inner) if inner is not None else None
        if c.get("k") != "bin" or c["op"] not in ("<", "<=", ">", ">=", "==", "!="):
            return None
        l, r = hirq.strip(c["l"]), hirq.strip(c["r"])
        op = c["op"]
        vk = lambda e: (re.search(r"FormatVersion::(V[1-4])$", (e.get("res") or {}).get("def") or "") or [None, None])[1] if e.get("k") == "path" else None
        if vk(l) and not vk(r):
            l, r = r, l
            op = {"<": ">", "<=": ">=", ">": "<", ">=": "<=", "==": "==", "!=": "!="}[op]
        if not vk(r) or not re.search(r"version$", hirq.render(l)):
            return None
        k = ORD[vk(r)]
        return frozenset(v for v in (1, 2, 3, 4) if {"<": v < k, "<=": v <= k, ">": v > k, ">=": v >= k, "==": v == k, "!=": v != k}[op])
    ref = None
    lt = mpq.fns.get("wow_mpq::archive::Archive::load_tables")
    if lt is not None and lt.hir:
        for n in hirq.find(lt.hir["body"], "if"):
            g = gate(n["c"])
            if g is not None and re.search(r"het|bet", hirq.render(n["then"]), re.I) and len(g) > 1:   # (`== V3` sub-cases inside are not the gate)
                ref = g
                break
    if ref is None:
        ctx.bad(R, "load_tables|gate", "-", "the reader's HET/BET version gate was not recognised", "anchor gone")
        return
    for f in mpq.fn_list:
        if not f.hir or f.kind == "Closure" or "::tests::" in f.path or not re.search(scope, f.path):
            continue
        for n in hirq.find(f.hir["body"], "if"):
            g = gate(n["c"])
            if g is None:
                # the test may be held in a local first (`let use_het_bet = self.version >= V3;`)
                c0 = hirq.strip(n["c"])
                if c0.get("k") == "path" and "local" in (c0.get("res") or {}):
                    gs = [gate(v) for v in hirq.value_leaves(f.hir["body"], c0) if v is not None]
                    g = gs[0] if len(gs) == 1 else None
            if g is None:
                continue
            # only gates that choose the HET/BET *code path*: the guarded arm calls into it
            if not any(c_.get("k") in ("call", "mcall") and re.search(r"v3_plus$|_het_bet$|write_het_table$|write_bet_table$|create_het_table\w*$|create_bet_table\w*$", (c_.get("fn") or c_.get("m") or "")) for c_ in hirq.walk(n["then"])):
                continue
            ctx.saw_fn(f)
            inst = {"fn": f.path.split("::")[-1], "gate": hirq.render(n["c"])[:50], "admits": sorted(g)}
            if g == ref:
                ctx.ok(R, inst)
            else:
                ctx.bad(R, "%s|gate" % f.path.split("::")[-1], "%s:%d" % (f.file, n.get("ln") or 0), "`%s` admits versions %s; the reader loads HET/BET for versions %s" % (hirq.render(n["c"])[:50], sorted(g), sorted(ref)),
                        "archives of the versions in the difference are written through the other table path: their HET/BET tables (which the reader prefers) go stale — a removed file is readable again after reopen, a renamed one under both names")


def _self_field(e):
    e = hirq.strip(e)
    while e.get("k") in ("ref", "un", "cast"):
        e = hirq.strip(e["e"])
    if e.get("k") == "field" and hirq.render(e["e"]) in ("self", "(*self)", "*self"):
        return e["name"]
    return None


def _session_state_rules(ctx, mpq):
    """state that outlives one operation: the file cursor, the table positions remembered for the header, the header rewrite itself"""
    from .. import wire
    from .c02 import pick_version, VERS
    MA = "wow_mpq::modification::MutableArchive::"
    meths = [f for f in mpq.fn_list if f.kind != "Closure" and f.path.startswith(MA)]

    # (1) the shared file handle's cursor is wherever the last read or write ended (reading the listfile leaves it inside the file
    # data): a position taken from it means something only after this function itself has placed or advanced the cursor
    R_cur = ctx.rule("C06.positions-not-taken-from-the-ambient-cursor", "in MutableArchive every File::stream_position() is dominated, in the same function, by a seek or a write on the file", floor=1)
    for f in meths:
        if not f.mir or not f.mir.get("blocks"):
            continue
        sp = [(bb, t) for bb, t in mirg.iter_calls(f) if re.search(r"Seek>::stream_position$", mirg.callee(t) or "")]
        if not sp:
            continue
        ctx.saw_fn(f)
        cfg = mirg.Cfg(f)
        placed = [bb for bb, t in mirg.iter_calls(f) if re.search(r"Seek>::(seek|rewind)$|Write>::write_all$", mirg.callee(t) or "")]
        for bb, t in sp:
            if any(p != bb and cfg.dominates(p, bb) for p in placed):
                ctx.ok(R_cur, {"fn": f.path.split("::")[-1], "line": t["ln"]})
            else:
                n_ = sum(1 for b2, t2 in sp if t2["ln"] < t["ln"])
                ctx.bad(R_cur, "%s|stream_position#%d" % (f.path.split("::")[-1], n_), "%s:%d" % (f.file, t["ln"]),
                        "`stream_position()` is read before this function has placed the cursor: the value is wherever the previous operation's last read or write ended",
                        "tables (or data) written at that position overwrite file data or the header whenever the last I/O was not at the end of the archive — e.g. after the (listfile) was read for an update, or when nothing was read at all: files the history never touched read back as other bytes")

    # (2) compact() replaces the archive file: everything an earlier operation remembered about the old file must be forgotten
    R_rst = ctx.rule("C06.compact-forgets-the-replaced-file", "every field of MutableArchive that some operation other than compact assigns or fills is re-assigned or cleared by compact", floor=8)
    MUTM = ("insert", "clear", "push", "remove", "extend", "retain", "get_or_insert_with", "entry", "drain", "truncate", "pop", "append")
    writers = {}
    for f in meths:
        if not f.hir:
            continue
        nm = f.path.split("::")[-1]
        for n in hirq.walk(f.hir["body"]):
            fl = None
            if n.get("k") in ("assign", "assignop"):
                fl = _self_field(n["l"])
            elif n.get("k") == "mcall" and n["m"] in MUTM:
                fl = _self_field(n["recv"])
            if fl:
                writers.setdefault(fl, set()).add(nm)
    cp = next((f for f in meths if f.path == MA + "compact"), None)
    if cp is None:
        ctx.bad(R_rst, "compact|missing", "-", "function not found", "anchor gone")
    else:
        ctx.saw_fn(cp)
        for fl, ws in sorted(writers.items()):
            others = sorted(ws - {"compact", "open", "new", "create"})
            if not others:
                continue
            if "compact" in ws:
                ctx.ok(R_rst, {"field": fl, "set_by": others[:4]})
            else:
                ctx.bad(R_rst, "compact|keeps|%s" % fl, cp.where, "`self.%s` (set by %s) survives compact()" % (fl, ", ".join(others[:3])),
                        "the value describes the file compact just replaced: the next flush acts on it — a table position of the old file is written into the new file's header and the archive opens without a block table")

    # (3) flush rewrites the header in place: the fields go where MpqHeader::read expects them
    R_hdr = ctx.rule("C06.header-rewrite-slots-are-the-readers", "every value update_header writes derives from the MpqHeader field that MpqHeader::read_with_limits reads from that slot (per version)", floor=20)
    uh = next((f for f in meths if f.path == MA + "update_header"), None)
    rd = mpq.fns.get("wow_mpq::header::MpqHeader::read_with_limits")
    hdr = next((a for a in mpq.items["adts"] if a["path"] == "wow_mpq::header::MpqHeader"), None)
    if uh is None or rd is None or hdr is None or not uh.hir:
        ctx.bad(R_hdr, "update_header|missing", "-", "update_header, MpqHeader::read_with_limits or MpqHeader not found", "anchor gone")
        return
    ctx.saw_fn(uh)
    ctx.saw_fn(rd)
    hfields = {fl["name"] for fl in hdr["fields"]}
    wt, _ = wire.extract(mpq, uh, "w")
    rt, _ = wire.extract(mpq, rd, "r")
    lets = {}
    for l in hirq.find(uh.hir["body"], "let"):
        if l["pat"].get("k") == "bind" and l.get("init") is not None:
            lets[l["pat"]["name"]] = l["init"]

    def sources(name, depth=0):
        """MpqHeader fields a written local derives from"""
        if name in hfields:
            return {name}
        init = lets.get(name)
        if init is None or depth > 3:
            return set()
        out = {x["name"] for x in hirq.walk(init) if x.get("k") == "field" and x["name"] in hfields}
        for x in hirq.walk(init):
            if x.get("k") == "path" and (x.get("res") or {}).get("local") in lets and x["res"]["local"] != name:
                out |= sources(x["res"]["local"], depth + 1)
        return out
    for ver in VERS:
        ws = [t for t in pick_version(wt, ver) if t.k in ("P", "B")]
        rs = [t for t in pick_version(rt, ver) if t.k in ("P", "B")][:len(ws)]
        if [t.w for t in ws] != [t.w for t in rs]:
            ctx.bad(R_hdr, "update_header|%s|widths" % ver, uh.where, "%s: writes widths %s where the reader reads %s" % (ver, [t.w for t in ws], [t.w for t in rs]), "every later header field lands at the wrong offset")
            continue
        for w_, r_ in zip(ws, rs):
            rn = re.sub(r"_raw$", "", r_.name or "")
            if rn not in hfields or not w_.name:
                continue
            if rn in ("het_table_pos", "bet_table_pos"):
                # not decided here: a wrong HET/BET position makes the reader drop those tables and resolve every name through the
                # classic tables, which the modifier always keeps — the reopened map is the same.  (Today the two are written swapped;
                # recorded in DESIGN §8.4 as an observation outside the property.)
                if ver == "V3":
                    ctx.note_unarmed(R_hdr, rn, "HET/BET positions: a wrong value is masked by the classic-table fallback, so the reopened map does not depend on it")
                continue
            src = sources(w_.name)
            if not src:
                continue
            if rn in src:
                ctx.ok(R_hdr, {"version": ver, "slot": rn, "written_from": sorted(src)})
            else:
                ctx.bad(R_hdr, "update_header|%s|%s" % (ver, rn), uh.where, "%s: the slot the reader takes as `%s` is written from `%s` (%s)" % (ver, rn, w_.name, ", ".join(sorted(src))),
                        "after any flush the header names one table's position as another's: the reader rejects or misreads both tables")


def _payload_length_rule(ctx, mpq):
    """what the block entry records as the stored size is the length of what compression produced: the reader tells a compressed single
    unit from a raw one by stored size < file size, and LZMA / bzip2 streams do not tolerate trailing bytes.  The modifier must not grow
    the payload (zero padding to a dword boundary before encryption) — the cipher handles a short tail itself, as the builder's does"""
    R = ctx.rule("C06.stored-payload-is-not-padded", "no function of modification.rs pushes / resizes bytes onto a buffer under a `% 4` / is_multiple_of(4) test (padding to the cipher's word size)", floor=1)
    n = 0
    for f in mpq.fn_list:
        if not f.hir or f.kind == "Closure" or "::modification::" not in f.path or "::tests::" in f.path:
            continue
        enc = any(c.get("k") in ("call", "mcall") and re.search(r"encrypt", (c.get("fn") or "") + (c.get("m") or "")) for c in hirq.walk(f.hir["body"]))
        if not enc:
            continue
        n += 1
        ctx.saw_fn(f)
        pad = None
        for x in hirq.walk(f.hir["body"]):
            if x.get("k") in ("while", "loop", "if"):
                cond = hirq.render(x.get("c") or x.get("body") or {})[:300] if x.get("k") != "loop" else hirq.render(x["body"])[:300]
                if re.search(r"is_multiple_of\(4\)|% 4\)", cond):
                    body_ = x.get("body") or x.get("then") or {}
                    if any(c.get("k") == "mcall" and c["m"] in ("push", "resize", "extend", "extend_from_slice") for c in hirq.walk(x)):
                        pad = x
        if pad is None:
            ctx.ok(R, {"fn": f.path.split("::")[-1], "pads": False})
        else:
            ctx.bad(R, "%s|pads-before-encryption" % f.path.split("::")[-1], "%s:%d" % (f.file, pad.get("ln") or 0), "the data to be stored is padded to a multiple of 4 bytes before it is encrypted, and the padded length becomes the stored size",
                    "a compressed payload whose padded length equals the file size reads back as the still-compressed bytes (the reader takes stored == original as raw); LZMA and bzip2 payloads fail to decode with bytes after the stream")
    if n == 0:
        ctx.bad(R, "modification|no-encrypting-function", "-", "no function of modification.rs encrypts data", "shape changed")


def _rename_key_rule(ctx, mpq):
    """the key of an encrypted file derives from its name (readers compute hash_string(requested name, FILE_KEY)): moving the hash
    entry alone leaves the data under the old name's key.  rename_file either refuses encrypted files before it changes anything,
    or re-encrypts the data"""
    R = ctx.rule("C06.rename-accounts-for-the-name-derived-key", "rename_file tests the block's encryption flag and leaves with Err before its first table mutation (or re-encrypts the file data)", floor=1)
    f = mpq.fns.get("wow_mpq::modification::MutableArchive::rename_file")
    if f is None or not f.hir:
        ctx.bad(R, "rename_file|missing", "-", "function not found", "anchor gone")
        return
    ctx.saw_fn(f)
    body = f.hir["body"]
    order = {id(n): i for i, n in enumerate(hirq.walk(body))}
    muts = [order[id(n)] for n in hirq.walk(body)
            if (n.get("k") == "assign" and re.search(r"hash_table|block_index|EMPTY_DELETED", hirq.render(n)))
            or (n.get("k") == "mcall" and n["m"] in ("add_to_hash_table", "remove_from_listfile", "update_listfile"))]
    if not muts:
        ctx.bad(R, "rename_file|shape", f.where, "no hash-table mutation recognised", "shape changed")
        return
    first = min(muts)
    lets = {l["pat"]["name"]: l["init"] for l in hirq.find(body, "let") if l["pat"].get("k") == "bind" and l.get("init") is not None}

    def mentions_enc(e, depth=0):
        for x in hirq.walk(e):
            if x.get("k") == "mcall" and x["m"] == "is_encrypted":
                return True
            if x.get("k") == "path" and re.search(r"ENCRYPTED$", (x.get("res") or {}).get("def") or ""):
                return True
        if depth > 3:
            return False
        return any(x.get("k") == "path" and (x.get("res") or {}).get("local") in lets and mentions_enc(lets[x["res"]["local"]], depth + 1) for x in hirq.walk(e))
    guard = None
    for n in hirq.find(body, "if"):
        if order[id(n)] < first and mentions_enc(n["c"]) and any(x.get("k") == "ret" and "Err" in hirq.render(x.get("e")) for x in hirq.walk(n["then"])):
            guard = n
    reenc = any(re.search(r"encrypt_block|reencrypt|re_encrypt|recrypt", (c.get("fn") or "") + " " + (c.get("m") or "")) for c in hirq.walk(body) if c.get("k") in ("call", "mcall"))
    if guard is not None:
        ctx.ok(R, {"fn": "rename_file", "refuses": hirq.render(guard["c"])[:60], "before_first_mutation": True})
    elif reenc:
        ctx.ok(R, {"fn": "rename_file", "re_encrypts": True})
    else:
        ctx.bad(R, "rename_file|key-follows-name", f.where, "rename_file moves the hash entry of any file: no test of the encryption flag precedes the first table mutation and nothing re-encrypts the data",
                "an encrypted file stays encrypted under the key of its old name; read under the new name it decrypts to garbage (or fails to decompress) although rename reported success")



def _session_files_stored_plain_rule(ctx, mpq):
    """the in-session reader of MutableArchive (read_current_file) serves a block it wrote itself only when that block is stored
    plain — for a compressed or encrypted block it falls back to the read-only view taken at open, i.e. to the file's content
    *before* the session.  So every internal file the modifier reads back through it ("(listfile)", "(attributes)") must be
    written plain by the modifier, on every value its options can take; otherwise the second maintenance step of a session starts
    from stale content and names added earlier in the session drop out of the listing."""
    R = ctx.rule("C06.session-maintained-files-are-stored-plain", "every add_file_data(.., \"(name)\", options) in modification.rs for a name the modifier reads back through read_current_file uses compression None (every tail of the value) and no encryption — or read_current_file has no fallback to the open-time view for compressed blocks", floor=3)
    M_ = "wow_mpq::modification::MutableArchive::"
    rcf = mpq.fns.get(M_ + "read_current_file")
    if rcf is None or not rcf.hir:
        ctx.bad(R, "read_current_file|missing", "-", "function not found", "anchor gone")
        return
    ctx.saw_fn(rcf)
    stale = any(n.get("k") == "if" and re.search(r"is_compressed\(\)|is_encrypted\(\)", hirq.render(n["c"])) and
                any(c.get("k") == "mcall" and c["m"] == "read_file" and re.search(r"self\.archive$", hirq.render(c["recv"])) for c in hirq.walk(n["then"]))
                for n in hirq.find(rcf.hir["body"], "if"))
    read_back = set()
    writers = []
    for f in mpq.fn_list:
        if not f.file.endswith("modification.rs") or f.kind == "Closure" or not f.hir or "::tests::" in f.path:
            continue
        for c in hirq.walk(f.hir["body"]):
            if c.get("k") == "mcall" and c["m"] == "read_current_file" and c.get("args") and hirq.lit_str(hirq.strip(c["args"][0])):
                read_back.add(hirq.lit_str(hirq.strip(c["args"][0])))
            if c.get("k") == "mcall" and c["m"] == "add_file_data" and len(c.get("args") or []) == 3 and hirq.lit_str(hirq.strip(c["args"][1])):
                writers.append((f, c))
    if not stale:
        ctx.ok(R, {"read_current_file": "no fallback to the open-time view for compressed / encrypted blocks"})
        ctx.rules[R]["floor"] = 1
        return
    for f, c in writers:
        name = hirq.lit_str(hirq.strip(c["args"][1]))
        if name not in read_back:
            continue
        body = f.hir["body"]
        chain_roots = [v for v in hirq.value_leaves(body, c["args"][2]) if v is not None]
        comp_vals, enc = [], False
        saw_comp = False
        for root in chain_roots:
            x = hirq.strip(root)
            while x.get("k") == "mcall":
                if x["m"] == "compression" and x.get("args"):
                    saw_comp = True
                    comp_vals += [v for v in hirq.value_leaves(body, x["args"][0]) if v is not None]
                if x["m"] in ("encrypt", "fix_key"):
                    enc = True
                x = hirq.strip(x["recv"])
        notplain = [v for v in comp_vals if not (v.get("k") == "path" and (v["res"].get("def") or "").endswith("CompressionMethod::None"))]
        fn_ = norm(f.path).split("::")[-1]
        ctx.saw_fn(f)
        if saw_comp and not notplain and not enc:
            ctx.ok(R, {"fn": fn_, "file": name, "compression": "None on every value"})
        else:
            what = "encrypted" if enc else ("compression `%s`" % hirq.render(notplain[0])[:40] if notplain else "the default compression of AddFileOptions")
            ctx.bad(R, "%s|%s|not-plain" % (fn_, name), "%s:%d" % (f.file, c.get("ln") or 0), "%s rewrites %s with %s" % (fn_, name, what),
                    "read_current_file cannot read such a block back and silently answers with the %s of the archive as it was opened: the next update of %s in the same session starts from stale content — names added or renamed earlier in the session drop out, removed ones return" % (name, name))


def run_extra(ctx):
    """rules armed after run(): shared rules that need nothing from run()'s locals"""
    from ..shared import setters_keep_other_settings_rule
    setters_keep_other_settings_rule(ctx, [ctx.prog.crate(c) for c in ["wow_mpq"]], "C06", "modification::AddFileOptions$", floor=3)
    _session_files_stored_plain_rule(ctx, ctx.prog.crate("wow_mpq"))
