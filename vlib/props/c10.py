"""C10 — corruption of protected data is detected.

Structural clauses: every digest that is computed on a read/verify path flows into an equality
whose outcome is branched on or returned; every stored checksum that is read is compared; no
synthetic data is substituted when decoding fails on an Ok path; every v4 header digest is verified
against the table it names and reported; signature generator and verifier hash through the same
range function and the padding verifier keeps all of its comparisons.
"""
import re

from .. import hirq, mirg, rules
from ..mirg import plocal, pproj, op_local
from ..rules import ncallee, norm

META = {
    "level": "other",
    "technique": "forward value-flow (computed digest → equality → branch/return) on MIR + unused-stored-checksum rule + synthetic-data-on-error rule + field/status pairing on typed HIR",
    "claim": "Decides that each integrity mechanism named in the property is actually wired: computed ⇒ compared ⇒ can fail, on every read/verify function; no zero-filled substitute on decode failure; all six v4 digests verified with the matching table and reported; weak-signature sign/verify share the hash-range function; the PKCS#1 verifier retains its eight comparisons. Does not flip bytes at every offset. Also: per-sector validation is guarded only by loop-invariant presence; the signature area is zeroed exactly on overlap (all orderings of the four end points); protected bytes are read at absolute positions (offset frames); signature zero-padding matches the byte order. Wave 5: no path from a checksum computation to an Ok return avoids its comparison; the two (attributes) layout sizes are one formula (16 flag sets x 18 counts); update_attributes takes checksums from the data written, not from the stale view. Wave 6: the guards of the SFILE_VERIFY_* sections read no local assigned in the function (requested verifications are independent); rewritten internal files get fresh attributes. Wave 7: the checksum table is expected from the smallest sector count the builder writes it for; FLAG_SECTOR_CRC implies a written checksum (shared with C01); V4 digest slots are filled from their own table's writer, which digests the buffer it writes; every single-unit reader checks the trailer; RSA verifiers require s < n; an unparsable (signature) is invalid, not absent. Wave 8: (no new rule; two wave-8 changes were reported at first contact).",
    "note": "Trusted: adler2/crc32fast/md5 crates; that an equality on the digest bytes is the right test. The flow analysis is intra-procedural plus closures; adapters are followed liberally (a digest that reaches no equality at all is what the rule reports).",
    "assumptions": ["checksums are only meaningful if compared with ==/!= (or a PartialEq impl) on the same path that returns the data"],
    "explanation": "read_file, read_sectored_file, validate_v4_md5_checksums (+closure), the storm-ffi per-file verifier, the signature routines and the PKCS#1 padding verifier.",
}

DIGEST = re.compile(r"(adler2::adler32_slice|adler2::Adler32::checksum|crc32fast::hash|crc32fast::Hasher::finalize|"
                    r"digest::digest::Digest>::finalize|digest::digest::Digest>::digest|calculate_mpq_hash_md5|calculate_md5)$")
EQ_CALL = re.compile(r"(::eq|::ne)$")
VERIFY_FN = re.compile(r"(verify_pkcs1_v15_md5|verify_mpq_strong_signature_padding|::verify)$")
NAMED_SUM = re.compile(r"(?i)^(.*_)?(crc|crcs|checksum|checksums|adler|md5|digest)(_.*)?$")


def forward(fn, start_local, max_steps=400):
    """returns dict: eq sites reached, whether the bool result is branched/returned"""
    blocks = fn.mir["blocks"]
    seen = set()
    work = [start_local]
    eqs = []
    verify_calls = []
    while work and len(seen) < max_steps:
        l = work.pop()
        if l in seen:
            continue
        seen.add(l)
        for i, b in enumerate(blocks):
            for st in b["s"]:
                if st[0] != "=":
                    continue
                rv = st[2]
                used = any(op_local(o) == l for o in mirg.rvalue_operands(rv))
                if not used:
                    continue
                if rv[0] == "bin" and rv[1] in ("Eq", "Ne"):
                    eqs.append((i, st[3], plocal(st[1])))
                else:
                    work.append(plocal(st[1]))
            t = b["t"]
            if t["k"] == "call" and any(op_local(a) == l for a in t["a"]):
                c = ncallee(t) or ""
                if EQ_CALL.search(c) and "fmt" not in c:
                    eqs.append((i, t["ln"], plocal(t["d"])))
                elif VERIFY_FN.search(c):
                    verify_calls.append((i, t["ln"], plocal(t["d"])))
                else:
                    work.append(plocal(t["d"]))
                    # mutation through `&mut container` arguments (Vec::push, read_exact(&mut buf), ...)
                    for a in t["a"]:
                        al = op_local(a)
                        if al is None or al == l:
                            continue
                        for b2 in blocks:
                            for st2 in b2["s"]:
                                if st2[0] == "=" and plocal(st2[1]) == al and st2[2][0] == "refmut":
                                    work.append(plocal(st2[2][1]))
    return eqs, verify_calls, seen


def bool_consumed(fn, local):
    """is a comparison result branched on, negated-then-branched, stored in a returned aggregate, or returned?"""
    return rules.flows_to_check(fn, None, local, depth=8) or _flows_to_return(fn, local)


def _flows_to_return(fn, local):
    seen = set()
    work = [local]
    while work:
        l = work.pop()
        if l in seen:
            continue
        seen.add(l)
        if l == 0:
            return True
        for b in fn.mir["blocks"]:
            for st in b["s"]:
                if st[0] == "=" and any(op_local(o) == l for o in mirg.rvalue_operands(st[2])):
                    work.append(plocal(st[1]))
            t = b["t"]
            if t["k"] == "switch" and op_local(t["d"]) == l:
                return True
            if t["k"] == "call" and any(op_local(a) == l for a in t["a"]):
                work.append(plocal(t["d"]))
    return False


class _NoEval(Exception):
    pass


def _ival(n, env, lets, depth=0):
    """integer value of an expression under env (local name -> int; the special key "__leaf__" may hold a callable
    render -> int for otherwise unknown leaves); unknown locals are evaluated from their single `let`"""
    n = hirq.strip(n)
    k = n.get("k")
    if depth > 12:
        raise _NoEval("depth")
    if k == "bin" and n["op"] in ("/", "%"):
        a, b = _ival(n["l"], env, lets, depth + 1), _ival(n["r"], env, lets, depth + 1)
        if b == 0:
            raise _NoEval("division by zero")
        return a // b if n["op"] == "/" else a % b
    if k == "mcall" and n["m"] == "div_ceil" and len(n["args"]) == 1:
        a, b = _ival(n["recv"], env, lets, depth + 1), _ival(n["args"][0], env, lets, depth + 1)
        if b == 0:
            raise _NoEval("division by zero")
        return -(-a // b)
    leaf = env.get("__leaf__")
    if leaf is not None and k in ("field", "mcall", "call", "index") and not (k == "call" and re.search(r"cmp::(min|max)$", n.get("fn") or "")) and not (k == "mcall" and n["m"] in ("min", "max", "saturating_sub", "wrapping_sub", "checked_sub", "checked_add", "checked_mul", "wrapping_add", "wrapping_mul", "saturating_add", "saturating_mul", "ok_or_else", "ok_or", "unwrap", "expect", "into", "try_into", "unwrap_or_default", "map_or")):
        v = leaf(hirq.render(n))
        if v is not None:
            return v
    if leaf is not None and k == "path" and "def" in n["res"]:
        v = leaf(n["res"]["def"].split("::")[-1])
        if v is not None:
            return v
    if leaf is not None and k == "path" and "local" in n["res"] and n["res"]["local"] not in env and n["res"]["local"] not in lets:
        v = leaf(n["res"]["local"])
        if v is not None:
            return v
    if k == "lit" and "int" in n["v"]:
        return int(n["v"]["int"])          # (values beyond i64 are carried as strings in the fact files)
    if k == "path" and "def" in n["res"] and (env.get("__consts__") or hirq.PROGRAM_CONSTS):
        # a named integer constant (module-level or function-local `const`), value as evaluated by the compiler
        cv = (env.get("__consts__") or hirq.PROGRAM_CONSTS).get(n["res"]["def"])
        if isinstance(cv, dict):
            cv = cv.get("v")
        if isinstance(cv, str) and re.fullmatch(r"-?\d+", cv):
            cv = int(cv)
        if isinstance(cv, int) and not isinstance(cv, bool):
            return cv
    if k == "path" and "def" in n["res"] and re.search(r"::(MAX|MIN|BITS)$", n["res"]["def"]) and env.get("__ty__") is not None:
        nm = env["__ty__"](n.get("t")) or ""
        m_ = re.fullmatch(r"([ui])(8|16|32|64|size)", nm)
        if m_:
            bits = 64 if m_.group(2) == "size" else int(m_.group(2))
            what = n["res"]["def"].rsplit("::", 1)[1]
            if what == "BITS":
                return bits
            if m_.group(1) == "u":
                return (1 << bits) - 1 if what == "MAX" else 0
            return (1 << (bits - 1)) - 1 if what == "MAX" else -(1 << (bits - 1))
    if k == "cast" or k == "try":
        v = _ival(n["e"], env, lets, depth + 1)
        tyf = env.get("__ty__")
        if k == "cast" and tyf is not None:
            # `as` to a narrower integer truncates (two's complement for the signed ones)
            nm = tyf(n.get("t")) or ""
            bits = {"u8": 8, "u16": 16, "u32": 32, "u64": 64, "usize": 64, "i8": 8, "i16": 16, "i32": 32, "i64": 64, "isize": 64}.get(nm)
            if bits:
                v &= (1 << bits) - 1
                if nm.startswith("i") and v >= 1 << (bits - 1):
                    v -= 1 << bits
        return v
    if k == "mcall" and n["m"] in ("ok_or_else", "ok_or", "unwrap", "expect", "unwrap_or_default", "into", "try_into") and hirq.strip(n["recv"]).get("k") in ("mcall", "try", "call", "path", "cast"):
        # `a.checked_sub(b).ok_or_else(..)?` is `a - b` on the path that continues
        return _ival(n["recv"], env, lets, depth + 1)
    if k == "mcall" and n["m"] in ("wrapping_add", "wrapping_mul", "saturating_add", "saturating_mul") and len(n["args"]) == 1:
        a, b = _ival(n["recv"], env, lets, depth + 1), _ival(n["args"][0], env, lets, depth + 1)
        tyf = env.get("__ty__")
        nm = (tyf(n.get("t")) or "") if tyf is not None else ""
        bits = {"u8": 8, "u16": 16, "u32": 32, "u64": 64, "usize": 64}.get(nm)
        v = a * b if n["m"] in ("wrapping_mul", "saturating_mul") else a + b
        if bits and n["m"] in ("saturating_add", "saturating_mul"):
            return min(v, (1 << bits) - 1)
        return v & ((1 << bits) - 1) if bits else v
    if k == "mcall" and n["m"] in ("checked_add", "checked_mul") and len(n["args"]) == 1:
        a, b = _ival(n["recv"], env, lets, depth + 1), _ival(n["args"][0], env, lets, depth + 1)
        return a + b if n["m"] == "checked_add" else a * b
    if k == "block" and not n.get("stmts") and n.get("e"):
        return _ival(n["e"], env, lets, depth + 1)
    if k == "path" and "local" in n["res"]:
        nm = n["res"]["local"]
        if nm in env:
            return env[nm]
        if nm in lets:
            return _ival(lets[nm], env, lets, depth + 1)
        raise _NoEval(nm)
    if k == "field":
        r = hirq.render(n)
        if r in env:
            return env[r]
        raise _NoEval(r)
    if k == "if":
        c = _bval(n["c"], env, lets, depth + 1)
        return _ival(n["then"] if c else n["else"], env, lets, depth + 1)
    if k == "match":
        return _ival(_match_arm(n, env, lets, depth + 1), env, lets, depth + 1)
    if k == "bin" and n["op"] in ("+", "-", "*"):
        a, b = _ival(n["l"], env, lets, depth + 1), _ival(n["r"], env, lets, depth + 1)
        return a + b if n["op"] == "+" else a - b if n["op"] == "-" else a * b
    if k == "bin" and n["op"] in ("&", "|", "^", "<<", ">>"):
        a, b = _ival(n["l"], env, lets, depth + 1), _ival(n["r"], env, lets, depth + 1)
        if n["op"] in ("<<", ">>") and not (0 <= b <= 4096):
            raise _NoEval("shift by %d" % b)
        op_ = n["op"]
        return a & b if op_ == "&" else a | b if op_ == "|" else a ^ b if op_ == "^" else a << b if op_ == "<<" else a >> b
    if k == "call" and re.search(r"cmp::(min|max)$", n.get("fn") or "") and len(n.get("args") or []) == 2:
        a, b = _ival(n["args"][0], env, lets, depth + 1), _ival(n["args"][1], env, lets, depth + 1)
        return min(a, b) if n["fn"].endswith("min") else max(a, b)
    if k == "mcall" and n["m"] in ("min", "max") and len(n["args"]) == 1:
        a, b = _ival(n["recv"], env, lets, depth + 1), _ival(n["args"][0], env, lets, depth + 1)
        return min(a, b) if n["m"] == "min" else max(a, b)
    if k == "mcall" and n["m"] == "map_or" and len(n["args"]) == 2 and hirq.strip(n["recv"]).get("k") == "mcall" and hirq.strip(n["recv"])["m"] in ("checked_sub", "checked_add", "checked_mul"):
        # `a.checked_sub(b).map_or(d, |v| f(v))`: d on the failing path, f(a - b) otherwise
        inner = hirq.strip(n["recv"])
        a, b = _ival(inner["recv"], env, lets, depth + 1), _ival(inner["args"][0], env, lets, depth + 1)
        v = {"checked_sub": a - b, "checked_add": a + b, "checked_mul": a * b}[inner["m"]]
        tyf = env.get("__ty__")
        nm = (tyf(hirq.strip(inner["recv"]).get("t")) or "") if tyf is not None else ""
        bits = {"u8": 8, "u16": 16, "u32": 32, "u64": 64, "usize": 64}.get(nm, 64)
        if v < 0 or v >= 1 << bits:
            return _ival(n["args"][0], env, lets, depth + 1)
        cl = hirq.strip(n["args"][1])
        if cl.get("k") != "closure":
            raise _NoEval("map_or with a non-closure")
        pn = [b_ for p_ in cl.get("params", []) or [] for b_ in hirq.pat_binds(p_)]
        if len(pn) != 1:
            raise _NoEval("map_or closure arity")
        env2 = dict(env)
        env2[pn[0]] = v
        return _ival(cl["body"], env2, lets, depth + 1)
    if k == "mcall" and n["m"] in ("saturating_sub", "wrapping_sub", "checked_sub") and len(n["args"]) == 1:
        a, b = _ival(n["recv"], env, lets, depth + 1), _ival(n["args"][0], env, lets, depth + 1)
        if n["m"] == "checked_sub" and a - b < 0:
            raise _NoEval("checked_sub underflow (the error path)")
        return max(a - b, 0) if n["m"] == "saturating_sub" else a - b
    raise _NoEval(hirq.render(n)[:60])


def _pat_matches(p, v):
    k = p.get("k")
    if k == "wild" or k == "bind":
        return True
    if k == "lit":
        return p["v"].get("int") == v if "int" in p["v"] else None
    if k == "or":
        rs = [_pat_matches(q, v) for q in p.get("subs") or []]
        return None if any(r is None for r in rs) else any(rs)
    if k == "range":
        lo, hi = hirq.lit_int(p.get("lo")) if p.get("lo") else None, hirq.lit_int(p.get("hi")) if p.get("hi") else None
        if lo is None and hi is None:
            return None
        return (lo is None or v >= lo) and (hi is None or (v <= hi if p.get("incl", True) else v < hi))
    return None


def _match_arm(n, env, lets, depth):
    """the arm of a `match <integer expr> { literals / or-patterns / _ }` selected under env (guards evaluated)"""
    v = _ival(n["e"], env, lets, depth + 1)
    for a in n["arms"]:
        m_ = _pat_matches(a["pat"], v)
        if m_ is None:
            raise _NoEval("pattern " + hirq.render_pat(a["pat"])[:30])
        if m_ and (a.get("guard") is None or _bval(a["guard"], env, lets, depth + 1)):
            return a["body"]
    raise _NoEval("no arm matches")


def _call_inline(n, env):
    """(body, env) of a call to a function known in env["__fns__"] (path -> Fn) with its parameters bound to the evaluated arguments"""
    g = (env.get("__fns__") or {}).get(n.get("fn"))
    if g is None or not g.hir:
        return None
    pn = [b[0] if b else None for b in (hirq.pat_binds(p_) for p_ in g.hir["params"])]
    if len(pn) != len(n.get("args") or []) or None in pn:
        return None
    return g.hir["body"], pn


def _bval(n, env, lets, depth=0):
    n = hirq.strip(n)
    k = n.get("k")
    if k == "lit" and "bool" in n["v"]:
        return bool(n["v"]["bool"])
    if k == "match":
        return _bval(_match_arm(n, env, lets, depth), env, lets, depth + 1)
    if k == "block" and n.get("e") is not None and not n.get("stmts"):
        return _bval(n["e"], env, lets, depth + 1)
    if k == "if" and n.get("else") is not None:
        return _bval(n["then"] if _bval(n["c"], env, lets, depth + 1) else n["else"], env, lets, depth + 1)
    if k == "call":
        inl = _call_inline(n, env)
        if inl is not None:
            body, pn = inl
            env2 = {k_: v_ for k_, v_ in env.items() if k_.startswith("__")}
            for nm_, a_ in zip(pn, n["args"]):
                env2[nm_] = _ival(a_, env, lets, depth + 1)
            return _bval(body, env2, {}, depth + 1)
    if k in ("field", "mcall", "path", "call") and env.get("__bleaf__") is not None:
        v = env["__bleaf__"](hirq.render(n))
        if v is not None:
            return bool(v)
    if k == "bin" and n["op"] in ("&&", "||"):
        a, b = _bval(n["l"], env, lets, depth + 1), _bval(n["r"], env, lets, depth + 1)
        return (a and b) if n["op"] == "&&" else (a or b)
    if k == "bin" and n["op"] in ("==", "!=") and env.get("__str__") is not None:
        # string equality: a local bound to a string in env["__str__"], or a string literal
        def sval(e_):
            e_ = hirq.strip(e_)
            while e_.get("k") in ("ref", "un") or (e_.get("k") == "mcall" and e_["m"] in ("as_str", "as_ref", "to_string", "clone", "to_owned")):
                e_ = hirq.strip(e_.get("e") or e_.get("recv"))
            if e_.get("k") == "lit" and "str" in e_["v"]:
                return e_["v"]["str"]
            if e_.get("k") == "path" and e_["res"].get("local") in env["__str__"]:
                return env["__str__"][e_["res"]["local"]]
            return None
        sa, sb = sval(n["l"]), sval(n["r"])
        if sa is not None and sb is not None:
            return (sa == sb) if n["op"] == "==" else (sa != sb)
    if k == "bin" and n["op"] in ("<", "<=", ">", ">=", "==", "!="):
        a, b = _ival(n["l"], env, lets, depth + 1), _ival(n["r"], env, lets, depth + 1)
        return {"<": a < b, "<=": a <= b, ">": a > b, ">=": a >= b, "==": a == b, "!=": a != b}[n["op"]]
    if k == "un" and n["op"] == "Not":
        return not _bval(n["e"], env, lets, depth + 1)
    if k == "path" and "local" in n["res"] and n["res"]["local"] in lets:
        return _bval(lets[n["res"]["local"]], env, lets, depth + 1)
    if k == "mcall" and n["m"] == "is_empty" and env.get("__leaf__") is not None:
        v = env["__leaf__"](hirq.render(hirq.strip(n["recv"])) + ".len()")
        if v is not None:
            return v == 0
    if k == "lit" and "bool" in n["v"]:
        return n["v"]["bool"]
    raise _NoEval(hirq.render(n)[:60])


def _range_rule(ctx, R, fn):
    body = fn.hir["body"]
    lets = {l["pat"]["name"]: l["init"] for l in hirq.find(body, "let") if l["pat"].get("k") == "bind" and l.get("init") is not None}
    # roles: signature bounds = locals/fields initialised from *begin_exclude / *end_exclude; chunk end = `start + len`
    def role_of(name):
        init_n = hirq.strip(lets[name]) if name in lets else None
        init = hirq.render(init_n) if init_n is not None and init_n.get("k") in ("field", "path", "cast", "mcall") else ""
        if re.search(r"begin_exclude$", init) or re.match(r"^sig(nature)?_(begin|start)$", name):
            return "SB"
        if re.search(r"end_exclude$", init) or re.match(r"^sig(nature)?_end$", name):
            return "SE"
        return None
    zero_ifs = []
    for n in hirq.find(body, "if"):
        zs = [x for x in hirq.walk(n["then"]) if (x.get("k") == "assign" and hirq.lit_int(x["r"]) == 0 and hirq.strip(x["l"]).get("k") in ("path", "index") and hirq.strip(x["l"]) is not x["l"])
              or (x.get("k") == "mcall" and x["m"] == "fill" and x["args"] and hirq.lit_int(x["args"][0]) == 0)]
        if zs and not any(m is not n and any(z is y for y in hirq.walk(m["then"]) for z in zs) for m in hirq.find(n["then"], "if")):
            zero_ifs.append(n)
    if not zero_ifs:
        ctx.bad(R, "calculate_mpq_hash_md5|no-zeroing", fn.where, "no conditional zeroing of the signature bytes found", "the stored signature would be hashed into itself: no signed archive verifies")
        return
    n = zero_ifs[0]
    names = sorted({x["res"]["local"] for x in hirq.walk(n["c"]) if x.get("k") == "path" and "local" in x["res"]})
    roles = {nm: role_of(nm) for nm in names}
    chunk = [nm for nm in names if roles[nm] is None]
    ce = next((nm for nm in chunk if nm in lets and hirq.strip(lets[nm]).get("k") == "bin" and hirq.strip(lets[nm])["op"] == "+"), None)
    cs = ln = None
    if ce:
        add = hirq.strip(lets[ce])
        parts = [hirq.strip(add["l"]), hirq.strip(add["r"])]
        for p_ in parts:
            while p_.get("k") == "cast":
                p_ = hirq.strip(p_["e"])
            if p_.get("k") == "path" and "local" in p_["res"]:
                if cs is None:
                    cs = p_["res"]["local"]
                else:
                    ln = p_["res"]["local"]
    sb = next((nm for nm in names if roles[nm] == "SB"), None)
    se = next((nm for nm in names if roles[nm] == "SE"), None)
    # SB / SE may be absent from the condition itself in a broken variant: look them up in the function
    allnames = set(lets)
    sb = sb or next((nm for nm in sorted(allnames) if role_of(nm) == "SB"), None)
    se = se or next((nm for nm in sorted(allnames) if role_of(nm) == "SE"), None)
    if not (ce and cs and sb and se):
        ctx.bad(R, "calculate_mpq_hash_md5|roles", "%s:%d" % (fn.file, n["ln"]), "cannot identify chunk start/end and signature begin/end in `%s` (found %s)" % (hirq.render(n["c"])[:80], roles),
                "overlap test not recognisable")
        return
    # the zeroed sub-range
    rng = None
    for x in hirq.walk(n["then"]):
        if x.get("k") == "index" and hirq.strip(x["i"]).get("k") == "struct" and hirq.strip(x["i"])["res"].get("def", "").endswith("range::Range"):
            fl = dict((a, b) for a, b in hirq.strip(x["i"])["fields"])
            rng = (fl.get("start"), fl.get("end"))
            break
    inner_lets = dict(lets)
    bad_cond = bad_rng = None
    checked = 0
    G = range(0, 7)
    for CS in G:
        for CE in G:
            if not CS < CE:
                continue
            for SB in G:
                for SE in G:
                    if not SB < SE:
                        continue
                    env = {cs: CS, ce: CE, sb: SB, se: SE}
                    if ln:
                        env[ln] = CE - CS
                    want = CS < SE and CE > SB
                    try:
                        got = _bval(n["c"], env, {k_: v_ for k_, v_ in inner_lets.items() if k_ not in env})
                    except _NoEval as e:
                        ctx.bad(R, "calculate_mpq_hash_md5|opaque-condition", "%s:%d" % (fn.file, n["ln"]), "overlap test `%s` is not a pure comparison of the interval end points (%s)" % (hirq.render(n["c"])[:80], e), "cannot be decided over orderings")
                        return
                    checked += 1
                    if got != want and bad_cond is None:
                        bad_cond = (env, got, want)
                    if want and got and rng and bad_rng is None:
                        try:
                            a = _ival(rng[0], env, {k_: v_ for k_, v_ in inner_lets.items() if k_ not in env})
                            b = _ival(rng[1], env, {k_: v_ for k_, v_ in inner_lets.items() if k_ not in env})
                        except _NoEval:
                            continue
                        wa, wb = max(SB, CS) - CS, min(SE, CE) - CS
                        if (a, b) != (wa, wb):
                            bad_rng = (env, (a, b), (wa, wb))
    where = "%s:%d" % (fn.file, n["ln"])
    if bad_cond:
        env, got, want = bad_cond
        ctx.bad(R, "calculate_mpq_hash_md5|overlap-test", where, "`%s` is %s for chunk [%d,%d) and signature [%d,%d), where overlap is %s" % (hirq.render(n["c"])[:80], got, env[cs], env[ce], env[sb], env[se], want),
                "for that arrangement the stored signature bytes are hashed (or unrelated bytes are zeroed): generator and verifier digest different content, so a valid signature is rejected or an altered byte goes unnoticed")
    else:
        ctx.ok(R, {"fn": fn.path, "overlap_test": hirq.render(n["c"])[:80], "orderings_checked": checked})
    if rng is None:
        ctx.note_unarmed(R, "zeroed-range", "zeroed sub-range not an index by Range")
    elif bad_rng:
        env, got, want = bad_rng
        ctx.bad(R, "calculate_mpq_hash_md5|zeroed-range", where, "zeroes buffer[%d..%d] for chunk [%d,%d) and signature [%d,%d); the overlap is [%d..%d]" % (got[0], got[1], env[cs], env[ce], env[sb], env[se], want[0], want[1]),
                "bytes outside the signature are excluded from (or signature bytes included in) the digest")
    else:
        ctx.ok(R, {"fn": fn.path, "zeroed_range": "%s..%s" % (hirq.render(rng[0]), hirq.render(rng[1])), "equals": "max(sig_begin,chunk_start)-chunk_start .. min(sig_end,chunk_end)-chunk_start"})


TARGETS = [
    # (crate, function path, minimum number of compared digests)
    ("wow_mpq", "wow_mpq::archive::Archive::read_file", 1),
    ("wow_mpq", "wow_mpq::archive::Archive::read_sectored_file", 1),
    ("wow_mpq", "wow_mpq::archive::Archive::validate_v4_md5_checksums", 1),
    ("wow_mpq", "wow_mpq::archive::Archive::validate_v4_md5_checksums::{closure#0}", 1),
    ("wow_mpq", "wow_mpq::crypto::signature::verify_weak_signature_stormlib", 1),
    ("wow_mpq", "wow_mpq::crypto::signature::verify_weak_signature", 1),
    ("wow_mpq", "wow_mpq::patch::header::PatchFile::verify_base", 1),
    ("wow_mpq", "wow_mpq::patch::header::PatchFile::verify_patched", 1),
    ("storm", "storm::verify_file_in_archive", 2),
]


def run(ctx):
    prog = ctx.prog
    mpq = prog.crate("wow_mpq")
    R_cmp = ctx.rule("C10.computed-digest-is-compared", "every digest computed on a read/verify path reaches an equality (or a verifier) whose outcome is branched on or returned", floor=10)
    R_cnt = ctx.rule("C10.integrity-mechanism-present", "each anchored read/verify function still computes and compares at least its expected number of digests", floor=9)
    R_stored = ctx.rule("C10.stored-checksum-is-compared", "a checksum table / digest read from the archive on the read path flows into a comparison (never read-then-ignored)", floor=2)
    R_subst = ctx.rule("C10.no-synthetic-data-on-failure", "no zero-filled / default buffer replaces sector or file content on a path that still returns Ok", floor=2)
    R_v4 = ctx.rule("C10.v4-digests-all-verified", "every [u8;16] digest of the v4 header is verified against the table it names and lands in the reported status", floor=6)
    R_sig = ctx.rule("C10.signature-siblings", "signature generator and the archive's verifier hash through the same range function; PKCS#1 verifier keeps its comparisons", floor=3)

    for cname, path, need in TARGETS:
        crate = prog.crate(cname)
        f = crate.fns.get(path)
        if f is None:
            ctx.bad(R_cnt, "%s|missing" % path, "-", "function not found", "integrity mechanism anchored here is gone")
            continue
        ctx.saw_fn(f)
        compared = 0
        for bb, t in mirg.iter_calls(f):
            c = ncallee(t) or ""
            if not DIGEST.search(c):
                continue
            ctx.call_sites += 1
            eqs, vcalls, _ = forward(f, plocal(t["d"]))
            good = [e for e in eqs if bool_consumed(f, e[2])] + [v for v in vcalls if bool_consumed(f, v[2]) or True]
            key = "%s|%s" % (path, c.split("::")[-1])
            if good:
                compared += 1
                # ... and the comparison cannot be walked around: every path from the computation to a success return passes one
                # of the comparison sites (a sentinel test on the *stored* value, `if expected != 0 && ..`, opens such a path)
                cfg_d = mirg.Cfg(f)
                oks = [bb_ for bb_, kind, _p in rules.ret_assignments(f) if kind in ("ok", "copy", "other", "call")]
                cmp_bbs = {e[0] for e in good}
                stray = None
                if bb not in cmp_bbs:
                    # blocks reachable from the computation without entering a comparison block
                    reach_ = cfg_d.reachable(t["t"], avoid=cmp_bbs) if t.get("t") is not None else set()
                    hit = [o for o in oks if o in reach_]
                    # a success return that is also reachable *without* the computation is not a bypass of this digest but the
                    # ordinary no-checksum path only if it does not come after the computation: require the stray return to be
                    # strictly dominated by the computation block or reached from it through the function's forward edges
                    stray = hit[0] if hit and eqs else None
                if stray is not None and re.search(r"adler|crc32|Hasher", c):
                    ctx.bad(R_cmp, "%s|%s|bypass" % (path, c.split("::")[-1]), "%s:%d" % (f.file, t["ln"]), "a success return (bb%d) is reachable from the %s computation at line %d without passing its comparison" % (stray, c.split("::")[-1], t["ln"]),
                            "for some stored values the computed checksum is never compared: altered data is returned as valid")
                    continue
                ctx.ok(R_cmp, {"fn": path, "digest": c.split("::")[-1], "line": t["ln"], "compared_at": [e[1] for e in good][:3]})
            else:
                ctx.bad(R_cmp, key, "%s:%d" % (f.file, t["ln"]), "result of %s never reaches an equality whose outcome is used" % c.split("::")[-1],
                        "the checksum is computed but corruption cannot make the operation fail")
        if compared >= need:
            ctx.ok(R_cnt, {"fn": path, "compared_digests": compared, "required": need})
        else:
            ctx.bad(R_cnt, "%s|compared<%d" % (path, need), f.where, "%d digest comparison(s) found, %d required" % (compared, need),
                    "the integrity check this function is supposed to perform is missing: altered protected bytes are returned as valid")

    # stored checksums on the read path: named locals
    for path in ("wow_mpq::archive::Archive::read_file", "wow_mpq::archive::Archive::read_sectored_file",
                 "wow_mpq::archive::Archive::read_file_by_indices", "wow_mpq::archive::Archive::read_file_with_listfile"):
        f = mpq.fns.get(path)
        if f is None:
            continue
        ctx.saw_fn(f)
        for l, (tix, name) in enumerate(f.mir["locals"]):
            if not name or not NAMED_SUM.match(name) or name.startswith("_"):
                continue
            ty = mpq.ty(tix) or ""
            if ty in ("bool", "()") or ty.startswith("&str") or "Hasher" in ty:
                continue
            # only values that come from the archive (a read / parsed table), not computed digests
            ls, calls, _ = mirg.DefUse(f).slice_back(l, depth=6)
            cnames = [ncallee(c) or "" for c in calls]
            if any(DIGEST.search(c) for c in cnames):
                continue
            if not any(re.search(r"(read_u32|read_exact|from_le_bytes|ReadBytesExt|collect|Vec::push|Vec::with_capacity)", c) for c in cnames) and "Vec" not in ty and "Option" not in ty:
                continue
            eqs, vcalls, seen = forward(f, l)
            key = "%s|%s" % (path, name)
            if eqs or vcalls:
                ctx.ok(R_stored, {"fn": path, "stored": name, "type": ty[:60]})
            else:
                ctx.bad(R_stored, key, f.where, "`%s: %s` is read from the archive but never compared with a computed checksum" % (name, ty[:60]),
                        "per-sector checksums are stored but not enforced: altered sector data is returned as valid")

    # per-sector validation applies to every sector: inside the sector loop the digest may only be guarded by the
    # presence of the stored checksums, never by a property of the individual sector
    R_every = ctx.rule("C10.every-sector-validated", "inside a sector loop the checksum computation is guarded only by the presence of the stored checksum table (loop-invariant), not by per-sector state", floor=1)
    from .c07 import enclosing_if_conditions
    for path in ("wow_mpq::archive::Archive::read_sectored_file", "wow_mpq::archive::Archive::read_file", "wow_mpq::archive::Archive::read_file_by_indices"):
        f = mpq.fns.get(path)
        if f is None or not f.hir:
            continue
        body = f.hir["body"]
        loops = [n for n in hirq.walk(body) if n.get("k") in ("for", "loop", "while")]
        for c in hirq.calls(body):
            if not DIGEST.search(c.get("fn") or ""):
                continue
            inside = [lp for lp in loops if any(x is c for x in hirq.walk(lp["body"]))]
            if not inside:
                continue
            lp = inside[-1]          # innermost
            local_names = set(hirq.pat_binds(lp.get("pat"))) if lp.get("pat") else set()
            for l_ in hirq.walk(lp["body"]):
                if l_.get("k") in ("let", "letx"):
                    local_names |= set(hirq.pat_binds(l_["pat"]))
            conds = enclosing_if_conditions(lp["body"], c)
            offenders = []
            for side, cond in conds:
                conj = []

                def split(n):
                    n = hirq.strip(n)
                    if n.get("k") == "bin" and n["op"] == "&&":
                        split(n["l"])
                        split(n["r"])
                    else:
                        conj.append(n)
                split(cond)
                for cj in conj:
                    if cj.get("k") == "letx" and NAMED_SUM.match(hirq.render(hirq.strip(cj["init"])).split(".")[-1].split("(")[0] or ""):
                        continue
                    used = {x["res"]["local"] for x in hirq.walk(cj) if x.get("k") == "path" and "local" in x["res"]}
                    per_sector = sorted((used & local_names) - {n_ for n_ in used if NAMED_SUM.match(n_)})
                    if per_sector:
                        offenders.append((hirq.render(cj)[:80], per_sector))
            key = "%s|per-sector-guard" % path.split("::")[-1]
            if offenders:
                ctx.bad(R_every, key, "%s:%d" % (f.file, c["ln"]), "checksum of a sector is only computed when `%s` (per-sector state: %s)" % (offenders[0][0], ", ".join(offenders[0][1])),
                        "sectors for which the guard is false are returned without validation although a stored checksum exists: corruption in them is not detected")
            else:
                ctx.ok(R_every, {"fn": path, "line": c["ln"], "guards": [hirq.render(cd)[:60] for _, cd in conds]})

    # synthetic data on failure
    for path in ("wow_mpq::archive::Archive::read_file", "wow_mpq::archive::Archive::read_sectored_file",
                 "wow_mpq::archive::Archive::read_file_by_indices", "wow_mpq::archive::Archive::read_patch_file_raw"):
        f = mpq.fns.get(path)
        if f is None or not f.hir:
            continue
        body = f.hir["body"]
        nbad = 0
        for m in hirq.find(body, "match"):
            for arm in m["arms"]:
                if not hirq.is_err_ctor(hirq.pat_ctor(arm["pat"])):
                    continue
                if any(x.get("k") in ("ret", "try") for x in hirq.walk(arm["body"])):
                    continue
                aty = mpq.ty(hirq.strip(arm["body"]).get("t")) or ""
                txt = hirq.render(arm["body"])
                if "alloc::vec::Vec<u8>" in aty or "from_elem" in txt or "vec!" in txt:
                    nbad += 1
                    ctx.bad(R_subst, "%s|Err-arm-substitutes|%s" % (path, re.sub(r"\(.*", "", hirq.render(m["e"]))[-40:]), "%s:%d" % (f.file, arm["ln"]),
                            "`match %s`: the Err arm evaluates to a synthetic buffer instead of failing" % hirq.render(m["e"])[:70],
                            "a corrupted sector decodes to zeros and read_file still returns Ok: corruption is masked, not detected")
        # zero-extension followed by continue inside an if
        for n in hirq.find(body, "if"):
            th = n["then"]
            has_continue = any(x.get("k") == "continue" for x in hirq.walk(th))
            ext = [x for x in hirq.walk(th) if x.get("k") == "mcall" and x["m"] in ("extend", "extend_from_slice", "resize", "append")
                   and re.search(r"from_elem|vec!|\[0", hirq.render(x))]
            if has_continue and ext:
                nbad += 1
                ctx.bad(R_subst, "%s|zero-extend-then-continue" % path, "%s:%d" % (f.file, n["ln"]),
                        "`if %s` appends synthetic bytes to the output and continues" % hirq.render(n["c"])[:60],
                        "an inconsistent sector table yields invented content on an Ok path")
        if nbad == 0:
            ctx.ok(R_subst, {"fn": path})

    # what the block entry announces is written (shared with C01): FLAG_SECTOR_CRC set => a checksum follows on every success path
    from .c01 import crc_flag_implies_checksum_rule
    crc_flag_implies_checksum_rule(ctx, mpq, "C10")

    # RSA verification: s and s + n give the same s^e mod n, so a verifier that does not require s < n keeps accepting a signature that
    # was changed (by adding the modulus).  Every verifier compares the signature integer with the modulus before exponentiating
    R_rng = ctx.rule("C10.signature-value-below-the-modulus", "in every verifying function of crypto::signature that calls modpow, an ordered comparison of big integers (the signature against n) dominates the modpow call", floor=3)
    for f in mpq.fn_list:
        if f.kind == "Closure" or not f.mir or not f.mir.get("blocks") or "::crypto::signature::" not in f.path or "::tests::" in f.path or not re.search(r"verify", f.path.split("::")[-1]):
            continue
        mp = [(bb, t) for bb, t in mirg.iter_calls(f) if re.search(r"modpow$", ncallee(t) or "")]
        if not mp:
            continue
        ctx.saw_fn(f)
        cfg_s = mirg.Cfg(f)
        cmps = [bb for bb, t in mirg.iter_calls(f) if re.search(r"cmp::PartialOrd(<.*>)?>?::(ge|gt|lt|le)$|cmp::Ord>?::cmp$|PartialOrd::partial_cmp$", mirg.callee(t) or "") and re.search(r"BigUint|BigInt", str(t.get("f")))]
        for bb, t in mp:
            if any(cb != bb and cfg_s.dominates(cb, bb) for cb in cmps):
                ctx.ok(R_rng, {"fn": f.path.split("::")[-1], "line": t["ln"]})
            else:
                ctx.bad(R_rng, "%s|no-range-check" % f.path.split("::")[-1], "%s:%d" % (f.file, t["ln"]), "`modpow` is applied to the signature value without a preceding comparison with the modulus",
                        "the 64 signature bytes s replaced by s + n (when that still fits) verify exactly as s does: a changed signature keeps verifying")

    # a (signature) file that is there but cannot be parsed is an invalid signature, not an absent one ("no signature" is what callers —
    # the C API's SFileVerifyArchive among them — treat as nothing to complain about)
    R_abs = ctx.rule("C10.unparsable-signature-is-invalid-not-absent", "in Archive::verify_weak_signature (and siblings) no `Err` arm of a signature parse / verification yields SignatureStatus::None", floor=1)
    for f in mpq.fn_list:
        if not f.hir or f.kind == "Closure" or "::archive::" not in f.path or "::tests::" in f.path or not re.search(r"verify_weak_signature", f.path.split("::")[-1]):
            continue
        # (the strong signature is a trailer behind the archive: bytes there that do not parse are simply not a signature)
        for m_ in hirq.find(f.hir["body"], "match"):
            if not re.search(r"parse_\w*signature|verify_\w*signature", hirq.render(m_["e"] if "e" in m_ else m_.get("scrut") or {})):
                continue
            ctx.saw_fn(f)
            for a_ in m_["arms"]:
                if not (hirq.pat_ctor(a_["pat"]) or "").endswith("Err"):
                    continue
                none_ = any(x_.get("k") == "path" and ((x_.get("res") or {}).get("def") or "").endswith("SignatureStatus::None") for x_ in hirq.walk(a_["body"]))
                if none_:
                    ctx.bad(R_abs, "%s|err-arm-yields-none" % f.path.split("::")[-1], "%s:%d" % (f.file, a_["body"].get("ln") or m_.get("ln") or 0), "a failed `%s` is reported as SignatureStatus::None" % hirq.render(m_["e"] if "e" in m_ else {})[:50],
                            "zeroing or truncating the signature inside (signature) makes the archive count as unsigned: verification no longer fails, and SFileVerifyArchive returns success")
                else:
                    ctx.ok(R_abs, {"fn": f.path.split("::")[-1], "match": hirq.render(m_["e"] if "e" in m_ else {})[:40]})

    # sibling readers: every function that decrypts stored file data itself (the single-unit / stored path of a reader) also validates
    # the single-unit checksum trailer — the same corruption must not be reported by one read entry point and returned as content by another
    R_sib = ctx.rule("C10.every-single-unit-reader-checks-the-trailer", "each function of archive.rs that calls decrypt_stored_data (serves stored / single-unit content) also tests has_sector_crc() and computes an ADLER32 that is compared", floor=2)
    for f in mpq.fn_list:
        if f.kind == "Closure" or not f.mir or not f.mir.get("blocks") or "::archive::" not in f.path or "::tests::" in f.path:
            continue
        calls_ = [(bb, ncallee(t) or "") for bb, t in mirg.iter_calls(f)]
        if not any(c_.endswith("archive::decrypt_stored_data") for _b, c_ in calls_):
            continue
        ctx.saw_fn(f)
        has_flag = any(c_.endswith("has_sector_crc") for _b, c_ in calls_)
        has_sum = any(re.search(r"adler32", c_.lower()) for _b, c_ in calls_)
        if has_flag and has_sum:
            ctx.ok(R_sib, {"reader": f.path.split("::")[-1]})
        else:
            ctx.bad(R_sib, "%s|no-trailer-check" % f.path.split("::")[-1], f.where, "`%s` serves single-unit content but %s" % (f.path.split("::")[-1], "never looks at has_sector_crc()" if not has_flag else "computes no checksum"),
                    "a changed byte in a single-unit file is reported as ChecksumMismatch by read_file and returned as file content, with Ok, by this entry point")

    # the sector checksum table: the reader expects it exactly for the files the builder writes it for.  The builder writes a sectored
    # file (with its checksum table when generate_crcs) as soon as the data is one byte longer than a sector — two sectors — so a
    # reader that only looks for the table from three sectors on never checks two-sector files.
    R_tab = ctx.rule("C10.checksum-table-expected-for-every-sectored-file-the-builder-writes", "the smallest sector count for which read_sectored_file looks for the checksum table is <= the smallest sector count of a sectored file ArchiveBuilder::write_file produces (from its single-unit test)", floor=1)
    from .. import cmpeval as _ce
    wf = next((f for f in mpq.fn_list if f.hir and f.kind != "Closure" and f.path.endswith("builder::ArchiveBuilder::write_file")), None)
    rs = mpq.fns.get("wow_mpq::archive::Archive::read_sectored_file")
    if wf is None or rs is None or not rs.hir:
        ctx.bad(R_tab, "crc-table|missing", "-", "write_file or read_sectored_file not found", "anchor gone")
    else:
        ctx.saw_fn(wf)
        ctx.saw_fn(rs)
        # writer: the single-unit test compares the data length with the sector size
        wmin = None
        for l in hirq.find(wf.hir["body"], "let"):
            # (the local is recognised by what it holds — one comparison of the data length with the sector size — not by its name)
            if l["pat"].get("k") == "bind" and l.get("init") is not None and hirq.strip(l["init"]).get("k") == "bin" and hirq.strip(l["init"])["op"] in ("<", "<=", ">", ">=") \
                    and ".len()" in hirq.render(l["init"]) and "sector_size" in hirq.render(l["init"]) and wmin is None:
                c_ = hirq.strip(l["init"])
                ats = _ce.atoms(c_) if c_.get("k") == "bin" else []
                dl = next((a for a in ats if ".len()" in a), None)
                ss = next((a for a in ats if "sector_size" in a), None)
                if dl and ss:
                    tt = _ce.truth_table(c_, dl, ss)
                    # data == sector_size is one sector; data > sector_size is at least two
                    wmin = 1 if not tt["eq"] else (2 if not tt["gt"] else None)
        # reader: the conjunct on sector_count in the guard of the block that reads the checksum table
        rmin = None
        where = rs.where
        for n_ in hirq.find(rs.hir["body"], "if"):
            if not re.search(r"crc", hirq.render(n_["then"])[:4000], re.I) or "sector_count" not in hirq.render(n_["c"]):
                continue
            for c_ in hirq.walk(n_["c"]):
                if c_.get("k") == "bin" and c_["op"] in (">", ">=", "<", "<=", "!=", "==") and "sector_count" in hirq.render(c_) and (hirq.const_int(c_["r"]) is not None or hirq.const_int(c_["l"]) is not None):
                    k_ = hirq.const_int(c_["r"]) if hirq.const_int(c_["r"]) is not None else hirq.const_int(c_["l"])
                    op = c_["op"] if hirq.const_int(c_["r"]) is not None else {"<": ">", "<=": ">=", ">": "<", ">=": "<=", "==": "==", "!=": "!="}[c_["op"]]
                    adm = [v for v in range(0, 8) if {">": v > k_, ">=": v >= k_, "<": v < k_, "<=": v <= k_, "==": v == k_, "!=": v != k_}[op]]
                    if adm and re.fullmatch(r"\(?sector_count\)?", hirq.render(c_["l"] if hirq.const_int(c_["r"]) is not None else c_["r"]).strip()):
                        rmin = min(v for v in adm if v >= 1) if any(v >= 1 for v in adm) else None
                        where = "%s:%d" % (rs.file, c_.get("ln") or 0)
            if rmin is not None:
                break
        if wmin is None or rmin is None:
            ctx.bad(R_tab, "crc-table|shape", rs.where, "writer's single-unit test (min sectored count %s) or the reader's sector-count guard (min %s) not recognised" % (wmin, rmin), "shape changed")
        elif rmin <= wmin:
            ctx.ok(R_tab, {"builder_min_sectors": wmin, "reader_expects_table_from": rmin})
        else:
            ctx.bad(R_tab, "read_sectored_file|crc-table-threshold", where, "the checksum table is looked for from %d sectors on; the builder writes sectored files (with the table) from %d sectors on" % (rmin, wmin),
                    "files of %d..%d sectors written with generate_crcs are read without any sector being checked: a changed byte in a stored sector comes back as file content with no error" % (wmin, rmin - 1))

    # v4 digests, writer side: the digest stored for a table is the one computed over that table's bytes as written
    R_v4w = ctx.rule("C10.v4-digest-slots-filled-from-their-table", "each md5_<table> field of the MpqHeaderV4Data literal the builder writes comes from the writer function of that same table, which digests the very buffer it writes", floor=5)
    for f in mpq.fn_list:
        if not f.hir or f.kind == "Closure" or "::builder::" not in f.path:
            continue
        for st_ in hirq.walk(f.hir["body"]):
            if st_.get("k") != "struct" or not str((st_.get("res") or {}).get("def") or "").endswith("MpqHeaderV4Data"):
                continue
            ctx.saw_fn(f)
            for fd0 in st_.get("fields") or []:
                fd = {"name": fd0[0], "e": fd0[1], "ln": (fd0[1] or {}).get("ln")}
                nm = fd.get("name") or ""
                m_ = re.match(r"md5_(\w+)_table$", nm)
                if not m_:
                    continue
                tab = m_.group(1)
                srcs = set()
                for v in [fd.get("e") or fd.get("v")] + [x for x in hirq.value_leaves(f.hir["body"], fd.get("e") or fd.get("v")) if x is not None]:
                    v = hirq.strip(v)
                    if v.get("k") == "tupidx":
                        v = hirq.strip(v["e"])
                    for c_ in hirq.walk(v):
                        if c_.get("k") == "mcall" and re.match(r"write_\w+_table$", c_["m"]):
                            srcs.add(c_["m"])
                        if c_.get("k") == "call" and re.search(r"::write_\w+_table$", c_.get("fn") or ""):
                            srcs.add(c_["fn"].split("::")[-1])
                want = "write_%s_table" % tab
                if srcs == {want}:
                    ctx.ok(R_v4w, {"slot": nm, "from": want})
                elif srcs:
                    ctx.bad(R_v4w, "v4-writer|%s" % nm, "%s:%d" % (f.file, fd.get("ln") or st_.get("ln") or 0), "`%s` is filled from %s" % (nm, sorted(srcs)),
                            "the header carries another table's digest in this slot: the archive's own verification reports a table corrupt that is intact (and would accept a corruption of the table whose digest is missing)")
                else:
                    ctx.bad(R_v4w, "v4-writer|%s|source" % nm, "%s:%d" % (f.file, fd.get("ln") or st_.get("ln") or 0), "`%s` does not come from a table writer (`%s`)" % (nm, hirq.render(fd.get("e") or fd.get("v"))[:40]), "a digest that is not computed from the written table cannot detect its corruption")
    for f in mpq.fn_list:
        if not f.hir or f.kind == "Closure" or not re.search(r"::builder::ArchiveBuilder::write_\w+_table$", f.path):
            continue
        md = [c_ for c_ in hirq.walk(f.hir["body"]) if c_.get("k") == "mcall" and c_["m"] == "calculate_md5" and c_.get("args")]
        wr = [c_ for c_ in hirq.walk(f.hir["body"]) if c_.get("k") == "mcall" and c_["m"] == "write_all" and c_.get("args")]
        if not md:
            continue
        ctx.saw_fn(f)
        order = {id(n): i for i, n in enumerate(hirq.walk(f.hir["body"]))}
        base = lambda e: re.sub(r"^[&(*\s]+|[)\s]+$", "", hirq.render(e)).split("[")[0].split(".")[0]
        hashed = {base(c_["args"][0]) for c_ in md}
        written = {base(c_["args"][0]) for c_ in wr}
        # nothing changes the buffer between the digest and the write
        touched = [n for n in hirq.walk(f.hir["body"]) if min(order[id(c_)] for c_ in md) < order[id(n)] < max([order[id(c_)] for c_ in wr] or [0])
                   and ((n.get("k") == "mcall" and n["m"] in ("encrypt_data", "extend_from_slice", "push", "truncate", "resize", "insert") and base(n["args"][0] if n["m"] == "encrypt_data" and n.get("args") else n["recv"]) in hashed)
                        or (n.get("k") == "assign" and base(n["l"]) in hashed))]
        if hashed & written and not touched:
            ctx.ok(R_v4w, {"writer": f.path.split("::")[-1], "digest_of": sorted(hashed), "writes": sorted(written & hashed)})
        else:
            ctx.bad(R_v4w, "%s|digest-of-other-bytes" % f.path.split("::")[-1], f.where, "digest taken of %s, bytes written from %s%s" % (sorted(hashed), sorted(written), "; the buffer is modified in between" if touched else ""),
                    "the stored digest does not describe the bytes on disk: verification of an intact archive fails, or a corruption goes unnoticed")

    # v4 digests
    v4 = next((a for a in mpq.items["adts"] if a["path"].endswith("header::MpqHeaderV4Data")), None)
    vf = mpq.fns.get("wow_mpq::archive::Archive::validate_v4_md5_checksums")
    if v4 is None or vf is None or not vf.hir:
        ctx.bad(R_v4, "v4|missing", "-", "MpqHeaderV4Data or validate_v4_md5_checksums not found", "anchor gone")
    else:
        body = vf.hir["body"]
        digests = [f_["name"] for f_ in v4["fields"] if f_["ty"] == "[u8; 16]"]
        status_lit = next((s for s in hirq.find(body, "struct") if s["res"].get("def", "").endswith("Md5Status")), None)
        status_fields = {x[0]: x[1] for x in status_lit["fields"]} if status_lit else {}
        for d in digests:
            tok = re.sub(r"^md5_|_table$|^mpq_", "", d).replace("md5_", "")
            tok = re.sub(r"_table$", "", tok)
            uses = []
            for x in hirq.walk(body):
                if x.get("k") == "call" and x.get("flocal") and any(hirq.strip(a).get("k") == "field" and hirq.strip(a)["name"] == d for a in x["args"]):
                    uses.append(("closure", x))
                if x.get("k") == "bin" and x["op"] in ("==", "!=") and d in hirq.render(x):
                    uses.append(("eq", x))
            key = "v4|%s" % d
            if not uses:
                ctx.bad(R_v4, key + "|unverified", vf.where, "digest field `%s` is never compared in validate_v4_md5_checksums" % d,
                        "corruption of the protected table is not reported")
                continue
            kind, node = uses[0]
            problems = []
            if kind == "closure":
                others = " ".join(hirq.render(a) for a in node["args"][1:])
                t2 = tok.replace("mpq_", "")
                if t2 not in others.replace("hi_block", "hi").replace("hi_pos", "hi_block_pos") and t2.split("_")[0] not in others:
                    problems.append("digest `%s` is checked against offset/size `%s` (different table)" % (d, others))
            # the result must land in the status literal under the matching field
            want = [k for k in status_fields if k.startswith(tok.replace("mpq_", ""))] or [k for k in status_fields if tok.split("_")[0] in k]
            if not want:
                problems.append("no status field reports `%s`" % d)
            else:
                sv = hirq.strip(status_fields[want[0]])
                if sv.get("k") == "lit":
                    problems.append("status field `%s` is a constant" % want[0])
                else:
                    nm = sv["res"].get("local") if sv.get("k") == "path" else None
                    init = None
                    for l in hirq.find(body, "let"):
                        if l["pat"].get("k") == "bind" and l["pat"]["name"] == nm:
                            init = l.get("init")
                    if init is not None and d not in hirq.render(init) and not any(d in hirq.render(x) for x in hirq.walk(init)):
                        problems.append("status `%s` is not computed from digest `%s`" % (want[0], d))
            if problems:
                ctx.bad(R_v4, key, vf.where, "; ".join(problems), "a corrupted table/header would still be reported valid")
            else:
                ctx.ok(R_v4, {"digest": d, "status_field": want[0], "via": kind})

    # signature area is excluded exactly: decided over all orderings of the four interval endpoints (finite domain)
    R_rng = ctx.rule("C10.signature-area-excluded-exactly", "in the range hash, bytes are zeroed exactly when the chunk overlaps the signature area, and exactly the overlapping sub-range — for every ordering of the chunk and signature end points", floor=2)
    hfn = mpq.fns.get("wow_mpq::crypto::signature::calculate_mpq_hash_md5")
    if hfn is None or not hfn.hir:
        ctx.bad(R_rng, "calculate_mpq_hash_md5|missing", "-", "range hash function not found", "anchor gone")
    else:
        ctx.saw_fn(hfn)
        _range_rule(ctx, R_rng, hfn)

    # the bytes a digest is computed over are read at the table's absolute position (header positions are archive-relative)
    R_abs = ctx.rule("C10.protected-bytes-read-at-absolute-position", "in the verification functions no seek targets an archive-relative position and no absolute/relative positions are mixed (offset-frame analysis)", floor=3)
    from .. import frames as _frames
    n_chk = 0
    for f in mpq.fn_list:
        if f.kind == "Closure" or not f.hir or not re.search(r"archive::Archive::(validate_v4_md5_checksums|verify_\w+|read_\w*signature\w*|load_attributes)$", norm(f.path)):
            continue
        fr = _frames.Frames(mpq, f).run()
        n_chk += fr.checked
        for ln, what in fr.clashes:
            ctx.saw_fn(f)
            ctx.bad(R_abs, "%s|frame" % norm(f.path).split("::")[-1], "%s:%s" % (f.file, ln or f.lo), what,
                    "for an archive that does not start at offset 0 the digest is computed over the wrong bytes: intact tables are reported corrupt (and a corrupted table can go unnoticed)")
    ctx.rules[R_abs]["obligations"] += n_chk
    ctx.rules[R_abs]["discharged"] += n_chk

    # byte order of the stored signature: zero padding goes on the most-significant side and the stored form is little-endian
    R_end = ctx.rule("C10.signature-padding-matches-byte-order", "in generate_weak_signature the RSA result is zero-padded on its most-significant side (front while big-endian, back while little-endian) and stored little-endian", floor=2)
    gws = mpq.fns.get("wow_mpq::crypto::signature::generate_weak_signature")
    if gws is None or not gws.hir:
        ctx.bad(R_end, "generate_weak_signature|missing", "-", "function not found", "anchor gone")
    else:
        ctx.saw_fn(gws)
        state = {}       # local -> "BE" | "LE"
        events = []

        def src_state(n):
            for x in hirq.walk(n):
                if x.get("k") == "path" and x["res"].get("local") in state:
                    return x["res"]["local"], state[x["res"]["local"]]
            return None, None
        for st in hirq.walk(gws.hir["body"]):
            k = st.get("k")
            if k == "let" and st.get("init") is not None and st["pat"].get("k") == "bind":
                init = st["init"]
                r_ = hirq.render(init)
                if re.search(r"\.to_bytes_be\(\)$", r_):
                    state[st["pat"]["name"]] = "BE"
                elif re.search(r"\.to_bytes_le\(\)$", r_):
                    state[st["pat"]["name"]] = "LE"
                elif re.search(r"reverse_bytes\(|\.rev\(\)|reverse\(", r_):
                    nm, stt = src_state(init)
                    if stt:
                        state[st["pat"]["name"]] = "LE" if stt == "BE" else "BE"
                        events.append(("reverse", st["ln"], stt))
            elif k == "mcall" and st["m"] == "reverse":
                nm, stt = src_state(st["recv"])
                if stt:
                    state[nm] = "LE" if stt == "BE" else "BE"
                    events.append(("reverse", st["ln"], stt))
            elif k == "mcall" and st["m"] in ("extend", "extend_from_slice", "append") and st.get("args"):
                # zeros.extend(sig)  => zeros in front of sig
                nm, stt = src_state(st["args"][0])
                recv = hirq.strip(st["recv"])
                if stt and recv.get("k") == "path" and recv["res"].get("local") not in state:
                    events.append(("pad-front", st["ln"], stt))
                    state[recv["res"]["local"]] = stt
                elif recv.get("k") == "path" and recv["res"].get("local") in state and re.search(r"from_elem|repeat|\[0", hirq.render(st["args"][0])):
                    events.append(("pad-back", st["ln"], state[recv["res"]["local"]]))
            elif k == "mcall" and st["m"] == "resize" and hirq.strip(st["recv"]).get("k") == "path" and hirq.strip(st["recv"])["res"].get("local") in state:
                events.append(("pad-back", st["ln"], state[hirq.strip(st["recv"])["res"]["local"]]))
            elif k == "mcall" and st["m"] == "insert" and hirq.strip(st["recv"]).get("k") == "path" and hirq.strip(st["recv"])["res"].get("local") in state and st.get("args") and hirq.lit_int(st["args"][0]) == 0:
                events.append(("pad-front", st["ln"], state[hirq.strip(st["recv"])["res"]["local"]]))
            elif k == "assign":
                l = hirq.strip(st["l"])
                nm, stt = src_state(st["r"])
                if l.get("k") == "path" and "local" in l["res"] and stt:
                    state[l["res"]["local"]] = stt
            elif k == "mcall" and st["m"] == "copy_from_slice" and st.get("args"):
                nm, stt = src_state(st["args"][0])
                if stt:
                    events.append(("store", st["ln"], stt))
        pads = [e for e in events if e[0].startswith("pad")]
        stores = [e for e in events if e[0] == "store"]
        for kind, ln, stt in pads:
            ok_ = (kind == "pad-front" and stt == "BE") or (kind == "pad-back" and stt == "LE")
            if ok_:
                ctx.ok(R_end, {"event": kind, "byte_order": stt, "line": ln})
            else:
                ctx.bad(R_end, "generate_weak_signature|%s-while-%s" % (kind, stt), "%s:%d" % (gws.file, ln), "zero padding is added at the %s of a %s-endian value" % ("front" if kind == "pad-front" else "back", "big" if stt == "BE" else "little"),
                        "whenever the RSA result is shorter than 64 bytes (top byte zero, about 1 in 256 archives) the stored signature is the value shifted by whole bytes: the library's own signature over unmodified data does not verify")
        for kind, ln, stt in stores:
            if stt == "LE":
                ctx.ok(R_end, {"event": "stored", "byte_order": stt, "line": ln})
            else:
                ctx.bad(R_end, "generate_weak_signature|stored-big-endian", "%s:%d" % (gws.file, ln), "the signature is stored big-endian", "the verifier (and StormLib) read it little-endian")
        if not pads or not stores:
            ctx.bad(R_end, "generate_weak_signature|shape", gws.where, "padding (%d) / store (%d) steps not recognised" % (len(pads), len(stores)), "shape changed")

    # signatures
    gen = mpq.fns.get("wow_mpq::crypto::signature::generate_weak_signature")
    ver = mpq.fns.get("wow_mpq::crypto::signature::verify_weak_signature_stormlib")
    arch = mpq.fns.get("wow_mpq::archive::Archive::verify_weak_signature")

    def callees(f):
        return {ncallee(t) for _, t in mirg.iter_calls(f)} if f else set()
    hf = "wow_mpq::crypto::signature::calculate_mpq_hash_md5"
    if gen and ver and hf in callees(gen) and hf in callees(ver):
        ctx.ok(R_sig, {"generator": gen.path, "verifier": ver.path, "range_hash": hf})
    else:
        ctx.bad(R_sig, "weak-signature|hash-range-function", (gen or ver).where if (gen or ver) else "-",
                "generate_weak_signature and verify_weak_signature_stormlib do not both hash through calculate_mpq_hash_md5",
                "a signature produced by the library would not verify (or would verify over a different byte range)")
    if arch and "wow_mpq::crypto::signature::verify_weak_signature_stormlib" in callees(arch) | {c for cl in arch.closures for c in callees(cl)}:
        ctx.ok(R_sig, {"archive_verifier_uses": "verify_weak_signature_stormlib"})
    else:
        ctx.bad(R_sig, "Archive::verify_weak_signature|verifier", arch.where if arch else "-", "the archive's verifier is not the sibling of the generator",
                "library-produced signatures are checked with a different hashing range")
    pk = mpq.fns.get("wow_mpq::crypto::signature::verify_pkcs1_v15_md5")
    if pk is None:
        ctx.bad(R_sig, "verify_pkcs1_v15_md5|missing", "-", "padding verifier not found", "anchor gone")
    else:
        ncmp = 0
        for b in pk.mir["blocks"]:
            for st in b["s"]:
                if st[0] == "=" and st[2][0] == "bin" and st[2][1] in ("Eq", "Ne", "Lt", "Le", "Gt", "Ge") and not st[4]:
                    ncmp += 1
            t = b["t"]
            if t["k"] == "call" and EQ_CALL.search(ncallee(t) or "") and not t.get("x"):
                ncmp += 1
        # the final comparison must involve the expected hash parameter
        eqs, _, _ = forward(pk, 2)
        if ncmp >= 8 and eqs:
            ctx.ok(R_sig, {"fn": pk.path, "comparisons": ncmp})
        else:
            ctx.bad(R_sig, "verify_pkcs1_v15_md5|comparisons", pk.where, "%d comparisons (8 expected: length, two header bytes, padding bytes, separator, DigestInfo length and content, hash); expected-hash compared: %s" % (ncmp, bool(eqs)),
                    "part of the signed structure is no longer checked: a forged or altered signature block can verify")

    _attr_layout_rule(ctx, mpq)
    _attr_maintenance_rule(ctx, mpq)
    _independent_verifications_rule(ctx, prog)


def _attr_layout_rule(ctx, mpq):
    """load_attributes guesses whether the (attributes) file has one entry per block or one fewer by comparing its length with two
    expected sizes.  Both must be the *same* function of their entry count: evaluated for every flag combination and counts
    around the byte boundary of the patch-bit column"""
    R = ctx.rule("C10.attribute-layout-sizes-are-one-formula", "load_attributes: expected_size(count - 1 layout) evaluated with count_minus_1 = m equals expected_size(full layout) evaluated with total_files = m, for all 16 flag sets and m in 0..=17", floor=1)
    f = mpq.fns.get("wow_mpq::archive::Archive::load_attributes")
    if f is None or not f.hir:
        ctx.bad(R, "load_attributes|missing", "-", "function not found", "anchor gone")
        return
    ctx.saw_fn(f)
    body = f.hir["body"]
    # conditions and terms may be routed through locals (`let has_crc32 = flags & 1 != 0;`)
    lets_all = {l["pat"]["name"]: l["init"] for l in hirq.find(body, "let") if l["pat"].get("k") == "bind" and l.get("init") is not None and not re.match(r"expected_size", l["pat"]["name"])}

    def accumulate(name, env):
        """value of the accumulator `name` after its `let mut` and the `if .. { name += .. }` statements that follow it"""
        for blk in [x for x in hirq.walk(body) if x.get("k") == "block"]:
            stmts = blk.get("stmts") or []
            for i, st in enumerate(stmts):
                if st.get("k") == "let" and st["pat"].get("k") == "bind" and st["pat"]["name"] == name and st.get("init") is not None:
                    val = _ival(st["init"], env, lets_all)
                    n_upd = 0
                    for st2 in stmts[i + 1:]:
                        st2 = hirq.strip(st2)
                        if st2.get("k") != "if":
                            continue
                        ups = [u for u in hirq.walk(st2["then"]) if u.get("k") == "assignop" and hirq.strip(u["l"]).get("k") == "path" and hirq.strip(u["l"])["res"].get("local") == name]
                        if not ups:
                            continue
                        n_upd += 1
                        if _bval(st2["c"], env, lets_all):
                            for u in ups:
                                d = _ival(u["r"], env, lets_all)
                                val = val + d if u["op"].startswith("+") else val - d
                    return val, n_upd
        raise _NoEval("accumulator %s not found" % name)
    names = sorted({l["pat"]["name"] for l in hirq.find(body, "let") if l["pat"].get("k") == "bind" and re.match(r"expected_size", l["pat"].get("name") or "")})
    full = next((n for n in names if "full" in n), None)
    minus = next((n for n in names if "minus" in n), None)
    if not full or not minus:
        ctx.bad(R, "load_attributes|shape", f.where, "the two expected-size accumulators were not found (%s)" % names, "shape changed")
        return
    try:
        bad = None
        n_eval = 0
        for flags in range(16):
            for m in range(0, 18):
                a, ua = accumulate(full, {"flags_from_data": flags, "total_files": m})
                b, ub = accumulate(minus, {"flags_from_data": flags, "total_files": m + 1, "count_minus_1": m})
                n_eval += 1
                if a != b and bad is None:
                    bad = (flags, m, a, b)
        if ua < 4 or ub < 4:
            ctx.bad(R, "load_attributes|columns", f.where, "fewer than four column terms recognised (%d / %d)" % (ua, ub), "shape changed")
        elif bad:
            ctx.bad(R, "load_attributes|layout-size", f.where, "for flags 0x%X and %d entries the full-layout formula gives %d bytes but the count-1 formula gives %d" % bad,
                    "an intact (attributes) file in the count-1 layout matches neither expected size: it is parsed with the wrong entry count and rejected, so the archive's CRC32/MD5 attributes cannot be verified (callers that ignore the load error then skip verification)")
        else:
            ctx.ok(R, {"evaluations": n_eval, "accumulators": [full, minus]})
    except _NoEval as e:
        ctx.bad(R, "load_attributes|not-evaluable", f.where, "expected-size computation not evaluable: %s" % e, "shape changed")



def _attr_maintenance_rule(ctx, mpq):
    """MutableArchive::update_attributes runs inside flush(), i.e. *before* the read-only view `self.archive` is re-opened: file
    content read through that view for a block written in this session is the old content (or unreadable).  The checksums it
    stores for modified blocks therefore may not come from a read through the view; only the stored `(attributes)` file itself
    (a block from before the session) may be read that way.  And that stored file is parsed with the entry count it holds, not
    with the grown block count (which always fails as "too small" and resets every unmodified file's checksum)."""
    R = ctx.rule("C10.attributes-maintained-from-written-data", "update_attributes reads through the stale archive view only the literal \"(attributes)\" file, and does not parse the stored attributes with the current block count", floor=2)
    f = next((x for x in mpq.fn_list if x.hir and x.kind != "Closure" and norm(x.path).endswith("modification::MutableArchive::update_attributes")), None)
    if f is None:
        ctx.bad(R, "update_attributes|missing", "-", "function not found", "anchor gone")
        return
    ctx.saw_fn(f)
    body = f.hir["body"]
    reads = [x for x in hirq.walk(body) if x.get("k") == "mcall" and x["m"] in ("read_current_file", "read_file", "read_file_by_indices", "read_file_with_new_handle")]
    stale = [x for x in reads if not (x.get("args") and (hirq.lit_str(hirq.strip(x["args"][0])) or "") == "(attributes)")]
    if stale:
        ctx.bad(R, "update_attributes|content-read-through-stale-view", "%s:%d" % (f.file, stale[0].get("ln") or 0), "`%s` reads file content through the view opened before this session's modifications" % hirq.render(stale[0])[:70],
                "a replaced file gets the checksum of its old content, a newly added one 0: the (attributes) of an intact, library-modified archive no longer verify")
    else:
        ctx.ok(R, {"reads_through_view": [hirq.render(x)[:50] for x in reads]})
    # every block written in the session gets its checksums recorded, the listfile included (it is rewritten on every add); only
    # the attributes file itself is left out — decided by evaluating the guard of the recording for three kinds of name
    af = next((x for x in mpq.fn_list if x.hir and x.kind != "Closure" and norm(x.path).endswith("modification::MutableArchive::add_file_data")), None)
    if af is not None:
        ctx.saw_fn(af)
        ab = af.hir["body"]
        alets = {l["pat"]["name"]: l["init"] for l in hirq.find(ab, "let") if l["pat"].get("k") == "bind" and l.get("init") is not None}
        rec = [n_ for n_ in hirq.find(ab, "if") if any(x.get("k") == "mcall" and x["m"] == "insert" and "modified_blocks" in hirq.render(x.get("recv")) for x in hirq.walk(n_["then"]))]
        ins_anywhere = any(x.get("k") == "mcall" and x["m"] == "insert" and "modified_blocks" in hirq.render(x.get("recv")) for x in hirq.walk(ab))
        if not ins_anywhere:
            ctx.bad(R, "add_file_data|no-recording", af.where, "written blocks are no longer recorded for the attributes update", "no checksum of this session's files reaches (attributes)")
        elif rec:
            pn = [b for p_ in af.hir["params"] for b in hirq.pat_binds(p_)]
            nm_p = next((p_ for p_ in pn if "name" in p_), None)
            try:
                tab = {nm: _bval(rec[0]["c"], {"__str__": {nm_p: nm, "archive_name": nm}}, alets) for nm in ("(attributes)", "(listfile)", "data\\file.txt")}
                if tab == {"(attributes)": False, "(listfile)": True, "data\\file.txt": True}:
                    ctx.ok(R, {"recording_guard": hirq.render(rec[0]["c"])[:60], "table": tab})
                else:
                    ctx.bad(R, "add_file_data|recording-guard", "%s:%d" % (af.file, rec[0].get("ln") or 0), "checksums of a written block are recorded under `%s`: %s" % (hirq.render(rec[0]["c"])[:50], tab),
                            "a block rewritten in this session (the listfile is, on every add / rename / remove) keeps its pre-session CRC32 / MD5 in (attributes): the intact archive fails verification of that file")
            except _NoEval as e:
                ctx.bad(R, "add_file_data|guard-not-evaluable", "%s:%d" % (af.file, rec[0].get("ln") or 0), "recording guard not evaluable: %s" % e, "shape changed")
        else:
            ctx.ok(R, {"recording": "unconditional"})
    parses = [x for x in hirq.walk(body) if x.get("k") == "call" and (x.get("fn") or "").endswith("Attributes::parse") and len(x.get("args") or []) >= 2]
    if not parses:
        ctx.bad(R, "update_attributes|no-parse", f.where, "the stored (attributes) file is no longer parsed", "unmodified files lose their stored checksums")
    for x in parses:
        leaves = [("?" if v is None else hirq.render(v)) for v in hirq.value_leaves(body, x["args"][1])]
        grown = [l for l in leaves if re.search(r"block_table|entries\(\)\.len\(\)|\.len\(\)", l) and "stored" not in l and "attrs_data" not in l]
        if grown and not any("stored_entry_count" in l or "attrs_data" in l for l in leaves):
            ctx.bad(R, "update_attributes|parsed-with-current-count", "%s:%d" % (f.file, x.get("ln") or 0), "the stored attributes are parsed with `%s`, the block count after this session's additions" % grown[0][:60],
                    "the stored file holds fewer entries: parsing fails as too small and a fresh table with empty checksums replaces it — every unmodified file ends with CRC32 0 and the MD5 column is dropped")
        else:
            ctx.ok(R, {"parsed_with": leaves[:3]})


def exec_lets(block, env, skip=()):
    """straight-line interpretation of a function body's `let` statements under env (mutated): bind and tuple patterns, initialisers
    that are integer expressions, `if`/block expressions yielding integers or tuples.  Statements that cannot be evaluated are
    skipped (their names stay undefined and raise _NoEval if used later).  Returns the value of the tail expression if it is
    evaluable (int or tuple), else None."""
    def val(e, env_):
        e = hirq.strip(e)
        k = e.get("k")
        if k == "tup":
            return tuple(val(x, env_) for x in e["es"])
        if k == "if" and e.get("else") is not None:
            return val(e["then"] if _bval(e["c"], env_, {}) else e["else"], env_)
        if k == "block":
            env2 = dict(env_)
            r = exec_lets(e, env2)
            if r is None:
                raise _NoEval("block without value")
            return r
        return _ival(e, env_, {})
    blk = hirq.strip(block)
    stmts = blk.get("stmts") or [] if blk.get("k") == "block" else []
    for st in stmts:
        if st.get("k") != "let" or st.get("init") is None:
            continue
        pat = st["pat"]
        try:
            v = val(st["init"], env)
        except _NoEval:
            continue
        if pat.get("k") == "bind" and pat["name"] not in skip:
            env[pat["name"]] = v
        elif pat.get("k") == "tuple" and isinstance(v, tuple):
            for sub, x in zip(pat.get("subs") or [], v):
                if sub.get("k") == "bind":
                    env[sub["name"]] = x
    tail = blk.get("e") if blk.get("k") == "block" else blk
    if tail is None:
        return None
    try:
        return val(tail, env)
    except _NoEval:
        return None



def _independent_verifications_rule(ctx, prog):
    """SFileVerifyFile / SFileVerifyArchive run one section per requested kind of check (sector CRC, file CRC32, file MD5).  Whether
    a section runs depends on the request (verify_flags) and on what the file carries — never on whether another section has run
    or succeeded: a 32-bit CRC that matches says nothing about the MD5"""
    R = ctx.rule("C10.requested-verifications-are-independent", "in verify_file_in_archive the guard of each SFILE_VERIFY_* section reads no local that is assigned anywhere in the function", floor=3)
    try:
        st = prog.crate("storm")
    except Exception:
        ctx.bad(R, "storm|missing", "-", "storm-ffi crate facts not found", "anchor gone")
        return
    f = next((x for x in st.fn_list if x.hir and x.kind != "Closure" and x.path.endswith("verify_file_in_archive")), None)
    if f is None:
        ctx.bad(R, "verify_file_in_archive|missing", "-", "function not found", "anchor gone")
        return
    ctx.saw_fn(f)
    body = f.hir["body"]
    assigned = {hirq.strip(a["l"])["res"].get("local") for a in hirq.walk(body) if a.get("k") in ("assign", "assignop") and hirq.strip(a["l"]).get("k") == "path"}
    n_sec = 0
    for n_ in hirq.find(body, "if"):
        c_ = hirq.render(n_["c"])
        if not re.search(r"SFILE_VERIFY_\w+", c_):
            continue
        n_sec += 1
        dep = sorted({y["res"]["local"] for y in hirq.walk(n_["c"]) if y.get("k") == "path" and y["res"].get("local") in assigned})
        sec = re.search(r"SFILE_VERIFY_(\w+)", c_).group(1)
        if dep:
            ctx.bad(R, "verify_file_in_archive|%s|depends-on-%s" % (sec, dep[0]), "%s:%d" % (f.file, n_.get("ln") or 0), "the %s section runs under `%s`, which reads `%s` — a flag set by another section" % (sec, c_[:70], dep[0]),
                    "when both checks are requested the stronger one is skipped once the weaker one passed: an alteration that preserves the CRC32 is reported as verified")
        else:
            ctx.ok(R, {"section": sec, "guard": c_[:70]})
    if n_sec == 0:
        ctx.bad(R, "verify_file_in_archive|no-sections", f.where, "no SFILE_VERIFY_* guarded section found", "shape changed")


def xval(n, env, depth=0):
    """value of an expression that may be an enum variant: returns an int, or the variant's name (str) for a path to / a
    constructor call of a variant.  Understands `match` on such values (constructor, literal, or- and wildcard patterns), calls and
    method calls of functions listed in env["__fns__"] (inlined, `self` bound to the receiver's value), associated integer
    constants through env["__consts__"], and integer arithmetic through _ival."""
    n = hirq.strip(n)
    k = n.get("k")
    if depth > 14:
        raise _NoEval("depth")
    if k == "path":
        r = n["res"]
        if "local" in r:
            if r["local"] in env:
                return env[r["local"]]
            raise _NoEval(r["local"])
        d = r.get("def", "")
        if "Variant" in (r.get("dk") or ""):
            return d.split("::")[-1]
        cs = env.get("__consts__") or {}
        if d in cs and isinstance(cs[d], int):
            return cs[d]
        raise _NoEval(d.split("::")[-1])
    if k == "call" and "Variant" in (n.get("dk") or "") :
        return (n.get("fn") or "").split("::")[-1]
    if k in ("call", "mcall", "field") and env.get("__leaf__") is not None:
        lv = env["__leaf__"](hirq.render(n))
        if lv is not None:
            return lv
    if k in ("call", "mcall"):
        g = (env.get("__fns__") or {}).get(n.get("fn"))
        if g is not None and g.hir:
            pn = [b[0] if b else None for b in (hirq.pat_binds(p_) for p_ in g.hir["params"])]
            args = ([n["recv"]] if k == "mcall" else []) + list(n.get("args") or [])
            if len(pn) == len(args) and None not in pn:
                env2 = {k_: v_ for k_, v_ in env.items() if k_.startswith("__")}
                for nm_, a_ in zip(pn, args):
                    try:
                        env2[nm_] = xval(a_, env, depth + 1)
                    except _NoEval:
                        pass
                return xval(g.hir["body"], env2, depth + 1)
    if k == "block" and n.get("e") is not None:
        env2 = dict(env)
        for st in n.get("stmts") or []:
            if st.get("k") == "let" and st["pat"].get("k") == "bind" and st.get("init") is not None:
                try:
                    env2[st["pat"]["name"]] = xval(st["init"], env2, depth + 1)
                except _NoEval:
                    pass
        return xval(n["e"], env2, depth + 1)
    if k == "match":
        v = xval(n["e"], env, depth + 1)
        for a in n["arms"]:
            if _xpat(a["pat"], v):
                return xval(a["body"], env, depth + 1)
        raise _NoEval("no arm matches %r" % (v,))
    if k == "bin" and n["op"] in ("+", "-", "*", "/"):
        a, b = xval(n["l"], env, depth + 1), xval(n["r"], env, depth + 1)
        if isinstance(a, int) and isinstance(b, int):
            return a + b if n["op"] == "+" else a - b if n["op"] == "-" else a * b if n["op"] == "*" else (a // b if b else 0)
    if k == "cast":
        return xval(n["e"], env, depth + 1)
    return _ival(n, {k_: v_ for k_, v_ in env.items() if not isinstance(v_, str)}, {}, depth + 1)


def _xpat(p, v):
    k = p.get("k")
    if k in ("wild", "bind"):
        return True
    if k == "or":
        return any(_xpat(q, v) for q in p.get("subs") or [])
    if k == "lit":
        return p["v"].get("int") == v
    if k in ("ts", "path", "struct"):
        return isinstance(v, str) and ((p.get("res") or {}).get("def") or "").split("::")[-1] == v
    if k == "ref" and p.get("sub"):
        return _xpat(p["sub"], v)
    return False



def run_extra(ctx):
    """rules armed after run(): they need nothing from run()'s locals"""
    mpq = ctx.prog.crate("wow_mpq")
    # whether a sectored file carries a checksum table is *inferred* from the first sector offset — a value no checksum protects.
    # The arm of read_sectored_file that goes on without a table (SECTOR_CRC set, table judged absent) must therefore cross-check
    # the inference against the block's own extent before it returns unverified bytes: an error exit in that arm whose condition
    # compares a sector offset with the block's stored size
    R = ctx.rule("C10.table-absent-inference-is-cross-checked", "in read_sectored_file the arm that assigns no checksum table although the SECTOR_CRC flag is set contains an error exit whose condition relates the last sector offset to compressed_size", floor=1)
    f = mpq.fns.get("wow_mpq::archive::Archive::read_sectored_file")
    if f is None or not f.hir:
        ctx.bad(R, "read_sectored_file|missing", "-", "function not found", "anchor gone")
        return
    ctx.saw_fn(f)
    outer = next((n for n in hirq.find(f.hir["body"], "if") if re.search(r"has_sector_crc\(\)", hirq.render(n["c"])) and any(x.get("k") == "assign" and "Some(" in hirq.render(x["r"]) for x in hirq.walk(n["then"]))), None)
    if outer is None:
        ctx.bad(R, "read_sectored_file|shape", f.where, "the SECTOR_CRC branch that loads the checksum table was not recognised", "shape changed")
        return
    infer = next((n for n in hirq.find(outer["then"], "if") if n.get("else") is not None and any(x.get("k") == "assign" and "Some(" in hirq.render(x["r"]) for x in hirq.walk(n["then"]))
                  and not any(x.get("k") == "assign" and "Some(" in hirq.render(x["r"]) for x in hirq.walk(n["else"]))), None)
    if infer is None:
        ctx.bad(R, "read_sectored_file|shape", f.where, "the if/else that decides whether a table is present was not recognised", "shape changed")
        return
    guards = [g for g in hirq.find(infer["else"], "if") if any(x.get("k") == "ret" and "Err" in hirq.render(x.get("e")) for x in hirq.walk(g["then"]))
              and re.search(r"compressed_size", hirq.render(g["c"])) and re.search(r"offset", hirq.render(g["c"]))]
    if guards:
        ctx.ok(R, {"fn": "read_sectored_file", "cross_check": hirq.render(guards[0]["c"])[:80]})
    else:
        ctx.bad(R, "read_sectored_file|table-absent-unchecked", "%s:%d" % (f.file, infer.get("ln") or 0), "the arm that proceeds without a checksum table has no error exit relating the sector offsets to compressed_size",
                "a single flipped bit in the first sector offset (which nothing protects) makes the reader conclude there is no table, skip every sector checksum and return other bytes as the file's content")
