"""C01 — MPQ build→open round-trip (writer/reader agreement clauses).

Decides sibling agreement between the archive writer and reader: (1) the store-raw threshold — the
compressor emits the prefixed form only when strictly smaller, every reader treats `stored <
original` as compressed and `stored == original` as raw; (2) the four hash-table probe loops use
the same start and step expressions and match on both name hashes; (3) every reader derives the
file key with the builder's formula; (4) every flag the writer can set is understood on the read
path; (5) names reach the hash table only through hash_string (three hash types per probe).
"""
import re

from .. import cmpeval, hirq, mirg, rules, symx
from ..rules import norm, ncallee
from ..symx import render

META = {
    "level": "other",
    "technique": "comparator truth tables on raw-vs-compressed decisions, symbolic comparison (E5) of probe start/step and key-derivation expressions across sibling functions, flag-vocabulary inclusion over the resolved call graph",
    "claim": "Decides that writer and reader agree on when data is compressed, on hash-table probing, on file-key derivation (incl. the position-adjusted key) and on the block-flag vocabulary, at every site. Does not decide bit-identical content for all inputs × configurations, HET/BET bit packing, or reported sizes. Also: the bound a reader compares the stored size with is the size it decompresses to; every sector-count site computes ceil(size/sector_size) (finite grid); sibling readers add the same position operand into the adjusted key; the key is derived from the final flags. Wave 5: the size operand of the adjusted key resolves to the file's uncompressed size on every branch of every reader. Wave 6: a writer that sets the sector-CRC flag reaches the checksum writer on every success path (incl. empty files); the sparse decoder appends min(run, bytes owed); the position-adjusted key takes the uncompressed size on every writer; (V3/V4) BET name hashes come from the function the BET verifier recomputes, the HET free-slot marker is one value below 0x80 on writer and reader side, and no second method byte precedes compress()'s result. Wave 7: every HET candidate is confirmed by a successful BET hash test before it becomes file info (MIR dominance); the stored-name normalisation applies only '/' -> '\\'; one cipher block per single-unit file is chosen by the SINGLE_UNIT flag alone; the builder's HET/BET code path is gated by the reader's version rule; BET entries are packed without a 64-bit ceiling; never-expands (shared with C03). Wave 8: the compressor's reader pre-check and the listing's seen-set / member-aware listfile reader are armed here (shared with C03 / C07); ArchiveBuilder / OpenOptions setters keep the other settings.",
    "note": "Trusted: compress() store-raw rule (C03), hash_string (C04). Expressions are compared after AC normalisation; integer casts are transparent.",
    "assumptions": ["sector size is always 512 << shift via header.sector_size()"],
    "explanation": "compress / read_file / read_sectored_file / read_file_by_indices / prepare_file_data decisions; HashTable::find_file, ArchiveBuilder::add_to_hash_table, MutableArchive::{find_file_entry, add_to_hash_table}; calculate_file_key vs three reader derivations; FLAG_* written vs read.",
}

M = "wow_mpq::"


def _c03_inliner(body):
    from .c03 import make_inliner
    return make_inliner(body)


STORED = re.compile(r"compressed|data\.len\(\)|sector_data|sector_size_compressed")
ORIG = re.compile(r"file_size|expected_size|actual_file_size|data\.len\(\)")


def size_decisions(fn):
    """(if-node, table, stored_atom, orig_atom, decompress_in_then, decompress_in_else)"""
    out = []
    lets_ = {l["pat"]["name"]: l["init"] for l in hirq.find(fn.hir["body"], "let") if l["pat"].get("k") == "bind" and l.get("init") is not None}

    def unlet(c, depth=0):
        """a condition held in a local (`let is_packed = a < b;`) stands for its initialiser"""
        c = hirq.strip(c)
        if depth < 3 and c.get("k") == "path" and c["res"].get("local") in lets_ and hirq.strip(lets_[c["res"]["local"]]).get("k") in ("bin", "un", "mcall"):
            return unlet(lets_[c["res"]["local"]], depth + 1)
        if c.get("k") == "bin" and c["op"] in ("&&", "||"):
            return dict(c, l=unlet(c["l"], depth), r=unlet(c["r"], depth))
        return c
    for n in hirq.find(fn.hir["body"], "if"):
        n = dict(n, c=unlet(n["c"]))
        conj = []

        def split(c):
            c = hirq.strip(c)
            if c.get("k") == "bin" and c["op"] in ("&&",):
                split(c["l"])
                split(c["r"])
            else:
                conj.append(c)
        split(n["c"])
        for c in conj:
            ats = cmpeval.atoms(c)
            if len(ats) != 2:
                continue
            st = next((a for a in ats if re.search(r"compressed|sector_data|sector_size_compressed", a)), None) or \
                next((a for a in ats if a.startswith("data.len()")), None)
            og = next((a for a in ats if a != st and ORIG.search(a)), None)
            if og is None and st:
                # any other quantity the stored size is compared with, when the arms decide about decompression
                def _has_dec(x):
                    return x is not None and any(re.search(r"::decompress(_secure)?$|compression::decompress", (y.get("fn") or "")) for y in hirq.calls(x))
                if _has_dec(n["then"]) or _has_dec(n.get("else")):
                    og = next((a for a in ats if a != st), None)
            if not st or not og or st == og:
                continue
            try:
                tt = cmpeval.truth_table(c, st, og)
            except cmpeval.Unknown:
                continue

            def has_dec(x):
                return x is not None and any(re.search(r"::decompress(_secure)?$|compression::decompress", (y.get("fn") or "")) for y in hirq.calls(x))
            out.append((n, tt, st, og, has_dec(n["then"]), has_dec(n.get("else"))))
    return out


def crc_flag_implies_checksum_rule(ctx, mpq, pid):
    """the builder sets FLAG_SECTOR_CRC on a block entry exactly when it writes the checksum(s) behind the data: on every path
    from a `flags |= FLAG_SECTOR_CRC` to a success return, a checksum is computed and written (or the flag is cleared again).
    Paths are followed with the guard that led to the set held fixed (`if self.generate_crcs` tested twice takes the same arm)."""
    R = ctx.rule("%s.crc-flag-implies-checksum-written" % pid, "in write_file every path from `flags |= FLAG_SECTOR_CRC` to a success exit passes an adler32 computation or clears the flag again", floor=2)
    f = next((x for x in mpq.fn_list if x.mir and x.kind != "Closure" and norm(x.path) == M + "builder::ArchiveBuilder::write_file"), None)
    if f is None:
        ctx.bad(R, "write_file|missing", "-", "function not found", "anchor gone")
        return
    ctx.saw_fn(f)
    consts = {k: v.get("v") for k, v in mpq.consts().items()}
    crc = consts.get(M + "tables::block::BlockEntry::FLAG_SECTOR_CRC", 0x04000000)
    blocks = f.mir["blocks"]
    cfg = mirg.Cfg(f)
    du = mirg.DefUse(f)
    sets, clears, sums = [], set(), set()
    for i, b in enumerate(blocks):
        for st in b["s"]:
            if st[0] == "=" and st[2][0] == "bin" and st[2][1] == "BitOr" and crc in (mirg.op_int(st[2][2]), mirg.op_int(st[2][3])):
                sets.append((i, st[3]))
            if st[0] == "=" and st[2][0] == "bin" and st[2][1] == "BitAnd" and any((mirg.op_int(o) is not None and (mirg.op_int(o) & 0xFFFFFFFF) == (~crc & 0xFFFFFFFF)) for o in (st[2][2], st[2][3])):
                clears.add(i)
        t = b["t"]
        if t["k"] == "call" and re.search(r"adler32|crc32|checksum", (mirg.callee(t) or "").lower()):
            sums.add(i)
    oks = {bb for bb, kind, _p in rules.ret_assignments(f) if kind in ("ok", "copy", "other", "call")}

    def guard_place(bb):
        """(place, value) of the nearest dominating switch on a plain field read that decides whether bb is reached"""
        best = None
        for i, b in enumerate(blocks):
            t = b["t"]
            if t["k"] != "switch" or not cfg.dominates(i, bb) or i == bb:
                continue
            dl = mirg.op_local(t["d"])
            for _b, k_, p_ in du.defs.get(dl, []):
                if k_ == "assign" and p_[2][0] == "use" and p_[2][1][0] in ("c", "m") and mirg.pproj(p_[2][1][1]):
                    place = (mirg.plocal(p_[2][1][1]), tuple(x for x in mirg.pproj(p_[2][1][1]) if isinstance(x, int)))
                    # which edge leads to bb?
                    for v_, tgt in t["ts"]:
                        if tgt == bb or cfg.dominates(tgt, bb):
                            best = (place, ("val", v_))
                    if t.get("o") is not None and (t["o"] == bb or cfg.dominates(t["o"], bb)):
                        best = (place, ("other", tuple(v_ for v_, _ in t["ts"])))
        return best
    for bb, ln in sets:
        g = guard_place(bb)
        # reachability from bb avoiding checksum / clear blocks, holding the guard fixed
        seen, stack, hit = set(), [bb], None
        while stack and hit is None:
            x = stack.pop()
            if x in seen:
                continue
            seen.add(x)
            if x != bb and (x in sums or x in clears):
                continue
            if x in oks and x != bb:
                hit = x
                break
            t = blocks[x]["t"]
            nxt = list(cfg.succ[x])
            # a loop whose body computes the checksum is taken to run at least once (a multi-sector file has >= 2 sectors): from its
            # header only the edge into the body is followed
            if t["k"] == "switch" and len(nxt) >= 2:
                into_body = [n_ for n_ in nxt if any(s_ in cfg.reachable(n_, avoid={x}) for s_ in sums) and x in cfg.reachable(n_)]
                if into_body and len(into_body) < len(nxt):
                    nxt = into_body
            if g is not None and t["k"] == "switch":
                dl = mirg.op_local(t["d"])
                same = False
                for _b, k_, p_ in du.defs.get(dl, []):
                    if k_ == "assign" and p_[2][0] == "use" and p_[2][1][0] in ("c", "m") and mirg.pproj(p_[2][1][1]) and (mirg.plocal(p_[2][1][1]), tuple(q for q in mirg.pproj(p_[2][1][1]) if isinstance(q, int))) == g[0]:
                        same = True
                if same:
                    if g[1][0] == "val":
                        nxt = [tg for v_, tg in t["ts"] if v_ == g[1][1]] or nxt
                    else:
                        nxt = [t["o"]] if t.get("o") is not None else nxt
            stack.extend(nxt)
        if hit is None:
            ctx.ok(R, {"flag_set_line": ln, "guard": "held fixed" if g else "none"})
        else:
            ctx.bad(R, "write_file|crc-flag-without-checksum|%d" % sets.index((bb, ln)), "%s:%d" % (f.file, ln), "after FLAG_SECTOR_CRC is set at line %d a success exit (bb%d) is reachable without computing a checksum or clearing the flag" % (ln, hit),
                    "the entry advertises a checksum that was never written: the reader takes the next item's first bytes as the checksum and rejects an intact file")
    if not sets:
        ctx.bad(R, "write_file|no-crc-flag", f.where, "FLAG_SECTOR_CRC is never set", "shape changed")


def key_size_operand_rule(ctx, mpq, pid):
    """(shared by C01 and C06) the size XOR-ed into the position-adjusted key is the file's *uncompressed* size: on the read side a
    `.file_size` field on every branch; on the write side the length of the content parameter (or a size parameter), never the
    length of something the writer produced (compressed output)"""
    R_key = ctx.rule("%s.adjusted-key-uses-the-uncompressed-size" % pid, "the value XOR-ed into (key + position) is `.file_size` in every reader and the content parameter's length in every writer", floor=4)
    fns = {norm(f.path): f for f in mpq.fn_list if f.kind != "Closure" and f.hir}
    local_fns = {f.path: f for f in mpq.fn_list if f.kind != "Closure" and f.hir}
    for path in ("archive::Archive::read_file", "archive::Archive::read_file_by_indices", "archive::Archive::read_patch_file_raw"):
        f = fns.get(M + path)
        if f is None:
            continue
        for x, x_ln in hirq.inline_local_calls(f.hir["body"], local_fns, lambda n_: n_.get("k") == "bin" and n_["op"] == "^" and "wrapping_add" in hirq.render(n_), depth=1, skip=re.compile(r"::crypto::|::compression::")):
            size = x["r"] if "wrapping_add" in hirq.render(x["l"]) else x["l"]
            leaves = hirq.value_leaves(f.hir["body"], size)
            wrong = [("?" if v is None else hirq.render(v)) for v in leaves if v is None or not (v.get("k") == "field" and v["name"] == "file_size")]
            if wrong or not leaves:
                ctx.bad(R_key, "%s|size-operand" % path.split("::")[-1], "%s:%d" % (f.file, x_ln or x.get("ln") or 0), "the value XOR-ed into the adjusted key can be `%s`; the builder uses the uncompressed file size" % ", ".join(wrong or ["<nothing resolved>"]),
                        "FIX_KEY files whose stored size differs from their size decrypt with the wrong key on that branch")
            else:
                ctx.ok(R_key, {"fn": path, "size_operand": sorted({hirq.render(v) for v in leaves})})
            break

    for path in ("modification::MutableArchive::prepare_file_data", "builder::ArchiveBuilder::calculate_file_key", "builder::ArchiveBuilder::write_file"):
        f = fns.get(M + path)
        if f is None:
            continue
        params = {b for p_ in f.hir["params"] for b in hirq.pat_binds(p_)}
        for x in [n_ for n_ in hirq.walk(f.hir["body"]) if n_.get("k") == "bin" and n_["op"] == "^" and "wrapping_add" in hirq.render(n_)]:
            size = x["r"] if "wrapping_add" in hirq.render(x["l"]) else x["l"]
            leaves = hirq.value_leaves(f.hir["body"], size)
            wrong = []
            for v in leaves:
                if v is None:
                    wrong.append("?")
                    continue
                base = hirq.strip(v["recv"]) if v.get("k") == "mcall" and v["m"] == "len" else v
                while base.get("k") in ("ref", "un", "cast"):
                    base = hirq.strip(base["e"])
                if not (base.get("k") == "path" and base["res"].get("local") in params):
                    wrong.append(hirq.render(v))
            if wrong or not leaves:
                ctx.bad(R_key, "%s|size-operand" % path.split("::")[-1], "%s:%d" % (f.file, x.get("ln") or 0), "the writer XORs `%s` into the adjusted key; it is not the content it was handed (parameters: %s)" % (", ".join(wrong or ["<nothing>"]), ", ".join(sorted(params))[:60]),
                        "when compression shrinks the data the file is encrypted with a key no reader derives: it is unreadable after reopen")
            else:
                ctx.ok(R_key, {"fn": path, "size_operand": sorted({hirq.render(v) for v in leaves})})


def decision_bound_rule(ctx, mpq, pid):
    """(shared by C01 and C02) where a reader decides `stored < X => decompress`, X is the size it decompresses to in that arm"""
    fns = {norm(f.path): f for f in mpq.fn_list if f.kind != "Closure" and f.hir}
    # 1a. the quantity the stored size is compared with is the size the data is then decompressed to
    R_tgt = ctx.rule("%s.decision-bound-is-decompression-target" % pid, "where a reader decides `stored < X ⇒ decompress`, X is the expected size it passes to the decompressor in that arm", floor=2)
    for path in ("archive::Archive::read_file", "archive::Archive::read_sectored_file", "archive::Archive::read_file_by_indices", "archive::Archive::read_patch_file_raw"):
        f = fns.get(M + path)
        if f is None:
            continue
        inl = _c03_inliner(f.hir["body"])
        for n, tt, st, og, dthen, delse in size_decisions(f):
            arm = n["then"] if dthen else (n.get("else") if delse else None)
            if arm is None:
                continue
            targets = set()
            for c in hirq.calls(arm):
                if re.search(r"::decompress(_secure)?$|compression::decompress", c.get("fn") or "") and len(c.get("args") or []) >= 3:
                    a = hirq.strip(c["args"][-1])
                    while a.get("k") == "cast":
                        a = hirq.strip(a["e"])
                    targets.add(hirq.render(a))
            if not targets:
                continue
            ogn = re.sub(r"^\((.*) as _\)$", r"\1", og)
            key = "%s|bound-vs-target|%s" % (path.split("::")[-1], st[:24])
            if ogn in targets or og in targets:
                ctx.ok(R_tgt, {"fn": path, "bound": og, "decompress_target": sorted(targets)})
            else:
                ctx.bad(R_tgt, key, "%s:%d" % (f.file, n["ln"]), "stored size `%s` is compared with `%s`, but the arm decompresses to `%s`" % (st, og, ", ".join(sorted(targets))),
                        "whenever the two differ (a short final sector, a truncated unit) a block stored raw is handed to the decompressor or a compressed one is returned verbatim")


def key_from_final_flags_rule(ctx, mpq, pid):
    """(shared by C01 and C02) no FIX_KEY bit is OR-ed into the flags after the key was derived from them"""
    fns = {norm(f.path): f for f in mpq.fn_list if f.kind != "Closure" and f.hir}
    consts = {k: v.get("v") for k, v in mpq.consts().items()}
    # 1c. flags used for key derivation == flags stored: no FIX_KEY bit may be OR-ed in after the key was derived
    R_kf = ctx.rule("%s.key-derived-from-final-flags" % pid, "in write_file no `flags |= FLAG_FIX_KEY` is reachable after a calculate_file_key(.., flags) call", floor=2)
    wfile = fns.get(M + "builder::ArchiveBuilder::write_file")
    if wfile is None:
        ctx.bad(R_kf, "write_file|missing", "-", "function not found", "anchor gone")
    else:
        ctx.saw_fn(wfile)
        cfg = mirg.Cfg(wfile)
        fix = consts.get(M + "tables::block::BlockEntry::FLAG_FIX_KEY", 0x20000)
        sets = []      # (bb, line) of `x = BitOr(x, FIX_KEY)`
        for i, b in enumerate(wfile.mir["blocks"]):
            for stt in b["s"]:
                if stt[0] == "=" and stt[2][0] == "bin" and stt[2][1] == "BitOr" and (mirg.op_int(stt[2][2]) == fix or mirg.op_int(stt[2][3]) == fix):
                    sets.append((i, stt[3]))
        for bb, t in mirg.iter_calls(wfile):
            if (ncallee(t) or "").endswith("ArchiveBuilder::calculate_file_key"):
                after = cfg.reachable(t["t"]) if t.get("t") is not None else set()
                late = [(b_, ln_) for b_, ln_ in sets if b_ in after and not cfg.dominates(b_, bb)]
                if late:
                    ctx.bad(R_kf, "write_file|fix-key-after-derivation", "%s:%d" % (wfile.file, t["ln"]), "FLAG_FIX_KEY is OR-ed into the flags at line %d, after the key was derived at line %d" % (late[0][1], t["ln"]),
                            "the file is encrypted with the unadjusted key but stored with FIX_KEY set: readers derive the adjusted key and return garbage")
                else:
                    ctx.ok(R_kf, {"call_line": t["ln"], "fix_key_sets_before": len([1 for b_, _ in sets if cfg.dominates(b_, bb) or b_ == bb])})


def cipher_block_extent_rule(ctx, mpq, pid):
    """(shared by C01 and C02) what is one cipher block is a matter of layout alone: a single-unit file is one block whatever its
    size, a sectored file is one block per sector (key + index).  Where a reader chooses between the two, the choice reads the
    SINGLE_UNIT flag and nothing else"""
    R = ctx.rule("%s.cipher-block-extent-follows-the-single-unit-flag" % pid, "every reader-side `if` that decrypts the whole buffer in one arm and per sector (key + i) in the other is decided by the single-unit flag alone; a bool parameter in that role is fed `is_single_unit()` by every caller", floor=1)
    byp = {f.path: f for f in mpq.fn_list if f.hir and f.kind != "Closure"}
    n_found = 0
    for f in mpq.fn_list:
        if not f.hir or f.kind == "Closure" or "::tests::" in f.path or not re.search(r"::(archive|modification)::", f.path):
            continue
        for n in hirq.find(f.hir["body"], "if"):
            if n.get("else") is None:
                continue
            def whole(b):
                return any(c_.get("k") == "call" and re.search(r"decrypt_file_data$|decrypt_block$", c_.get("fn") or "") for c_ in hirq.walk(b)) and not any(x.get("k") == "for" for x in hirq.walk(b))
            def per_sector(b):
                return any(x.get("k") == "for" and re.search(r"chunks(_mut|_exact_mut)?\(", hirq.render(x["iter"])) and any(c_.get("k") == "call" and re.search(r"decrypt_file_data$|decrypt_block$", c_.get("fn") or "") for c_ in hirq.walk(x["body"])) for x in hirq.walk(b))
            if not ((whole(n["then"]) and per_sector(n["else"])) or (whole(n["else"]) and per_sector(n["then"]))):
                continue
            n_found += 1
            ctx.saw_fn(f)
            c = hirq.strip(n["c"])
            while c.get("k") == "un" and c.get("op") == "Not":
                c = hirq.strip(c["e"])
            where = "%s:%d" % (f.file, n.get("ln") or 0)
            key = "%s|cipher-extent" % f.path.split("::")[-1]
            pn = [b for p_ in f.hir["params"] for b in hirq.pat_binds(p_)]
            if c.get("k") == "mcall" and c["m"] == "is_single_unit":
                ctx.ok(R, {"fn": f.path.split("::")[-1], "decided_by": "is_single_unit()"})
            elif c.get("k") == "path" and (c.get("res") or {}).get("local") in pn:
                # a flag handed in: every caller passes is_single_unit()
                ix = pn.index(c["res"]["local"])
                badc = []
                ncall = 0
                for g in mpq.fn_list:
                    if not g.hir or "::tests::" in g.path:
                        continue
                    for cl in hirq.calls(g.hir["body"]):
                        if cl.get("fn") == f.path and len(cl.get("args") or []) > ix - (1 if pn and pn[0] == "self" else 0):
                            ncall += 1
                            a = hirq.strip(cl["args"][ix - (1 if pn and pn[0] == "self" else 0)])
                            vals = [a] + [hirq.strip(v) for v in hirq.value_leaves(g.hir["body"], a) if v is not None]
                            if not any(v.get("k") == "mcall" and v["m"] == "is_single_unit" for v in vals):
                                badc.append("%s:%s passes `%s`" % (g.path.split("::")[-1], cl.get("ln"), hirq.render(a)[:40]))
                if badc or not ncall:
                    ctx.bad(R, key + "|caller", where, "the layout flag `%s` is not the single-unit flag at every call: %s" % (c["res"]["local"], "; ".join(badc) or "no caller found"), "a file is decrypted with the other layout's block extent: everything after the first sector (or the whole file) comes out as garbage")
                else:
                    ctx.ok(R, {"fn": f.path.split("::")[-1], "decided_by": "parameter `%s` = is_single_unit() at %d call sites" % (c["res"]["local"], ncall)})
            else:
                ctx.bad(R, key, where, "the choice between one cipher block and one per sector is decided by `%s`" % hirq.render(n["c"])[:80],
                        "the format makes a single-unit file one cipher block whatever its size (and a sectored file one block per sector): files another writer stored as large encrypted single units — or small sectored ones — decrypt to garbage after the first sector")
    if n_found == 0:
        ctx.bad(R, "cipher-extent|none", "-", "no whole-vs-per-sector decryption choice found on the read path", "shape changed")


def het_candidate_confirmed_rule(ctx, mpq, pid):
    """an 8-bit HET hash says little (128 values): the BET name hash is what proves that a candidate slot holds the requested name.
    Wherever a reader turns a HET candidate into file info, the BET hash test has said yes on every path"""
    R = ctx.rule("%s.het-candidate-confirmed-by-bet-hash" % pid, "in every function that calls HetTable::find_file* and BetTable::get_file_info, each get_file_info call is dominated by the taken (true) edge of a test of BetTable::verify_file_hash", floor=1)
    n = 0
    for f in mpq.fn_list:
        if f.kind == "Closure" or not f.mir or not f.mir.get("blocks") or "::tests::" in f.path:
            continue
        calls = list(mirg.iter_calls(f))
        het = [bb for bb, t in calls if re.search(r"HetTable::find_file", ncallee(t) or "")]
        gfi = [(bb, t) for bb, t in calls if re.search(r"BetTable::get_file_info$", ncallee(t) or "")]
        if not het or not gfi:
            continue
        ctx.saw_fn(f)
        cfg = mirg.Cfg(f)
        blocks = f.mir["blocks"]
        yes = []
        for bb, t in calls:
            if not re.search(r"BetTable::verify_file_hash$", ncallee(t) or "") or t.get("t") is None:
                continue
            # the block the call returns to switches on the result (possibly after copies): its non-zero target is the "hash matches" edge
            nb = blocks[t["t"]]["t"]
            if nb["k"] == "switch":
                zero = [tg for v, tg in nb["ts"] if v == 0]
                other = nb["o"]
                yes.append(other if zero else None)
        for bb, t in gfi:
            n += 1
            if any(y is not None and (y == bb or cfg.dominates(y, bb)) for y in yes):
                ctx.ok(R, {"fn": f.path.split("::")[-1], "line": t["ln"]})
            else:
                ctx.bad(R, "%s|unconfirmed-candidate" % f.path.split("::")[-1], "%s:%d" % (f.file, t["ln"]), "a HET candidate is turned into file info on a path that has not passed a successful BetTable::verify_file_hash",
                        "a name that was never added, but whose 8-bit HET hash equals a stored file's, resolves to that file: read_file returns another file's content instead of FileNotFound")
    if n == 0:
        ctx.bad(R, "het-bet-lookup|none", "-", "no function combining HetTable::find_file* with BetTable::get_file_info found", "shape changed")


def stored_name_rule(ctx, mpq, pid):
    """the builder stores, hashes and key-derives a file under normalize_mpq_path(name); the reader hashes the name as the caller spells
    it.  The two agree for every name only if the normalisation does nothing the hash fold does not do itself: '/' -> '\\' (and
    nothing else — no trimming, no case change, no component clean-up)"""
    R = ctx.rule("%s.stored-name-normalisation-is-hash-invisible" % pid, "normalize_mpq_path applies only str::replace('/', \"\\\\\") to its argument (every other string method that can change the text is a violation)", floor=1)
    f = mpq.fns.get("wow_mpq::path::normalize_mpq_path")
    if f is None or not f.hir:
        ctx.bad(R, "normalize_mpq_path|missing", "-", "function not found", "anchor gone")
        return
    ctx.saw_fn(f)
    NEUTRAL = {"to_string", "to_owned", "into", "as_str", "as_ref", "clone", "collect", "chars", "bytes", "iter", "as_bytes", "into_owned", "to_str", "borrow"}
    found_replace, other = False, []
    for c in hirq.walk(f.hir["body"]):
        if c.get("k") != "mcall":
            continue
        if c["m"] == "replace" and len(c.get("args") or []) == 2:
            a0, a1 = hirq.strip(c["args"][0]), hirq.strip(c["args"][1])
            def text_(a):
                """the character / string a literal or a named constant (module-level or function-local) stands for"""
                if a.get("k") == "lit":
                    return (a.get("v") or {}).get("char") or (a.get("v") or {}).get("str")
                if a.get("k") == "path" and "def" in (a.get("res") or {}) and hirq.PROGRAM_CONSTS:
                    cv = hirq.PROGRAM_CONSTS.get(a["res"]["def"])
                    cv = cv.get("v") if isinstance(cv, dict) else cv
                    if isinstance(cv, int):
                        return cv
                    r_ = cv.get("repr") if isinstance(cv, dict) else (cv if isinstance(cv, str) else None)
                    if isinstance(r_, str) and len(r_) >= 2 and r_[0] in "\"'" and r_[-1] == r_[0]:
                        try:
                            import ast
                            return ast.literal_eval(r_ if r_[0] == '"' else '"' + r_[1:-1].replace('"', '\\"') + '"')
                        except Exception:
                            return None
                return None
            frm, to = text_(a0), text_(a1)
            if frm in ("/", 47) and to in ("\\", 92):
                found_replace = True
                continue
            other.append("replace(%s, %s)" % (hirq.render(a0), hirq.render(a1)))
        elif c["m"] not in NEUTRAL:
            other.append(c["m"])
    if found_replace and not other:
        ctx.ok(R, {"fn": "normalize_mpq_path", "applies": "replace('/', '\\')"})
    else:
        ctx.bad(R, "normalize_mpq_path|rewrites-name", f.where, "the stored name is additionally rewritten by %s" % (", ".join(sorted(set(other))) or "(no '/' -> '\\' replacement found)"),
                "a file added under a name this changes is hashed, listed and key-derived under another name than the one a reader hashes: it cannot be read back under its own name, and a name that was never added resolves to it")


def bit_packing_rule(ctx, mpq, pid):
    """HET / BET tables are bit-packed: a BET entry is as wide as its four fields together (file position, two sizes, flag index) — more
    than 64 bits for a few large files — and a field of w bits at an arbitrary bit offset touches up to ceil((7 + w) / 8) bytes.  The
    builder's packers must cope with both: no entry assembled in one u64, no read-modify-write window cut off at eight bytes"""
    R = ctx.rule("%s.bit-packed-tables-are-written-without-a-64-bit-ceiling" % pid, "in builder.rs: no u64 accumulates two or more fields with variable shifts (`x |= v << bit_index`), and no bit writer clamps the bytes it rewrites to 8 (`.min(8)` / `i * 8 < 64`)", floor=2)
    n = 0
    for f in mpq.fn_list:
        if not f.hir or f.kind == "Closure" or "::builder::" not in f.path or "::tests::" in f.path:
            continue
        body = f.hir["body"]
        name = f.path.split("::")[-1]
        if re.search(r"bit", name):
            n += 1
            ctx.saw_fn(f)
            cut = [x for x in hirq.walk(body) if (x.get("k") == "mcall" and x["m"] == "min" and x.get("args") and hirq.const_int(x["args"][0]) == 8)
                   or (x.get("k") == "bin" and x["op"] == "<" and hirq.const_int(x["r"]) == 64 and re.search(r"\* 8", hirq.render(x["l"])))]
            if cut:
                ctx.bad(R, "%s|window-cut-at-8-bytes" % name, "%s:%d" % (f.file, cut[0].get("ln") or 0), "`%s` limits the bytes rewritten for one field to eight" % hirq.render(cut[0])[:40],
                        "a field of 58..64 bits at an unaligned bit offset spans nine bytes: its top bits are dropped, the archive builds and a file reads back with the wrong position or size")
            else:
                ctx.ok(R, {"fn": name, "window": "whole field"})
        acc = {}
        for a in hirq.walk(body):
            if a.get("k") == "assignop" and a.get("op") in ("|=", "BitOr", "|") and hirq.strip(a["l"]).get("k") == "path":
                r = hirq.strip(a["r"])
                if r.get("k") == "bin" and r["op"] == "<<" and hirq.const_int(r["r"]) is None:
                    loc = hirq.strip(a["l"])["res"].get("local")
                    acc.setdefault(loc, []).append(a)
        for loc, sites in acc.items():
            if len(sites) < 2:
                continue
            n += 1
            ctx.saw_fn(f)
            ty = mpq.ty(hirq.strip(sites[0]["l"]).get("t")) or ""
            if ty in ("u64", "u32", "usize"):
                ctx.bad(R, "%s|entry-in-%s" % (name, ty), "%s:%d" % (f.file, sites[0].get("ln") or 0), "`%s` (%s) collects %d fields at variable bit positions" % (loc, ty, len(sites)),
                        "when the fields together are wider than the integer (three incompressible 3 MiB files already give a 69-bit BET entry) the shift overflows: build() panics, or without overflow checks writes a corrupt table")
            else:
                ctx.ok(R, {"fn": name, "accumulator": "%s: %s" % (loc, ty)})
    if n == 0:
        ctx.bad(R, "builder|no-bit-packing", "-", "no bit-packing code found in builder.rs", "shape changed")


def het_bet_writer_matches_reader_rule(ctx, mpq, pid):
    fns = mpq.fns
    M = "wow_mpq::"
    # HET/BET (V3/V4): what the builder writes must be what the reader's own HET/BET lookup accepts — the classic tables the builder
    # also writes must not be what keeps lookups working.
    #  (a) the name hash stored per file in BET comes from the function BetTable::verify_file_hash recomputes;
    #  (b) the free-slot marker of the HET hash table is one value on the write and the read side, outside the range of name hashes
    #      (0x80..=0xFF: the top bit is always set);
    #  (c) compress() already returns the method byte in front of the data (or the data unchanged): nobody prepends a second one.
    R_hb = ctx.rule("%s.het-bet-writer-matches-reader" % pid, "BET hashes are computed with the verifier's hash function; the HET free-slot marker is the same constant < 0x80 in builder, in-place modifier and reader; no method byte is pushed in front of compress()'s result", floor=5)
    hashfn = lambda fn_: sorted({(c_.get("fn") or "").split("::")[-1] for c_ in hirq.calls(fn_.hir["body"]) if re.search(r"crypto::(\w+::)?(het_hash|jenkins_hash|jenkins_hashlittle2|jenkins_one_at_a_time|hash_string)$", c_.get("fn") or "")})
    vf = fns.get(M + "tables::bet::BetTable::verify_file_hash")
    bw = [f for f in mpq.fn_list if f.hir and f.kind != "Closure" and re.search(r"::(builder|modification)::", f.path) and any(x.get("k") == "mcall" and x["m"] == "push" and "bet_hashes" in hirq.render(x.get("recv")) for x in hirq.walk(f.hir["body"]))]
    if vf is None or not bw:
        ctx.bad(R_hb, "bet-hash|missing", "-", "verify_file_hash or the BET hash writer not found", "anchor gone")
    else:
        ctx.saw_fn(vf)
        alias = {"het_hash": "jenkins_hashlittle2"}
        want = {alias.get(h_, h_) for h_ in hashfn(vf)}
        for f in bw:
            ctx.saw_fn(f)
            # the call whose result is pushed
            pushed = set()
            for x in hirq.walk(f.hir["body"]):
                if x.get("k") == "mcall" and x["m"] == "push" and "bet_hashes" in hirq.render(x.get("recv")) and x.get("args"):
                    for v in hirq.value_leaves(f.hir["body"], x["args"][0]):
                        if v is not None:
                            src = v["e"] if v.get("k") == "tupidx" else v
                            for c_ in hirq.walk(src):
                                if c_.get("k") == "call" and re.search(r"crypto::", c_.get("fn") or ""):
                                    pushed.add(alias.get((c_.get("fn") or "").split("::")[-1], (c_.get("fn") or "").split("::")[-1]))
            if pushed and pushed <= want:
                ctx.ok(R_hb, {"bet_hash_writer": f.path.split("::")[-1], "hash": sorted(pushed)})
            elif pushed:
                ctx.bad(R_hb, "%s|bet-hash-function" % f.path.split("::")[-1], f.where, "BET hashes are computed with %s; BetTable::verify_file_hash recomputes them with %s" % (sorted(pushed), sorted(want)),
                        "no file of an archive written this way resolves through HET/BET: lookups only work through the silent fallback to the classic tables, and any reader without that fallback finds nothing")
            else:
                ctx.ok(R_hb, {"bet_hash_writer": f.path.split("::")[-1], "note": "placeholder hashes (no name hash pushed)"})
    markers = {}
    mconsts = mpq.consts()
    for f in mpq.fn_list:
        if not f.hir or f.kind == "Closure" or "::tests::" in f.path:
            continue
        for l in hirq.find(f.hir["body"], "let"):
            if l["pat"].get("k") == "bind" and re.search(r"het_hash_table", l["pat"]["name"]) and l.get("init") is not None:
                fe = next((y for y in hirq.walk(l["init"]) if y.get("k") == "call" and (y.get("fn") or "").endswith("vec::from_elem") and y.get("args")), None)
                lit = hirq.const_int(fe["args"][0], mconsts) if fe is not None else None
                if lit is not None:
                    markers[("init", f.path.split("::")[-1], l.get("ln"))] = lit
        for n_ in hirq.find(f.hir["body"], "if"):
            c_ = hirq.strip(n_["c"])
            if c_.get("k") == "bin" and c_["op"] == "==":
                for a_, b_ in ((c_["l"], c_["r"]), (c_["r"], c_["l"])):
                    v_ = hirq.const_int(b_, mconsts)
                    if v_ is not None and re.search(r"stored_hash|het_hash_table\[", hirq.render(a_)):
                        markers[("test", f.path.split("::")[-1], n_.get("ln"))] = v_
    vals = set(markers.values())
    if not (any(k_[0] == "init" for k_ in markers) and any(k_[0] == "test" and k_[1].startswith("find_file") for k_ in markers) and any(k_[0] == "test" and not k_[1].startswith("find_file") for k_ in markers)):
        ctx.bad(R_hb, "het-marker|sites", "-", "free-slot marker sites not recognised on all three sides — initial fill, writer's probe, reader's probe (%s)" % sorted(markers), "shape changed")
    elif len(vals) == 1 and next(iter(vals)) < 0x80:
        ctx.ok(R_hb, {"het_free_slot_marker": "0x%02X" % next(iter(vals)), "sites": len(markers)})
    else:
        ctx.bad(R_hb, "het-marker|values", "-", "HET free-slot marker sites use %s" % {"%s:%s" % (k_[1], k_[2]): "0x%02X" % v_ for k_, v_ in sorted(markers.items())},
                "a marker inside 0x80..=0xFF is also a legal 8-bit name hash: the builder overwrites the slots of names hashing to it and the reader stops probing at them (about 2 names in 256 become unreachable through HET); differing markers make one side's free slots look occupied to the other")
    for f in mpq.fn_list:
        if not f.hir or f.kind == "Closure" or "::tests::" in f.path or "::compression::" in f.path:
            continue
        comp = [l["pat"]["name"] for l in hirq.find(f.hir["body"], "let") if l["pat"].get("k") == "bind" and l.get("init") is not None and any((c_.get("fn") or "").endswith("compression::compress::compress") or (c_.get("fn") or "").endswith("compression::compress") for c_ in hirq.calls(l["init"]))]
        if not comp:
            continue
        ctx.saw_fn(f)
        dbl = None
        for x in hirq.walk(f.hir["body"]):
            if x.get("k") == "mcall" and x["m"] in ("extend_from_slice", "extend", "append") and x.get("args") and any(re.search(r"\b%s\b" % re.escape(nm), hirq.render(x["args"][0])) for nm in comp):
                tgt = hirq.render(x["recv"])
                if any(y.get("k") == "mcall" and y["m"] == "push" and hirq.render(y["recv"]) == tgt and re.search(r"compression|method", hirq.render(y["args"][0]) if y.get("args") else "") for y in hirq.walk(f.hir["body"])):
                    dbl = x
        if dbl is not None:
            ctx.bad(R_hb, "%s|double-method-byte" % f.path.split("::")[-1], "%s:%d" % (f.file, dbl.get("ln") or 0), "a compression method byte is pushed in front of `%s`, which compress() already returned with its method byte (or unchanged when it did not shrink)" % hirq.render(dbl["args"][0])[:40],
                    "the reader takes the first byte as the method and the second as data: the table (or block) fails to decompress — with table compression on, HET and BET cannot be loaded")
        else:
            ctx.ok(R_hb, {"fn": f.path.split("::")[-1], "compress_result": "used as returned"})



def run(ctx):
    prog = ctx.prog
    mpq = prog.crate("wow_mpq")
    consts = {k: v.get("v") for k, v in mpq.consts().items()}
    fns = {norm(f.path): f for f in mpq.fn_list if f.kind != "Closure" and f.hir}
    local_fns = {f.path: f for f in mpq.fn_list if f.kind != "Closure" and f.hir}
    R_thr = ctx.rule("C01.raw-vs-compressed-threshold-agrees", "readers decompress exactly when stored < original (strict); equal sizes are raw — the compressor's rule", floor=2)
    R_probe = ctx.rule("C01.probe-loops-agree", "the four probe loops start at hash(name,TABLE_OFFSET) & (size-1), step (i+1) & (size-1), and compare both name hashes", floor=4)
    R_key = ctx.rule("C01.file-key-derivation-agrees", "every reader derives the (position-adjusted) file key with the builder's expression", floor=3)
    R_flags = ctx.rule("C01.flag-vocabulary", "every block flag the writer can set is tested somewhere on the read path", floor=5)

    # 1. thresholds
    for path in ("archive::Archive::read_file", "archive::Archive::read_sectored_file", "archive::Archive::read_file_by_indices"):
        f = fns.get(M + path)
        if f is None:
            ctx.bad(R_thr, "%s|missing" % path, "-", "function not found", "anchor gone")
            continue
        ctx.saw_fn(f)
        for n, tt, st, og, dthen, delse in size_decisions(f):
            key = "%s|%s" % (path.split("::")[-1], st[:30])
            where = "%s:%d" % (f.file, n["ln"])
            if dthen and tt == {"lt": True, "eq": False, "gt": False}:
                ctx.ok(R_thr, {"fn": path, "cond": hirq.render(n["c"])[:80], "table": tt})
            elif delse and not dthen and tt["eq"] is True and tt["lt"] is False:
                ctx.ok(R_thr, {"fn": path, "cond": hirq.render(n["c"])[:80], "raw_on_equal": True})
            elif dthen or delse:
                ctx.bad(R_thr, key, where, "decision `%s` has table {lt:%s, eq:%s, gt:%s} over (stored=%s, original=%s); decompress in %s arm" % (
                    hirq.render(n["c"])[:80], tt["lt"], tt["eq"], tt["gt"], st, og, "then" if dthen else "else"),
                        "a block stored raw because it did not shrink (stored == original) is handed to the decompressor, or a compressed one is returned verbatim")
    decision_bound_rule(ctx, mpq, "C01")

    # 1b'. number of sectors: every site computes ceil(size / sector_size) — decided over a grid of (size, sector_size)
    R_cnt = ctx.rule("C01.sector-count-is-ceil-division", "the builder and every reader compute the sector count of a file as ceil(size / sector_size)", floor=3)
    from .c10 import _ival, _NoEval
    for path in ("builder::ArchiveBuilder::write_file", "archive::Archive::read_sectored_file", "archive::Archive::read_patch_file_raw", "modification::MutableArchive::prepare_file_data"):
        f = fns.get(M + path)
        if f is None:
            continue
        for l in hirq.find(f.hir["body"], "let"):
            if l["pat"].get("k") != "bind" or l.get("init") is None:
                continue
            init = l["init"]
            # structural: a quotient whose divisor is the sector size (whatever the local is called)
            if not any((x.get("k") == "mcall" and x["m"] == "div_ceil" and "sector_size" in hirq.render(x["args"][0])) or
                       (x.get("k") == "bin" and x["op"] == "/" and "sector_size" in hirq.render(x["r"])) for x in hirq.walk(init)):
                continue
            if any(x.get("k") in ("if", "match", "closure") for x in hirq.walk(init)):
                continue
            ctx.saw_fn(f)
            bad = None
            try:
                for ssz in (1, 4, 8):
                    for size in range(0, 3 * ssz + 2):
                        got = _ival(init, {"__leaf__": (lambda r_, ssz=ssz, size=size: ssz if "sector_size" in r_ else size)}, {})
                        want = -(-size // ssz)
                        if got != want and bad is None:
                            bad = (size, ssz, got, want)
            except _NoEval as e:
                ctx.note_unarmed(R_cnt, path, "sector count expression not evaluable: %s" % e)
                continue
            if bad:
                ctx.bad(R_cnt, "%s|sector-count" % path.split("::")[-1], "%s:%d" % (f.file, l["ln"]), "`%s` gives %d sectors for size %d with sector size %d; ceil division gives %d" % (hirq.render(init)[:70], bad[2], bad[0], bad[1], bad[3]),
                        "writer and reader disagree on how many entries the sector offset table has for such a file: the checksum table / following data is located 4 bytes off and the file does not read back")
            else:
                ctx.ok(R_cnt, {"fn": path, "expr": hirq.render(init)[:70]})

    # modification.rs writer-side decision mirrors compress()'s result
    pf = fns.get(M + "modification::MutableArchive::prepare_file_data")
    if pf is not None:
        for n in hirq.find(pf.hir["body"], "if"):
            ats = cmpeval.atoms(n["c"])
            if len(ats) == 2 and any("compressed" in a for a in ats) and "FLAG_COMPRESS" in hirq.render(n["then"]):
                st = next(a for a in ats if "compressed" in a)
                og = next(a for a in ats if a != st)
                tt = cmpeval.truth_table(n["c"], st, og)
                if tt == {"lt": True, "eq": False, "gt": False}:
                    ctx.ok(R_thr, {"fn": "prepare_file_data", "cond": hirq.render(n["c"]), "table": tt})
                else:
                    ctx.bad(R_thr, "prepare_file_data|flag", "%s:%d" % (pf.file, n["ln"]), "FLAG_COMPRESS set under `%s` with table %s" % (hirq.render(n["c"]), tt),
                            "the COMPRESS flag is set for data stored raw (or not set for compressed data)")

    # 1b. the compressor's own store-raw rule (writer side of the same threshold) — shared with C03
    from . import c03 as _c03
    comp = fns.get(M + "compression::compress::compress")
    if comp is not None:
        inline = _c03.make_inliner(comp.hir["body"])
        for n in hirq.find(comp.hir["body"], "if"):
            c_in = inline(n["c"])
            if "len()" not in hirq.render(c_in) or "compress" not in hirq.render(c_in):
                continue
            disj = []

            def split(c):
                c = hirq.strip(c)
                if c.get("k") == "bin" and c["op"] == "||":
                    split(c["l"])
                    split(c["r"])
                else:
                    disj.append(c)
            split(c_in)
            for d in disj:
                ats = cmpeval.atoms(d)
                if len(ats) == 2 and any("compress" in a for a in ats):
                    st = next(a for a in ats if "compress" in a)
                    og = next(a for a in ats if a != st)
                    tt = cmpeval.truth_table(d, st, og)
                    raw_then = "to_vec" in hirq.render(n["then"]) and "push" not in hirq.render(n["then"])
                    if raw_then and tt == {"lt": False, "eq": True, "gt": True} and re.search(r"\(1 \+ |\+ 1\)", st):
                        ctx.ok(R_thr, {"fn": "compress", "guard": hirq.render(d), "table": tt})
                    else:
                        ctx.bad(R_thr, "compress|store-raw-guard", "%s:%d" % (comp.file, n["ln"]), "writer-side guard `%s` has table %s (raw arm then=%s)" % (hirq.render(d), tt, raw_then),
                                "a block whose stored form is as long as the original is emitted compressed; every reader treats equal sizes as raw and returns the compressed stream as the file's content")

    key_from_final_flags_rule(ctx, mpq, "C01")
    het_bet_writer_matches_reader_rule(ctx, mpq, "C01")
    cipher_block_extent_rule(ctx, mpq, "C01")
    het_candidate_confirmed_rule(ctx, mpq, "C01")
    stored_name_rule(ctx, mpq, "C01")
    bit_packing_rule(ctx, mpq, "C01")
    from .c06 import version_gate_rule
    version_gate_rule(ctx, mpq, "C01", r"::builder::")
    from .c03 import never_expands_rule
    never_expands_rule(ctx, mpq, "C01")
    crc_flag_implies_checksum_rule(ctx, mpq, "C01")

    # the codecs are part of the build -> open round trip: a block the sparse decoder over-fills is a file that does not read back
    from .c03 import sparse_decoder_clamp_rule
    sparse_decoder_clamp_rule(ctx, mpq, "C01")

    # 2. probe loops
    probes = ["tables::hash::HashTable::find_file", "builder::ArchiveBuilder::add_to_hash_table",
              "modification::MutableArchive::find_file_entry", "modification::MutableArchive::add_to_hash_table"]
    for path in probes:
        f = fns.get(M + path)
        if f is None:
            ctx.bad(R_probe, "%s|missing" % path, "-", "function not found", "anchor gone")
            continue
        ctx.saw_fn(f)
        body = f.hir["body"]
        # start / step via symbolic evaluation
        s = symx.Sym(consts)
        for p in f.hir["params"]:
            for b in hirq.pat_binds(p):
                s.env[b] = symx.var(b)
        step = None
        start = None
        idx = None
        blk = hirq.strip(body)
        for st in blk.get("stmts", []) + ([blk["e"]] if blk.get("e") else []):
            if st.get("k") == "loop":
                for x in hirq.walk(st["body"]):
                    if x.get("k") == "assign" and hirq.strip(x["l"]).get("k") == "path":
                        nm = hirq.strip(x["l"])["res"].get("local")
                        r = hirq.render(x["r"])
                        if nm and re.search(r"\(%s \+ 1\)" % re.escape(nm), r):
                            idx = nm
                            s2 = symx.Sym(consts)
                            s2.env = dict(s.env)
                            s2.env[nm] = symx.var("IDX")
                            step = s2.ev(x["r"])
                            start = s.env.get(nm)
                break
            s.stmt(st)
        hashes = sorted({hirq.render(c["args"][1]) for c in hirq.calls(body) if (c.get("fn") or "").endswith("crypto::hash::hash_string") and len(c["args"]) == 2})
        probs = []
        if step is None or start is None:
            probs.append("probe index/step not recognised")
        else:
            rs, rt = render(step), render(start)
            m1 = re.match(r"^and\(add\(0x1, IDX\), (.+)\)$", rs)
            m2 = re.match(r"^and\((call:hash_string\(\w+, 0x0\)), (.+)\)$", rt) or re.match(r"^and\((.+), (call:hash_string\(\w+, 0x0\))\)$", rt)
            if not m1:
                probs.append("step is `%s`, expected (i + 1) & mask" % rs)
            if not m2:
                probs.append("start is `%s`, expected hash(name, TABLE_OFFSET) & mask" % rt)
            if m1 and m2:
                mask_step = m1.group(1)
                mask_start = m2.group(2) if m2.group(1).startswith("call:hash_string") else m2.group(1)
                if mask_step != mask_start:
                    probs.append("start masks with `%s` but step masks with `%s`" % (mask_start, mask_step))
                if not re.search(r"sub\(.*0x1\)|mask", mask_step):
                    probs.append("mask `%s` is not size-1" % mask_step)
        if not {"TABLE_OFFSET", "NAME_A", "NAME_B"} <= set(hashes):
            probs.append("hash types used: %s (need TABLE_OFFSET, NAME_A, NAME_B)" % hashes)
        # match test uses both hashes
        cmp_both = any(x.get("k") == "bin" and x["op"] == "&&" and "name_1" in hirq.render(x) and "name_2" in hirq.render(x) for x in hirq.walk(body)) or "find_file" not in path and "add_to_hash_table" in path and "modification" in path
        if not cmp_both:
            probs.append("entries are not matched on both name hashes")
        if probs:
            ctx.bad(R_probe, "%s|probe" % path.split("::")[-2:][0] + "::" + path.split("::")[-1], f.where, "; ".join(probs),
                    "a name inserted by one routine is not found (or a different name is found) by the other")
        else:
            ctx.ok(R_probe, {"fn": path, "start": render(start)[:80], "step": render(step)[:60]})

    # 3. key derivation
    shapes = {}
    for path in ("builder::ArchiveBuilder::calculate_file_key", "archive::Archive::read_file", "archive::Archive::read_file_by_indices", "archive::Archive::read_patch_file_raw"):
        f = fns.get(M + path)
        if f is None:
            continue
        ctx.saw_fn(f)
        # (the sum may be held in a local first: `let shifted = key.wrapping_add(pos); shifted ^ size` is the same expression)
        sums_ = {l["pat"]["name"]: l["init"] for l in hirq.find(f.hir["body"], "let") if l["pat"].get("k") == "bind" and l.get("init") is not None and hirq.strip(l["init"]).get("k") == "mcall" and hirq.strip(l["init"])["m"] == "wrapping_add"}

        def is_key_xor(n_, sums_=sums_):
            if n_.get("k") != "bin" or n_["op"] != "^":
                return False
            return "wrapping_add" in hirq.render(n_) or any(hirq.strip(o_).get("k") == "path" and (hirq.strip(o_).get("res") or {}).get("local") in sums_ for o_ in (n_["l"], n_["r"]))
        for x, x_ln in hirq.inline_local_calls(f.hir["body"], local_fns, is_key_xor, depth=1, skip=re.compile(r"::crypto::|::compression::")):
            if True:
                x = hirq.subst(x, sums_) if sums_ else x
                x = dict(x, ln=x_ln or x.get("ln"))
                sy = symx.Sym(consts)
                e = sy.ev(x)
                r = render(e)
                # classify operands by role
                role = re.sub(r"\b\w*size\w*\b", "SIZE", r)
                role = re.sub(r"\b\w*pos\w*\b", "POS", role)
                role = re.sub(r"\b\w*key\w*\b", "KEY", role)
                role = re.sub(r"field:\w+\((\w+)\)", r"\1", role)
                # (by elimination: in `(k + pos) ^ size` the operand of the sum that is not the position is the key, whatever it is called)
                role = re.sub(r"add\((\w+), (\w+)\)", lambda m_: "add(%s, %s)" % tuple(("KEY" if (g_ not in ("POS", "SIZE", "KEY") and "POS" in m_.groups()) else g_) for g_ in m_.groups()), role)
                role = re.sub(r"add\((\w+), (\w+)\)", lambda m_: "add(%s)" % ", ".join(sorted(m_.groups())), role)
                shapes[path] = (role, x["ln"], f)
                break
    ref = shapes.get("builder::ArchiveBuilder::calculate_file_key")
    if ref is None:
        ctx.bad(R_key, "calculate_file_key|shape", "-", "builder key formula not recognised", "anchor gone")
    else:
        for path, (role, ln, f) in sorted(shapes.items()):
            if path.endswith("calculate_file_key"):
                continue
            if role == ref[0]:
                ctx.ok(R_key, {"fn": path, "formula": role})
            else:
                ctx.bad(R_key, "%s|fix-key" % path.split("::")[-1], "%s:%d" % (f.file, ln), "reader derives `%s`, builder `%s`" % (role, ref[0]),
                        "files encrypted with the position-adjusted key decrypt to garbage through this entry point")
        for path in ("archive::Archive::read_file", "archive::Archive::read_file_by_indices", "archive::Archive::read_patch_file_raw"):
            if path not in shapes:
                ctx.bad(R_key, "%s|no-fix-key" % path.split("::")[-1], "-", "no (key + pos) ^ size expression found", "FIX_KEY files cannot be decrypted through this entry point")

    # 3a'. every writer that can set FIX_KEY derives the adjusted key (not only the builder)
    for path in ("modification::MutableArchive::prepare_file_data", "builder::ArchiveBuilder::write_file"):
        f = fns.get(M + path)
        if f is None:
            continue
        sets_fix = any(x.get("k") in ("assignop", "assign") and "FLAG_FIX_KEY" in hirq.render(x["r"]) for x in hirq.walk(f.hir["body"]))
        if not sets_fix:
            continue
        ctx.saw_fn(f)
        formula = any(True for _x, _ln in hirq.inline_local_calls(f.hir["body"], local_fns, lambda n_: n_.get("k") == "bin" and n_["op"] == "^" and "wrapping_add" in hirq.render(n_), depth=1, skip=re.compile(r"::crypto::|::compression::")))
        key = "%s|sets-fix-key-without-adjusted-key" % path.split("::")[-1]
        if formula:
            ctx.ok(R_key, {"fn": path, "sets_FIX_KEY": True, "derives_adjusted_key": True})
        else:
            ctx.bad(R_key, key, f.where, "this writer can store FLAG_FIX_KEY but contains no (key + position) ^ size derivation", "the file is encrypted with the plain name key while every reader derives the adjusted one: it decrypts to garbage")

    # 3b. sibling readers agree on the un-normalised position operand (absolute vs archive-relative)
    posx = {}
    for path in ("archive::Archive::read_file", "archive::Archive::read_file_by_indices", "archive::Archive::read_patch_file_raw"):
        f = fns.get(M + path)
        if f is None:
            continue
        inl = _c03.make_inliner(f.hir["body"])
        for x, x_ln in hirq.inline_local_calls(f.hir["body"], local_fns, lambda n_: n_.get("k") == "bin" and n_["op"] == "^" and "wrapping_add" in hirq.render(n_), depth=1, skip=re.compile(r"::crypto::|::compression::")):
            wa = next((c for c in hirq.walk(x) if c.get("k") == "mcall" and c["m"] == "wrapping_add"), None)
            posx[path] = (re.sub(r"\b(file_info|info|fi)\b", "FI", hirq.render(inl(wa["args"][0]))), x_ln or x["ln"], f)
            break
    if len(posx) >= 2:
        from collections import Counter
        maj, _n = Counter(v[0] for v in posx.values()).most_common(1)[0]
        for path, (r_, ln, f) in sorted(posx.items()):
            if r_ == maj:
                ctx.ok(R_key, {"fn": path, "position_operand": r_})
            else:
                ctx.bad(R_key, "%s|position-operand" % path.split("::")[-1], "%s:%d" % (f.file, ln), "this reader adds `%s` into the key; its sibling readers add `%s`" % (r_, maj),
                        "the same FIX_KEY file decrypts through one entry point and not through the other whenever the two operands differ (archive not at offset 0)")

    key_size_operand_rule(ctx, mpq, "C01")

    # 4. flags
    cg = mirg.CallGraph([mpq])
    def flags_in(paths):
        out = set()
        for p in paths:
            f = cg.fns.get(p)
            if f is None or not f.hir:
                # closures have no own HIR (inlined in parent)
                continue
            for x in hirq.walk(f.hir["body"]):
                if x.get("k") == "path" and "BlockEntry::FLAG_" in x["res"].get("def", ""):
                    out.add(x["res"]["def"].split("::")[-1])
        return out
    wr = cg.local_reachable([p for p in cg.fns if norm(p) == M + "builder::ArchiveBuilder::write_file"] + [p for p in cg.fns if norm(p) == M + "builder::ArchiveBuilder::write_archive"])
    rd = cg.local_reachable([p for p in cg.fns if norm(p) in (M + "archive::Archive::read_file", M + "archive::Archive::find_file", M + "archive::Archive::list")])
    rd |= {p for p in cg.fns if "tables::block::BlockEntry::" in p or "archive::FileInfo::" in p}
    wf, rf = flags_in(wr), flags_in(rd)
    for fl in sorted(wf):
        if fl in rf:
            ctx.ok(R_flags, {"flag": fl})
        else:
            ctx.bad(R_flags, "flag|%s" % fl, "-", "%s is set by the writer but never tested on the read path" % fl, "files carrying this flag are written in a form the reader does not interpret")


def run_extra(ctx):
    """rules armed after run(): shared rules that need nothing from run()'s locals"""
    from ..shared import setters_keep_other_settings_rule
    # what build writes, open must accept: the compressor's own "would the reader take this block" pre-check (shared with C03)
    from .c03 import compressor_limits_rule
    compressor_limits_rule(ctx, ctx.prog.crate("wow_mpq"), "C01")
    # "the listing contains exactly the added names": one entry per stored file (shared with C07)
    from .c07 import listing_once_rule
    listing_once_rule(ctx, ctx.prog.crate("wow_mpq"), "C01")
    # ... every added name, including names that look like listfile comments or carry a ';': Archive::list reads the (listfile) with
    # the member-aware parser (a line that names a member is a name, whatever characters it uses)
    mpq_ = ctx.prog.crate("wow_mpq")
    R_names = ctx.rule("C01.listing-reads-names-with-the-member-aware-parser", "Archive::list parses the (listfile) with parse_listfile_with and a predicate that asks the archive (find_file) — not with the plain parse_listfile", floor=1)
    ls_ = mpq_.fns.get("wow_mpq::archive::Archive::list")
    if ls_ is None or not ls_.hir:
        ctx.bad(R_names, "Archive::list|missing", "-", "function not found", "anchor gone")
    else:
        ctx.saw_fn(ls_)
        aware_ = [c for c in hirq.calls(ls_.hir["body"]) if re.search(r"parse_listfile_with$", c.get("fn") or "") and any(x.get("k") == "mcall" and x["m"] in ("find_file", "has_file") for x in hirq.walk(c))]
        plain_ = [c for c in hirq.calls(ls_.hir["body"]) if re.search(r"special_files::(listfile::)?parse_listfile$", c.get("fn") or "")]
        if aware_ and not plain_:
            ctx.ok(R_names, {"fn": "Archive::list", "parser": "parse_listfile_with + find_file"})
        else:
            ctx.bad(R_names, "Archive::list|plain-listfile-parser", ls_.where, "Archive::list parses the (listfile) with %s" % ("parse_listfile" if plain_ else "an unrecognised reader"),
                    "a member named `#notes.txt` is taken for a comment and `a;b.txt` is cut at the ';': both were added, neither is listed (the builder writes such names into the listfile verbatim)")
    setters_keep_other_settings_rule(ctx, [ctx.prog.crate(c) for c in ["wow_mpq"]], "C01", "builder::ArchiveBuilder$|archive::OpenOptions$", floor=14)
