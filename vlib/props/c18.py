"""C18 — WDT and WDL map files survive write→parse; tile↔world coordinates invert.

Per `Chunk` impl (WDT) and per record type (WDL): read↔write wire agreement (E4) and `size()` equal
to the bytes `write` emits where computable; reader and writer consult the same version rule for
the optional MWMO chunk; the coordinate functions pair axes consistently: in the composition
world_to_tile∘tile_to_world output i depends only on input i, with the same scale/offset constants
on both sides (dependence analysis on symbolic expressions, E5).
"""
import re

from .. import hirq, symx, wire
from ..rules import norm
from .c13 import owners, struct_fields

META = {
    "level": "other",
    "technique": "wire-signature agreement of read/write per chunk type (typed HIR) + symbolic dependence analysis of the coordinate formulas",
    "claim": "Decides layout agreement for every WDT Chunk impl and every WDL record with a parse/write pair, size() vs bytes written for fixed-size chunks, that the MWMO presence rule is the same call on the read and write side, and that the two coordinate functions are axis-consistent inverses up to truncation (same constants, output i of the round trip depends on input i only). Does not evaluate floats over the 4096 tiles. Also: MPHD file-id slots agree between reader and writer; WDL offset advances are paired with chunk registration; no collection is read before it is populated; the inverse snaps grid-line quotients with a tolerance above the f32 error bound. Wave 5: conversion steps compose (steps(a->b) = steps(a->m) ∪ steps(m->b) over all version triples); WDL capability tables have no gap and exactly one model-table family per version. Wave 6: optional WDT chunks are written whenever present (MWMO under the reader's own version rule); convert_wdl_file refuses on presence (is_empty/len), never on values. Wave 7: every field of a record with a linear read/write pair is read by its write; detect_version consults chunk presence before header flags. Wave 8: size() of a variable-size chunk scales with what write() walks (reader-fixed tables exempt); conversions leave the tile table alone.",
    "note": "Trusted: primitive widths; f32 arithmetic is not modelled (only the expression shape).",
    "assumptions": ["floor/truncation of a value exactly on a tile boundary is outside the structural claim"],
    "explanation": "wow_wdt::chunks::{Mver,Mphd,Main,Mwmo,Modf,Maid}Chunk read/write/size, wow_wdl::types::* parse/write, WdtReader::read / WdtWriter::write should_have_chunk calls, tile_to_world / world_to_tile.",
}


def width_of(toks):
    total = 0
    for t in toks:
        if t.k == "P" or (t.k == "B" and t.w is not None):
            total += t.w
        elif t.k == "REP" and t.count is not None:
            w = width_of(t.arms[0])
            if w is None:
                return None
            total += t.count * w
        else:
            return None
    return total


def depends(e, out=None):
    out = out if out is not None else set()
    if e[0] == "var":
        out.add(e[1])
    elif e[0] == "op":
        for a in e[2:]:
            depends(a, out)
    return out


def consts_in(e, out=None):
    out = out if out is not None else []
    if e[0] == "const":
        out.append(e[1])
    elif e[0] == "op":
        for a in e[2:]:
            consts_in(a, out)
    return out


def _conversion_steps_rule(ctx, wdt):
    """convert_wdt applies one structural step per format boundary crossed, and a conversion can cross several.  Spelling-free
    formulation: the set of steps run for a -> b (each step's full path condition, evaluated) equals the union of the sets run
    for a -> m and m -> b, for every m strictly between a and b, in both directions, over all version triples; and no step runs
    for a == b's neighbours in the wrong direction (an upgrade runs no downgrade step).  A chain of `else if` fails it (a -> b
    runs one step where a -> m -> b runs two), whatever the conditions are called."""
    R = ctx.rule("C18.conversion-steps-compose", "for all version triples a < m < b (and a > m > b): steps(a -> b) == steps(a -> m) ∪ steps(m -> b), where steps(x -> y) is the set of convert_* calls of convert_wdt whose path condition holds", floor=4)
    from .c07 import enclosing_if_conditions
    from .c10 import _bval, _NoEval
    f = next((x for x in wdt.fn_list if x.hir and x.kind != "Closure" and norm(x.path).endswith("conversion::convert_wdt")), None)
    ver = next((a for a in wdt.items["adts"] if a["path"].endswith("::WowVersion")), None)
    if f is None or ver is None:
        ctx.bad(R, "convert_wdt|missing", "-", "convert_wdt or WowVersion not found", "anchor gone")
        return
    ctx.saw_fn(f)
    names = [v["name"] for v in ver.get("variants", [])]
    ordn = {n: i for i, n in enumerate(names)}
    body = f.hir["body"]
    lets = {l["pat"]["name"]: l["init"] for l in hirq.find(body, "let") if l["pat"].get("k") == "bind" and l.get("init") is not None}
    steps = [c_ for c_ in hirq.calls(body) if re.search(r"conversion::convert_\w+$", c_.get("fn") or "") and not (c_.get("fn") or "").endswith("convert_wdt")]
    if len(steps) < 2:
        ctx.bad(R, "convert_wdt|steps", f.where, "fewer than two convert_* steps found", "shape changed")
        return
    pn = [b for p_ in f.hir["params"] for b in hirq.pat_binds(p_)]
    fv = next((p_ for p_ in pn if "from" in p_), None)
    tv = next((p_ for p_ in pn if p_.startswith("to")), None)
    conds = {}
    for st in steps:
        conds[(st.get("fn") or "").split("::")[-1]] = [(w, cd) for w, cd in enclosing_if_conditions(body, st) if w in ("then", "else")]

    def run_set(a, b):
        env = {fv: ordn[a], tv: ordn[b], "__leaf__": (lambda r_: ordn.get(r_))}
        return frozenset(nm for nm, cs in conds.items() if all((_bval(cd, env, lets) if w == "then" else not _bval(cd, env, lets)) for w, cd in cs))
    try:
        bad = None
        n_tr = 0
        for a in names:
            for b in names:
                if a == b:
                    continue
                lo, hi = sorted((ordn[a], ordn[b]))
                for m in names:
                    if not (lo < ordn[m] < hi):
                        continue
                    n_tr += 1
                    direct, via = run_set(a, b), run_set(a, m) | run_set(m, b)
                    if direct != via and bad is None:
                        bad = (a, m, b, sorted(direct), sorted(via))
        never = [nm for nm in conds if not any(nm in run_set(a, b) for a in names for b in names if a != b)]
        if bad:
            ctx.bad(R, "convert_wdt|not-compositional", f.where, "%s -> %s runs %s, but %s -> %s -> %s runs %s" % (bad[0], bad[2], bad[3] or "no step", bad[0], bad[1], bad[2], bad[4]),
                    "a conversion across two format boundaries applies only part of the structural changes: the file claims the target version but carries (or lacks) the other boundary's chunks and flags")
        elif never:
            ctx.bad(R, "convert_wdt|dead-step|%s" % never[0], f.where, "step %s runs for no pair of versions" % never[0], "its boundary is never converted")
        else:
            for nm in sorted(conds):
                ctx.ok(R, {"step": nm, "runs_for_pairs": sum(1 for a in names for b in names if a != b and nm in run_set(a, b))})
            ctx.ok(R, {"triples": n_tr})
    except _NoEval as e:
        ctx.bad(R, "convert_wdt|not-evaluable", f.where, "a step's guard is not evaluable over the versions: %s" % e, "shape changed")



def _conversion_keeps_tile_table_rule(ctx, wdt):
    """"converting a map file between game versions preserves all tile data": the tile table (MAIN: presence flags and area ids
    per tile) is the one part of a WDT every version shares, so no conversion step has any business writing it.  Every function
    of conversion.rs is inspected for a write rooted at `<file>.main` (assignment, `&mut` borrow, a mutating method — iter_mut /
    get_mut / set_* / push / clear / retain ..., or a crate-local method taking `&mut self`)."""
    R = ctx.rule("C18.conversion-leaves-the-tile-table-alone", "no function of wow-wdt's conversion.rs writes through `<file>.main` (assignment, &mut borrow, mutating method)", floor=5)
    MUT = re.compile(r"_mut$|^(set_\w+|push|insert|clear|retain|truncate|swap|sort\w*|fill|remove|extend|resize|drain|pop|take|replace|append|dedup\w*|reverse)$")
    local = {norm(f.path): f for f in wdt.fn_list}
    for f in wdt.fn_list:
        if not f.file.endswith("wow-wdt/src/conversion.rs") or f.kind == "Closure" or not f.hir or "::tests::" in f.path:
            continue
        ctx.saw_fn(f)
        body = f.hir["body"]

        def rooted_main(e):
            e = hirq.strip(e)
            while e.get("k") in ("field", "index", "mcall", "try", "un"):
                if e.get("k") == "field" and e["name"] == "main" and hirq.strip(e["e"]).get("k") == "path":
                    return True
                e = hirq.strip(e.get("e") or e.get("recv") or {})
            return False
        hit = None
        # values taken out of the table by a loop / closure pattern: `for row in wdt.main.entries.iter_mut()` binds row to table memory
        alias = set()
        for lp in hirq.find(body, "for"):
            if rooted_main(lp["iter"]) or any(x.get("k") == "path" and (x.get("res") or {}).get("local") in alias for x in hirq.walk(lp["iter"])):
                alias |= set(hirq.pat_binds(lp["pat"]))

        def touches(e):
            return rooted_main(e) or any(x.get("k") == "path" and (x.get("res") or {}).get("local") in alias for x in hirq.walk(hirq.strip(e)))
        for x in hirq.walk(body):
            k = x.get("k")
            if k in ("assign", "assignop") and touches(x["l"]):
                hit = hit or (x, "assignment to `%s`" % hirq.render(x["l"])[:50])
            elif k == "ref" and x.get("mut") and rooted_main(x["e"]):
                hit = hit or (x, "`&mut %s`" % hirq.render(x["e"])[:50])
            elif k == "mcall" and touches(x["recv"]):
                cal = local.get(norm(x.get("fn") or ""))
                takes_mut = False
                if cal is not None:
                    ins = cal.d.get("inputs") or []
                    takes_mut = bool(ins) and (wdt.ty(ins[0]) or "").startswith("&mut")
                if takes_mut or (cal is None and MUT.search(x["m"])):
                    hit = hit or (x, "`%s`" % hirq.render(x)[:60])
        name = norm(f.path).split("::")[-1]
        if hit:
            ctx.bad(R, "%s|writes-main" % name, "%s:%d" % (f.file, hit[0].get("ln") or f.lo), "%s in %s" % (hit[1], name),
                    "tile presence / area ids are rewritten by a version conversion (from whatever the step consults instead — a placeholder table, a flag): tiles the source map had are gone after the conversion and stay gone after write -> parse")
        else:
            ctx.ok(R, {"fn": name})


def _wdl_capability_rule(ctx, wdl):
    """WdlVersion's capability tables, decided variant by variant: model names/placements live in the WMO chunk family
    (has_wmo_chunks) or in the ML chunk family that replaced it (has_ml_chunks).  From the first version that has either, every
    later version has exactly one of them — a version with neither writes files that silently drop the model tables — and each
    single table is one contiguous run of versions (a feature is added once and removed at most once)."""
    R = ctx.rule("C18.wdl-capability-tables-have-no-gap", "over all WdlVersion variants: has_wmo_chunks, has_ml_chunks and has_maho_chunk are each one contiguous run; from the first version with model tables on, exactly one of has_wmo_chunks / has_ml_chunks holds", floor=3)
    from .. import enumpred
    ver = next((a for a in wdl.items["adts"] if a["path"].endswith("::WdlVersion")), None)
    if ver is None:
        ctx.bad(R, "WdlVersion|missing", "-", "enum not found", "anchor gone")
        return
    names = [v["name"] for v in ver["variants"]]
    tabs = {}
    for fn in ("has_wmo_chunks", "has_ml_chunks", "has_maho_chunk"):
        f = next((x for x in wdl.fn_list if x.hir and norm(x.path).endswith("WdlVersion::" + fn)), None)
        if f is None:
            ctx.bad(R, "%s|missing" % fn, "-", "capability function not found", "anchor gone")
            return
        ctx.saw_fn(f)
        try:
            tabs[fn] = [bool(enumpred.holds(f.hir["body"], "self", names, v)) for v in names]
        except Exception as e:
            ctx.bad(R, "%s|not-evaluable" % fn, f.where, "not decidable over the variants: %s" % e, "shape changed")
            return
        runs = sum(1 for i, b in enumerate(tabs[fn]) if b and (i == 0 or not tabs[fn][i - 1]))
        if runs > 1:
            gap = next(names[i] for i in range(1, len(names) - 1) if not tabs[fn][i] and any(tabs[fn][:i]) and any(tabs[fn][i + 1:]))
            ctx.bad(R, "%s|gap|%s" % (fn, gap), f.where, "%s is false for %s but true for versions before and after it" % (fn, gap), "files of that version are written without chunks the neighbouring versions carry: the data does not survive write -> parse")
        else:
            ctx.ok(R, {"table": fn, "true_for": [n for n, b in zip(names, tabs[fn]) if b]})
    both = [(n, a, b) for n, a, b in zip(names, tabs["has_wmo_chunks"], tabs["has_ml_chunks"])]
    first = next((i for i, (_n, a, b) in enumerate(both) if a or b), None)
    if first is not None:
        wrong = [n for n, a, b in both[first:] if a == b]
        if wrong:
            ctx.bad(R, "model-tables|%s" % wrong[0], "-", "version %s has %s of the two model-table chunk families" % (wrong[0], "both" if tabs["has_wmo_chunks"][names.index(wrong[0])] else "neither"),
                    "model names and placements are dropped (or written twice) for that version: write -> parse loses them and conversions to that version copy nothing")
        else:
            ctx.ok(R, {"model_tables_from": names[first], "exactly_one_family_per_version": True})


def _wdt_optional_chunk_gate_rule(ctx, wdt):
    """WdtWriter::write emits an optional chunk whenever the value is present; the reader accepts it whenever the file has it.  The
    one extra gate — MWMO under `should_have_chunk("MWMO", wmo_only)` — is paired with the reader by C18.same-optional-chunk-rule.
    Any other condition between `if let Some(x) = wdt.<chunk>` and `x.write_chunk(..)` drops data that parses back as None."""
    R = ctx.rule("C18.wdt-optional-chunks-written-when-present", "in WdtWriter::write an optional chunk's write_chunk call is guarded by its `if let Some(..)` only (MWMO: additionally by the version rule the reader shares)", floor=2)
    from .c07 import enclosing_if_conditions
    f = next((x for x in wdt.fn_list if x.hir and x.kind != "Closure" and norm(x.path).endswith("WdtWriter::<W>::write") or x.hir and x.kind != "Closure" and re.search(r"WdtWriter(::<\w+>)?::write$", x.path)), None)
    if f is None:
        ctx.bad(R, "WdtWriter::write|missing", "-", "function not found", "anchor gone")
        return
    ctx.saw_fn(f)
    body = f.hir["body"]
    lets = {l["pat"]["name"]: l["init"] for l in hirq.find(body, "let") if l["pat"].get("k") == "bind" and l.get("init") is not None}
    PAIRED = {"MWMO"}          # reader and writer share the rule (C18.same-optional-chunk-rule)
    n = 0
    for c_ in [x for x in hirq.walk(body) if x.get("k") == "mcall" and x["m"] == "write_chunk"]:
        recv = hirq.render(c_["recv"])
        if recv.startswith("wdt."):
            continue            # required chunks
        n += 1
        conds = [(w, cd) for w, cd in enclosing_if_conditions(body, c_) if w in ("then", "else")]
        extra = []
        for w, cd in conds:
            r_ = hirq.render(cd)
            if re.match(r"\(?let Some\(", r_):
                continue
            # expand a local holding the gate
            cd2 = hirq.strip(cd)
            if cd2.get("k") == "path" and "local" in cd2["res"]:
                # the `let` of that name in the innermost `if` body that also contains this write (names repeat per chunk)
                scopes = [n_ for n_ in hirq.find(body, "if") if any(y is c_ for y in hirq.walk(n_["then"])) and any(l_["pat"].get("k") == "bind" and l_["pat"]["name"] == cd2["res"]["local"] for l_ in hirq.find(n_["then"], "let"))]
                if scopes:
                    inner = min(scopes, key=lambda n_: len(hirq.render(n_)))
                    l_ = next(l_ for l_ in hirq.find(inner["then"], "let") if l_["pat"].get("k") == "bind" and l_["pat"]["name"] == cd2["res"]["local"])
                    r_ = hirq.render(l_["init"])
                elif cd2["res"]["local"] in lets:
                    r_ = hirq.render(lets[cd2["res"]["local"]])
            extra.append(r_)
        gates = [re.search(r"should_have_chunk\('(\w+)'", e_) for e_ in extra]
        if not extra:
            ctx.ok(R, {"chunk_value": recv, "guard": "presence only"})
        elif all(g and g.group(1) in PAIRED for g in gates):
            ctx.ok(R, {"chunk_value": recv, "guard": "presence + version rule shared with the reader", "chunk": gates[0].group(1)})
        else:
            ctx.bad(R, "WdtWriter::write|%s|extra-gate" % recv, "%s:%d" % (f.file, c_.get("ln") or 0), "`%s.write_chunk` additionally requires `%s`" % (recv, "; ".join(extra)[:90]),
                    "a file whose model carries that chunk is written without it whenever the extra condition is false, although the reader accepts (and returns) the chunk for such files: the value is lost on write -> parse")
    if n == 0:
        ctx.bad(R, "WdtWriter::write|no-optional", f.where, "no optional chunk write recognised", "shape changed")


def _wdl_loss_guard_rule(ctx, wdl):
    """convert_wdl_file refuses a conversion that would drop data the target version has no chunk for.  What is dropped is the whole
    collection, so the refusal must fire whenever the collection is non-empty: its guard may look at the collection through
    is_empty() / len() only, never at the values of its elements (an entry whose masks happen to be all zero is data too)"""
    R = ctx.rule("C18.wdl-loss-guard-tests-presence-not-values", "every refusing (`return Err`) condition of convert_wdl_file reads the file's collections through is_empty()/len() only", floor=1)
    f = next((x for x in wdl.fn_list if x.hir and x.kind != "Closure" and norm(x.path).endswith("conversion::convert_wdl_file")), None)
    if f is None:
        ctx.bad(R, "convert_wdl_file|missing", "-", "function not found", "anchor gone")
        return
    ctx.saw_fn(f)
    n = 0
    for n_ in hirq.find(f.hir["body"], "if"):
        if not any(x.get("k") == "ret" and "Err" in hirq.render(x.get("e")) for x in hirq.walk(n_["then"])):
            continue
        coll = [x for x in hirq.walk(n_["c"]) if x.get("k") == "mcall" and re.search(r"_data$|_names$|_placements$|_offsets$|tiles$", hirq.render(x.get("recv")))]
        if not coll:
            continue
        n += 1
        deep = [x for x in coll if x["m"] not in ("is_empty", "len")]
        if deep:
            ctx.bad(R, "convert_wdl_file|value-dependent-refusal", "%s:%d" % (f.file, n_.get("ln") or 0), "the refusal looks into the elements: `%s`" % hirq.render(n_["c"])[:100],
                    "a source whose entries all have the values the predicate ignores is converted 'successfully' with that collection silently dropped")
        else:
            ctx.ok(R, {"guard": hirq.render(n_["c"])[:80]})
    if n == 0:
        ctx.bad(R, "convert_wdl_file|no-refusal", f.where, "no refusing condition over a collection found", "data the target cannot hold is dropped without an error, or the shape changed")


def run(ctx):
    prog = ctx.prog
    wdt = prog.crate("wow_wdt")
    wdl = prog.crate("wow_wdl")
    _conversion_steps_rule(ctx, wdt)
    _conversion_keeps_tile_table_rule(ctx, wdt)
    _wdt_optional_chunk_gate_rule(ctx, wdt)
    _wdl_loss_guard_rule(ctx, wdl)
    _wdl_capability_rule(ctx, wdl)
    R_const = ctx.rule("C18.every-record-field-is-serialised", "for every linear read/write pair of wow-wdt / wow-wdl: each field of the record struct is read by its `write`", floor=30)
    R_pair = ctx.rule("C18.read-write-wire-agreement", "each WDT chunk / WDL record is written with the widths, order and named fields it is read with", floor=10)
    R_size = ctx.rule("C18.size-equals-bytes-written", "for fixed-size chunks size() equals the number of bytes write() emits", floor=2)
    R_ver = ctx.rule("C18.same-optional-chunk-rule", "reader and writer decide the optional MWMO chunk through the same version rule", floor=2)
    R_coord = ctx.rule("C18.coordinate-axes-pair", "tile_to_world and world_to_tile use the same constants and the round trip maps input axis i to output axis i", floor=2)

    # MPHD file-id slots: the reader's slot -> field map equals the writer's field order
    R_slot = ctx.rule("C18.mphd-file-id-slots-agree", "MphdChunk::read takes each *_file_data_id from the 32-bit slot in which MphdChunk::write puts it", floor=7)
    rd = next((f for f in wdt.fn_list if f.hir and f.kind != "Closure" and re.search(r"MphdChunk.*::read$", norm(f.path))), None)
    wr = next((f for f in wdt.fn_list if f.hir and f.kind != "Closure" and re.search(r"MphdChunk.*::write$", norm(f.path))), None)
    if rd is None or wr is None:
        ctx.bad(R_slot, "mphd|missing", "-", "MphdChunk::read / write not found", "anchor gone")
    else:
        ctx.saw_fn(rd)
        ctx.saw_fn(wr)
        rslot = {}
        for a in hirq.find(rd.hir["body"], "assign"):
            l = hirq.strip(a["l"])
            if l.get("k") == "field" and l["name"].endswith("_file_data_id"):
                src = None
                for x in hirq.walk(a["r"]):
                    if x.get("k") == "index" and hirq.lit_int(x["i"]) is not None and re.search(r"(^|\.)unused$", hirq.render(x["e"])):
                        src = 1 + hirq.lit_int(x["i"])
                    elif (x.get("k") == "field" and x["name"] == "something") or (x.get("k") == "path" and x["res"].get("local") == "something"):
                        src = 0
                rslot[l["name"]] = src
        worder = []
        for n in hirq.find(wr.hir["body"], "if"):
            seq = []
            for c in hirq.walk(n["then"]):
                if c.get("k") == "mcall" and c["m"] == "write_all":
                    fl = [x["name"] for x in hirq.walk(c["args"][0]) if x.get("k") == "field" and x["name"].endswith("_file_data_id")]
                    if fl:
                        seq.append(fl[0])
            if len(seq) > len(worder):
                worder = seq
        if not rslot or not worder:
            ctx.bad(R_slot, "mphd|shape", rd.where, "slot assignments (%d) or ordered id writes (%d) not recognised" % (len(rslot), len(worder)), "anchor shape changed")
        else:
            for i, name in enumerate(worder):
                if rslot.get(name) == i:
                    ctx.ok(R_slot, {"field": name, "slot": i})
                else:
                    ctx.bad(R_slot, "mphd|slot|%s" % name, rd.where, "write() puts %s in slot %d, read() takes it from slot %s" % (name, i, rslot.get(name)),
                            "two adjacent 32-bit ids are exchanged on every write→parse of a BfA+ header, and the second write is not byte-identical")

    # WDL tile offsets: the pre-computed offset advances exactly when a chunk is registered for emission
    R_adv = ctx.rule("C18.wdl-offset-advance-paired-with-chunk", "in WdlParser::write every `current_offset += size` of the per-tile pass sits under the same conditions as the insertion of the chunk it accounts for", floor=2)
    ww = next((f for f in wdl.fn_list if f.hir and f.kind != "Closure" and norm(f.path) == "wow_wdl::parser::WdlParser::write"), None)
    if ww is None:
        ctx.bad(R_adv, "wdl-write|missing", "-", "WdlParser::write not found", "anchor gone")
    else:
        ctx.saw_fn(ww)
        from .c07 import enclosing_if_conditions
        for lp in hirq.find(ww.hir["body"], "for"):
            if any(l2 is not lp and any(x is l2 for x in hirq.walk(lp["body"])) for l2 in hirq.find(lp["body"], "for")):
                continue       # outer loop of a nest: the inner one is visited on its own
            advs = [x for x in hirq.walk(lp["body"]) if x.get("k") == "assignop" and hirq.render(hirq.strip(x["l"])).endswith("offset")]
            ins = [x for x in hirq.walk(lp["body"]) if x.get("k") == "mcall" and x["m"] == "insert" and re.search(r"_chunks$", hirq.render(hirq.strip(x["recv"])))]
            if not advs or not ins:
                continue

            def sig(n):
                return tuple((sd, hirq.render(cd)) for sd, cd in enclosing_if_conditions(lp["body"], n))
            isigs = [sig(x) for x in ins]
            asigs = [sig(x) for x in advs]
            for a_, sg in zip(advs, asigs):
                if sg in isigs:
                    ctx.ok(R_adv, {"advance": hirq.render(a_)[:70], "line": a_["ln"], "conditions": [c_ for _, c_ in sg]})
                else:
                    ctx.bad(R_adv, "wdl-write|advance|%s" % re.sub(r"\W+", "_", hirq.render(a_["r"]))[:40], "%s:%d" % (ww.file, a_["ln"]),
                            "`%s` runs under %s, but chunks are registered under %s" % (hirq.render(a_)[:60], [c_[:50] for _, c_ in sg] or "no condition", [[c_[:50] for _, c_ in s_] for s_ in isigs]),
                            "the offset table counts a chunk that is not written (or misses one that is): every later tile offset points into the wrong place and the written file does not parse back")
            for i_, sg in zip(ins, isigs):
                if sg not in asigs:
                    ctx.bad(R_adv, "wdl-write|insert|%s" % hirq.render(hirq.strip(i_["recv"])), "%s:%d" % (ww.file, i_["ln"]), "chunk registered under %s with no offset advance under the same conditions" % [c_[:50] for _, c_ in sg],
                            "later tile offsets are short by this chunk's size")

    # a parser does not consult a collection of the object under construction before the step that fills it
    R_pop = ctx.rule("C18.no-read-before-populated", "in WdlParser::parse / WdtReader::read no collection field of the file object is queried (is_empty/len/get/iter…) before the first statement or helper that fills it", floor=2)
    MUTM = ("insert", "push", "extend", "append", "push_back", "entry", "resize", "clear", "remove", "retain")
    READM = ("is_empty", "len", "get", "iter", "contains_key", "contains", "keys", "values", "first", "last", "any")
    for crate_, fname in ((wdl, "wow_wdl::parser::WdlParser::parse"), (wdt, "wow_wdt::WdtReader::read")):
        f = next((g for g in crate_.fn_list if g.hir and g.kind != "Closure" and re.sub(r"::<[^>]*>", "", norm(g.path)) == fname), None)
        if f is None:
            ctx.bad(R_pop, "%s|missing" % fname, "-", "function not found", "anchor gone")
            continue
        ctx.saw_fn(f)
        local_fns = {g.path: g for g in crate_.fn_list if g.hir and g.kind != "Closure"}
        body = f.hir["body"]
        order = {id(n): i for i, n in enumerate(hirq.walk(body))}

        def helper_mutated(g, pname):
            out = set()
            for x in hirq.walk(g.hir["body"]):
                if x.get("k") == "mcall" and x["m"] in MUTM:
                    r_ = hirq.strip(x["recv"])
                    if r_.get("k") == "field" and hirq.render(hirq.strip(r_["e"])) == pname:
                        out.add(r_["name"])
                if x.get("k") == "assign":
                    l_ = hirq.strip(x["l"])
                    if l_.get("k") == "field" and hirq.render(hirq.strip(l_["e"])) == pname:
                        out.add(l_["name"])
            return out
        # the object under construction: a local whose fields are mutated here or handed as &mut to helpers
        writes = {}     # (obj, field) -> first order
        reads = []      # (order, obj, field, node)
        for x in hirq.walk(body):
            if x.get("k") == "mcall":
                r_ = hirq.strip(x["recv"])
                if r_.get("k") == "field" and hirq.strip(r_["e"]).get("k") == "path" and "local" in hirq.strip(r_["e"])["res"]:
                    key = (hirq.strip(r_["e"])["res"]["local"], r_["name"])
                    if x["m"] in MUTM:
                        writes.setdefault(key, order[id(x)])
                    elif x["m"] in READM:
                        reads.append((order[id(x)], key, x))
            if x.get("k") == "assign":
                l_ = hirq.strip(x["l"])
                if l_.get("k") == "field" and hirq.strip(l_["e"]).get("k") == "path" and "local" in hirq.strip(l_["e"])["res"]:
                    writes.setdefault((hirq.strip(l_["e"])["res"]["local"], l_["name"]), order[id(x)])
            if x.get("k") in ("call", "mcall") and x.get("fn") in local_fns:
                g = local_fns[x["fn"]]
                pn = [b for p_ in g.hir["params"] for b in hirq.pat_binds(p_)]
                args = ([x["recv"]] if x.get("k") == "mcall" else []) + list(x.get("args") or [])
                for nm_, a_ in zip(pn, args):
                    if a_.get("k") == "ref" and a_.get("mut") and hirq.strip(a_["e"]).get("k") == "path" and "local" in hirq.strip(a_["e"])["res"]:
                        for fld in helper_mutated(g, nm_):
                            writes.setdefault((hirq.strip(a_["e"])["res"]["local"], fld), order[id(x)])
        n_r = 0
        for o_, key, node in reads:
            if key not in writes:
                continue
            n_r += 1
            if o_ < writes[key]:
                ctx.bad(R_pop, "%s|%s.%s|read-before-fill" % (fname.split("::")[-1], key[0], key[1]), "%s:%d" % (f.file, node["ln"]), "`%s` is consulted at line %d, before anything has put data into %s.%s" % (hirq.render(node)[:50], node["ln"], key[0], key[1]),
                        "the collection is always empty at that point: the decision taken on it (e.g. the detected format version) is the same for every input, and everything derived from it — what a second write emits, what a conversion keeps — is wrong")
            else:
                ctx.ok(R_pop, {"fn": fname, "field": "%s.%s" % key, "read_line": node["ln"]})
        if n_r == 0:
            ctx.ok(R_pop, {"fn": fname, "reads_of_filled_collections": 0, "filled_fields": sorted("%s.%s" % k_ for k_ in writes)[:8]})

    # the version a parsed file is given decides which chunks the next write emits (MWMO on terrain maps only before Cataclysm), so it
    # must be derived from the chunks that are there before anything else: in detect_version no header-flag test comes ahead of the
    # chunk-presence tests (MAID, MWMO) — a flag heuristic placed first can name a version whose writer drops a chunk the file has
    R_det = ctx.rule("C18.version-detection-consults-chunk-presence-before-flags", "in WdtReader::detect_version every read of the MPHD flags comes, in evaluation order, after the reads of `maid` and `mwmo` presence", floor=1)
    dv = next((f for f in wdt.fn_list if f.hir and f.kind != "Closure" and f.path.endswith("::detect_version")), None)
    if dv is None:
        ctx.bad(R_det, "detect_version|missing", "-", "function not found", "anchor gone")
    else:
        ctx.saw_fn(dv)
        first = {}
        for i_, n_ in enumerate(hirq.walk(dv.hir["body"])):
            if n_.get("k") == "field" and n_["name"] in ("flags", "mwmo", "maid"):
                first.setdefault(n_["name"], (i_, n_.get("ln")))
        if not all(k_ in first for k_ in ("flags", "mwmo", "maid")):
            ctx.bad(R_det, "detect_version|shape", dv.where, "reads of flags / mwmo / maid not all found (%s)" % sorted(first), "shape changed")
        elif first["flags"][0] > first["mwmo"][0] and first["flags"][0] > first["maid"][0]:
            ctx.ok(R_det, {"fn": "detect_version", "first_flag_read_line": first["flags"][1], "mwmo_read_line": first["mwmo"][1], "maid_read_line": first["maid"][1]})
        else:
            ctx.bad(R_det, "detect_version|flags-before-chunks", "%s:%d" % (dv.file, first["flags"][1] or 0), "the MPHD flags are consulted (line %s) before the presence of MWMO (line %s) has been looked at" % (first["flags"][1], first["mwmo"][1]),
                    "a file whose flags match the heuristic is given a version for which the writer omits a chunk the file carries: a pre-Cataclysm terrain map with MWMO loses it on the second write")

    for crate in (wdt, wdl):
        by_owner = owners(crate)
        for owner, fs in sorted(by_owner.items()):
            r = fs.get("read") or fs.get("parse")
            w = fs.get("write")
            if not r or not w or not r.hir or not w.hir:
                continue
            if owner.endswith("WdlParser") or owner.endswith("WdtReader") or owner.endswith("WdtWriter"):
                continue
            armed = wire.check_pair(ctx, R_pair, crate, r, w, owner, fields=struct_fields(crate, owner), allow_seek=False)
            if armed:
                # every field of the record takes part in its own serialisation: a slot filled with a constant instead of the field
                # (`write_all(&[0u8; 2])` for `self.padding`) loses whatever the reader decoded into it
                adt_ = next((a_ for a_ in crate.items["adts"] if a_["path"] == owner), None)
                pn_ = [b_ for p_ in w.hir["params"] for b_ in hirq.pat_binds(p_)]
                if adt_ is not None and pn_ and pn_[0] == "self" and adt_.get("fields"):
                    used_ = {x_["name"] for x_ in hirq.walk(w.hir["body"]) if x_.get("k") == "field" and hirq.render(x_["e"]) in ("self", "(*self)", "*self")}
                    whole_ = any(x_.get("k") == "path" and (x_.get("res") or {}).get("local") == "self" for x_ in hirq.walk(w.hir["body"]) if True) and not used_
                    for fl_ in adt_["fields"]:
                        nm_ = fl_["name"]
                        if nm_ in used_ or whole_:
                            ctx.ok(R_const, {"type": owner.split("::")[-1], "field": nm_}) if len(ctx.samples) < 380 else (ctx.rules[R_const].__setitem__("obligations", ctx.rules[R_const]["obligations"] + 1), ctx.rules[R_const].__setitem__("discharged", ctx.rules[R_const]["discharged"] + 1))
                        else:
                            ctx.bad(R_const, "%s|%s|not-written" % (owner.split("::")[-1], nm_), "%s:%d" % (w.file, w.lo), "`%s::write` never reads `self.%s` (the reader decodes that field; the bytes in its place are a constant)" % (owner.split("::")[-1], nm_),
                                    "whatever the field held is replaced by the constant on every write: the record does not survive write -> parse (only a content comparison shows it — the second write is byte-identical)")
            sz = fs.get("size")
            if armed and sz is not None and sz.hir:
                wt = wire.specialise(wire.extract(crate, w, "w")[0], {})
                wd = width_of(wt)
                body = hirq.strip(sz.hir["body"])
                while body.get("k") == "block" and not body.get("stmts") and body.get("e"):
                    body = hirq.strip(body["e"])
                declared = hirq.lit_int(body)
                if declared is None:
                    # products of literals: 64 * 64 * 8
                    try:
                        s_ = symx.Sym({})
                        e = s_.ev(body)
                        if not depends(e):
                            declared = eval(symx.render(e).replace("mul(", "__import__('math').prod((").replace(")", "))").replace("0x", "0x")) if False else None
                    except Exception:
                        declared = None
                    r_ = hirq.render(body)
                    if re.fullmatch(r"[\d\s\*\(\)\+]+", r_.replace("as _", "")):
                        declared = eval(r_)
                if wd is not None and declared is not None:
                    if wd == declared:
                        ctx.ok(R_size, {"chunk": owner.split("::")[-1], "size": declared})
                    else:
                        ctx.bad(R_size, "%s|size" % owner.split("::")[-1], sz.where, "size() returns %d but write() emits %d bytes" % (declared, wd),
                                "the chunk header announces a length different from its payload: the next chunk is mis-framed")
                else:
                    # variable-size chunk: the announced size must at least scale with every collection of `self` the writer walks
                    # (a size computed from a constant count while write() emits what the value holds mis-frames every other table)
                    def self_fields(n_):
                        return {x_["name"] for x_ in hirq.walk(n_) if x_.get("k") == "field" and hirq.render(x_["e"]) in ("self", "(*self)", "*self")}
                    walked = set()
                    for lp_ in hirq.find(w.hir["body"], "for"):
                        walked |= self_fields(lp_["iter"])
                    for c_ in hirq.walk(w.hir["body"]):
                        if c_.get("k") == "mcall" and c_["m"] in ("iter", "into_iter"):
                            walked |= self_fields(c_["recv"])
                    sized = self_fields(sz.hir["body"])
                    # fields reached through a helper method of self (e.g. self.payload_len()) count as mentioned
                    for c_ in hirq.walk(sz.hir["body"]):
                        if c_.get("k") == "mcall" and hirq.render(c_["recv"]) in ("self", "(*self)") :
                            hf = next((x_ for x_ in crate.fn_list if x_.hir and norm(x_.path) == norm(c_.get("fn") or "")), None)
                            if hf is not None:
                                sized |= self_fields(hf.hir["body"])
                    missing = sorted(walked - sized)
                    # a table the format fixes in size: the reader refuses any other length (expected_size() announces the same
                    # expression), so a constant size() is the right one for every value the reader can produce
                    es_ = fs.get("expected_size")
                    fixed_by_reader = False
                    if missing and es_ is not None and es_.hir:
                        eb_ = hirq.strip(es_.hir["body"])
                        while eb_.get("k") == "block" and not eb_.get("stmts") and eb_.get("e"):
                            eb_ = hirq.strip(eb_["e"])
                        if eb_.get("k") == "call" and (eb_.get("fn") or "").endswith("Option::Some") and hirq.render(eb_["args"][0]) == hirq.render(body):
                            fixed_by_reader = True
                    if missing and fixed_by_reader:
                        ctx.ok(R_size, {"chunk": owner.split("::")[-1], "size": hirq.render(body)[:60], "fixed_by_reader": "expected_size() announces the same constant"})
                        missing = []
                        walked = set()
                        continue_ = True
                    else:
                        continue_ = False
                    if continue_:
                        pass
                    elif not walked:
                        ctx.note_unarmed(R_size, owner.split("::")[-1], "variable-size chunk whose writer walks no collection of self")
                    elif missing:
                        ctx.bad(R_size, "%s|size-ignores|%s" % (owner.split("::")[-1], ",".join(missing)), sz.where, "write() emits one run of bytes per element of self.%s, size() never reads it (it returns `%s`)" % (", self.".join(missing), hirq.render(body)[:70]),
                                "for a value holding another number of elements than size() assumes, the chunk header announces a length different from the payload: the reader rejects the writer's output or silently cuts the table")
                    else:
                        ctx.ok(R_size, {"chunk": owner.split("::")[-1], "size": hirq.render(body)[:60], "scales_with": sorted(walked)})

    # optional chunk rule
    for path in ("wow_wdt::WdtFile::validate", "wow_wdt::WdtWriter::write"):
        f = next((x for x in wdt.fn_list if norm(x.path) == path and x.hir), None)
        if f is None:
            ctx.bad(R_ver, "%s|missing" % path, "-", "function not found", "anchor gone")
            continue
        ctx.saw_fn(f)
        calls = [c for c in hirq.calls(f.hir["body"]) if (c.get("fn") or "").endswith("should_have_chunk")]
        args = [hirq.lit_str(hirq.strip(c["args"][0])) for c in calls if c["args"]]
        if "MWMO" in args:
            ctx.ok(R_ver, {"side": path.split("::")[-1], "rule": "version_config.should_have_chunk(\"MWMO\", ..)"})
        else:
            ctx.bad(R_ver, "%s|MWMO-rule" % path.split("::")[-2], f.where, "does not consult should_have_chunk(\"MWMO\", ..) (calls: %s)" % args,
                    "reader and writer would disagree on whether the global-WMO name chunk is present for some version")

    # coordinates
    t2w = wdt.fns.get("wow_wdt::tile_to_world")
    w2t = wdt.fns.get("wow_wdt::world_to_tile")
    if t2w is None or w2t is None or not t2w.hir or not w2t.hir:
        ctx.bad(R_coord, "coords|missing", "-", "coordinate functions not found", "anchor gone")
        return
    consts = {}
    for crate_consts in (wdt.consts(),):
        for k, v in crate_consts.items():
            consts[k] = v.get("v")
    local_fns = {f.path: f for f in wdt.fn_list if f.hir and f.kind != "Closure"}
    a = symx.eval_fn(t2w, consts, inline=local_fns)
    b = symx.eval_fn(w2t, consts, inline=local_fns)
    ra, rb = a.ret, b.ret
    okshape = ra is not None and rb is not None and ra[0] == "op" and ra[1] == "tup" and rb[0] == "op" and rb[1] == "tup" and len(ra) == 4 and len(rb) == 4
    if not okshape:
        ctx.bad(R_coord, "coords|shape", t2w.where, "functions do not return 2-tuples of expressions", "shape changed")
        return
    pa = [x for p in t2w.hir["params"] for x in hirq.pat_binds(p)]
    pb = [x for p in w2t.hir["params"] for x in hirq.pat_binds(p)]
    # tile_to_world: out_j depends on exactly one input; world_to_tile likewise; composition must be the identity permutation
    dep_a = [depends(ra[2]) & set(pa), depends(ra[3]) & set(pa)]
    dep_b = [depends(rb[2]) & set(pb), depends(rb[3]) & set(pb)]
    if not all(len(d) == 1 for d in dep_a + dep_b):
        ctx.bad(R_coord, "coords|dependence", t2w.where, "an output depends on %s inputs" % [sorted(d) for d in dep_a + dep_b], "axes are mixed")
        return
    # world_j = f(tile_{sa[j]});  tile_i = g(world_{sb[i]})  =>  tile_i round-trips from tile_{sa[sb[i]]}
    sa = [pa.index(next(iter(d))) for d in dep_a]
    sb = [pb.index(next(iter(d))) for d in dep_b]
    comp = [sa[sb[i]] for i in range(2)]
    if comp == [0, 1]:
        ctx.ok(R_coord, {"tile_to_world": sa, "world_to_tile": sb, "composition": comp})
    else:
        ctx.bad(R_coord, "coords|axis-pairing", w2t.where, "round trip maps tile axis %s to %s" % ([0, 1], comp), "world_to_tile(tile_to_world(x, y)) returns (y, x): x and y are swapped")
    # constants: same multiset of named constants / literals on both sides
    ca = sorted(set(str(c) for c in consts_in(ra[2]) + consts_in(ra[3])))
    cb = sorted(set(str(c) for c in consts_in(rb[2]) + consts_in(rb[3])) - {"63", "0x3F"})
    allc = wdt.consts()

    def named_consts(fn, depth=0):
        out = {}
        for c_ in hirq.calls(fn.hir["body"]):
            if c_.get("fn") in local_fns and local_fns[c_["fn"]] is not fn and depth < 3:
                out.update(named_consts(local_fns[c_["fn"]], depth + 1))
        for x in hirq.walk(fn.hir["body"]):
            if x.get("k") == "path" and x["res"].get("dk", "").startswith("Const"):
                d = x["res"]["def"]
                v = allc.get(d, {}).get("v")
                out[d.split("::")[-1]] = (v.get("repr") if isinstance(v, dict) else v)
        for x in hirq.find(fn.hir["body"], "lit"):
            if "float" in x["v"]:
                out["lit:" + x["v"]["float"]] = x["v"]["float"]
        return out
    la = sorted(named_consts(t2w).items())
    lb = sorted(named_consts(w2t).items())
    if set(la) <= set(lb) and len(la) >= 2:
        # (the inverse may carry extra constants of its own: the index clamp, a snapping tolerance)
        ctx.ok(R_coord, {"float_constants": la, "inverse_only": sorted(set(lb) - set(la))})
    else:
        ctx.bad(R_coord, "coords|constants", w2t.where, "tile_to_world uses %s, world_to_tile uses %s" % (la, lb), "scale/offset differ between the two directions: the maps are not inverse")
    # exact grid lines: tile_to_world returns OFFSET - t*SIZE (a point exactly on a tile boundary), so its inverse must not
    # truncate the raw f32 quotient — it has to snap/round near-integers (or the forward map must return an interior point)
    R_snap = ctx.rule("C18.inverse-snaps-grid-lines", "world_to_tile rounds quotients that are within tolerance of an integer (or tile_to_world returns an interior point) before converting to an index", floor=2)
    for i_, (xa, xb) in enumerate(((ra[2], rb[2]), (ra[3], rb[3]))):
        fa, fb = symx.render(xa), symx.render(xb)
        interior = bool(re.search(r"0\.5|div\(MAP_SIZE, (0x2|2)", fa))
        snaps = "call:round(" in fb
        if interior or snaps:
            ctx.ok(R_snap, {"axis": i_, "snaps": snaps, "forward_returns_interior_point": interior})
        else:
            ctx.bad(R_snap, "coords|truncates-grid-line|axis%d" % i_, w2t.where, "tile index = trunc(%s) while tile_to_world returns the boundary point %s" % (fb[:90], fa[:60]),
                    "for a boundary point the f32 quotient can come out just below the integer (3.9999998 for tile 4): tile -> world -> tile returns the previous tile (960 of the 4096 tiles on the pinned tree)")
    # the snapping tolerance dominates the accumulated f32 rounding error of the two formulas over the index range, and stays
    # far below half a tile.  Error bound (standard model, unit round-off u = 2^-24): q = (O - fl(O - fl(t·S)))/S, O = 32·S
    #   |q - t| <= (|t·S|·u + |O - t·S|·u + |t·S|·u)/S + |t|·u <= (3t + 32)·u ,  t <= 63  =>  221·2^-24 ≈ 1.32e-5
    R_tol = ctx.rule("C18.snap-tolerance-covers-rounding-error", "the tolerance used to snap grid-line quotients is >= (3·63+32)·2^-24 (the worst-case f32 error of the inverse at the highest tile index) and < 0.25", floor=1)
    tol = None
    for x in hirq.walk(w2t.hir["body"]):
        pass
    tol_consts = []
    for fn_ in [w2t] + [local_fns[c_["fn"]] for c_ in hirq.calls(w2t.hir["body"]) if c_.get("fn") in local_fns]:
        flets = {l["pat"]["name"]: hirq.render(l["init"]) for l in hirq.find(fn_.hir["body"], "let") if l["pat"].get("k") == "bind" and l.get("init") is not None}
        for n_ in hirq.find(fn_.hir["body"], "bin"):
            deep = hirq.render(n_) + " " + " ".join(flets.get(x["res"]["local"], "") for x in hirq.walk(n_) if x.get("k") == "path" and "local" in x["res"])
            if n_["op"] in ("<", "<=", ">", ">=") and "abs" in deep:
                for side in (n_["l"], n_["r"]):
                    sd = hirq.strip(side)
                    val = None
                    if sd.get("k") == "path" and "def" in sd["res"]:
                        cv = allc.get(sd["res"]["def"], {}).get("v")
                        rep = cv.get("repr") if isinstance(cv, dict) else None
                        if rep:
                            try:
                                val = float(re.sub(r"f(32|64)$", "", rep))
                            except ValueError:
                                val = None
                    elif sd.get("k") == "lit" and "float" in sd["v"]:
                        try:
                            val = float(re.sub(r"_?f(32|64)$", "", sd["v"]["float"]))
                        except ValueError:
                            val = None
                    if val is not None:
                        tol_consts.append((val, hirq.render(n_)[:70], n_["ln"], fn_))
    need = (3 * 63 + 32) * 2.0 ** -24
    if not tol_consts:
        if any("call:round(" in symx.render(x_) for x_ in (rb[2], rb[3])):
            ctx.note_unarmed(R_tol, "world_to_tile", "a snap is present but its tolerance is not a compile-time constant")
        else:
            ctx.ok(R_tol, {"snap": "none (covered by C18.inverse-snaps-grid-lines)"})
    for val, txt, ln, fn_ in tol_consts:
        if need <= val < 0.25:
            ctx.ok(R_tol, {"tolerance": val, "required_min": need, "comparison": txt})
        else:
            ctx.bad(R_tol, "coords|snap-tolerance", "%s:%d" % (fn_.file, ln), "tolerance %.3g in `%s`; the inverse's worst-case rounding error at tile 63 is %.3g" % (val, txt, need),
                    "the absolute error of (OFFSET − w)/SIZE grows with the tile index: with a tolerance below it the high tiles (31, 62…) are not snapped and tile → world → tile returns the previous tile" if val < need else "a tolerance this wide moves interior points into the neighbouring tile")
    # the shape: world = OFFSET - tile*SIZE ; tile = (OFFSET - world)/SIZE
    sh_a = all(re.match(r"^sub\(", symx.render(x)) and "mul(" in symx.render(x) for x in (ra[2], ra[3]))
    sh_b = all("div(sub(" in symx.render(x) for x in (rb[2], rb[3]))
    if not (sh_a and sh_b):
        ctx.bad(R_coord, "coords|formula-shape", w2t.where, "expected world = OFFSET − tile·SIZE and tile = (OFFSET − world)/SIZE; found %s / %s" % (symx.render(ra[2]), symx.render(rb[2])),
                "the two formulas are no longer algebraic inverses")
