"""C04 — hashing and encryption equal the MPQ algorithms and are mutually inverse.

Decides: (1) the 1280-entry crypt table and both 256-byte fold tables equal an independently
generated reference, entry by entry (compiler-evaluated constants); (2) `hash_string`'s per-byte
update equals the reference expression (so it is the MPQ hash for all four hash types, and
case/slash invariance follows from the fold table and slash map feeding the only use of the byte);
(3) encrypt/decrypt/decrypt_dword kernels equal the reference cipher round and both feed the
plaintext word into the seed update (the algebraic reason they are inverse for every key/buffer);
(4) byte-level wrappers agree on the split point and tail key; (5) the Jenkins kernels equal
one-at-a-time and lookup3 (mix, final, init constant) and fold names through the repo tables.
"""
import os
import re
import sys

from .. import facts, hirq, symx
from ..symx import op, var, const, render
from ..rules import norm

sys.path.insert(0, os.path.join(facts.VERIF, "reference"))
import kernels as ref  # noqa: E402

META = {
    "level": "other",
    "technique": "compiler-evaluated constant tables compared entry-by-entry with an independent generator + symbolic kernel extraction from typed HIR with AC-normalised syntactic comparison against reference expressions",
    "claim": "Fully decides the table sentence of the property (all 1280 + 512 entries). Decides that the hash step, cipher round (encrypt, decrypt, single dword) and Jenkins kernels are syntactically the published algorithms after AC normalisation, and that encrypt/decrypt differ only in which word feeds the seed — which implies mutual inversion for every key and buffer. Does not evaluate hashes on sample strings. Also: every arm of lookup3's remainder switch places byte i in word i/4 at shift 8·(i mod 4); the byte wrappers' early-return guards agree for all (length, key) classes; name hashes consume bytes. Wave 6: the HET hash pair is (masked hash with top bit set, its top byte) for every table width, evaluated on the post-processing expression; hash loops have no early exit. Wave 8: the tail key of every byte wrapper evaluates to key + len/4 (lengths 1..=23); the name hashes consume the whole name (no length-limiting operation on it).",
    "note": "Trusted: rustc's constant evaluator for the tables; the symbolic evaluator treats integer casts as transparent (all casts in these kernels are widenings of a byte or of a masked value) and wrapping_add/+ as the same operator. Reference written from the published MPQ format / lookup3.c, kept in reference/kernels.py.",
    "assumptions": ["u32 wrapping arithmetic (the kernels use wrapping_* or run on values that cannot overflow usize indices)"],
    "explanation": "ENCRYPTION_TABLE, ASCII_TO_UPPER, ASCII_TO_LOWER; hash_string, encrypt_block, decrypt_block, decrypt_dword; encrypt_data / decrypt_file_data / decrypt_table_data; jenkins_one_at_a_time, hashlittle2, jenkins_hashlittle2.",
}

P = "wow_mpq::crypto::"


def const_array(c, path):
    v = c.consts().get(path)
    if v is None or not isinstance(v.get("v"), dict):
        return None
    return v["v"]["fields"]


def substitute(e, mapping):
    if e in mapping:
        return mapping[e]
    if e[0] == "op":
        return op(e[1], *[substitute(a, mapping) for a in e[2:]])
    return e


def name_hash_iterates_bytes(ctx, mpq, pid):
    """the name hashes consume the *bytes* of the name (a code point >= 0x80 is several bytes in every other implementation)"""
    R = ctx.rule("%s.name-hashes-consume-bytes" % pid, "hash_string and the Jenkins name hashes iterate over the name's bytes (as_bytes / bytes / a byte slice), never over chars", floor=2)
    for f in mpq.fn_list:
        if f.kind == "Closure" or not f.hir or "::tests::" in f.path:
            continue
        p_ = norm(f.path)
        if not re.search(r"crypto::hash::hash_string$|crypto::(jenkins|hash)::\w*(jenkins|hashlittle)\w*$|crypto::jenkins::\w+$", p_):
            continue
        pnames = [b for p__ in f.hir["params"] for b in hirq.pat_binds(p__)]
        for lp in hirq.find(f.hir["body"], "for"):
            it = hirq.render(lp["iter"])
            if not any(nm in it for nm in pnames):
                # a loop over something derived earlier from the parameter (e.g. a normalised copy)
                lets = {l["pat"]["name"]: hirq.render(l["init"]) for l in hirq.find(f.hir["body"], "let") if l["pat"].get("k") == "bind" and l.get("init") is not None}
                it = " ".join([it] + [v for k, v in lets.items() if k in it])
            if not re.search(r"as_bytes\(\)|\.bytes\(\)|chars\(\)|char_indices\(\)|encode_utf16|\.iter\(\)|chunks", it) and not any(nm in it for nm in pnames):
                continue
            ctx.saw_fn(f)
            if re.search(r"chars\(\)|char_indices\(\)|encode_utf16", it):
                ctx.bad(R, "%s|iterates-chars" % p_.split("::")[-1], "%s:%d" % (f.file, lp["ln"]), "`for .. in %s` walks Unicode scalar values" % it[:60],
                        "a name containing a byte >= 0x80 (UTF-8 or a legacy code page) is hashed from one truncated code point per character instead of from its bytes: slot, verification hashes and file key differ from every other implementation's")
            elif re.search(r"as_bytes\(\)|\.bytes\(\)|chunks|\.iter\(\)", it) or any(nm in it for nm in pnames):
                # ... and over *all* of them: nothing in the loop ends it early or skips a byte's contribution (a NUL is a byte like
                # any other — the reference hash is defined on every string)
                esc = [x for x in hirq.walk(lp["body"]) if x.get("k") in ("break", "continue", "ret") and not x.get("x")]
                if esc:
                    ctx.bad(R, "%s|loop-leaves-early" % p_.split("::")[-1], "%s:%d" % (f.file, esc[0].get("ln") or lp["ln"]), "the byte loop contains `%s`" % hirq.render(esc[0])[:40],
                            "bytes after (or at) the point where the loop leaves do not contribute to the hash: names that differ only there collide, and the value differs from the reference hash for such strings")
                else:
                    ctx.ok(R, {"fn": p_, "iterates": it[:60]})


def name_hash_whole_name(ctx, mpq, pid):
    """... and the *whole* name: in the functions that take the name as text (hash_string, the Jenkins wrappers, het_hash) nothing
    bounds how much of it reaches the kernel — no take / zip / truncate / min / step_by / skip on the name, its length or its
    byte iterator (the reference hashes are defined on strings of any length; a fixed 260-byte buffer silently collides long names)"""
    R = ctx.rule("%s.name-hashes-consume-the-whole-name" % pid, "in hash_string / the Jenkins name-hash wrappers: no length-limiting operation (take, take_while, zip, truncate, min, step_by, skip, split_at) is applied to the name, its length or its bytes", floor=2)
    LIM = ("take", "take_while", "zip", "truncate", "min", "step_by", "skip", "skip_while", "split_at", "nth", "map_while")
    for f in mpq.fn_list:
        if f.kind == "Closure" or not f.hir or "::tests::" in f.path:
            continue
        p_ = norm(f.path)
        if not re.search(r"crypto::hash::hash_string$|crypto::jenkins::\w+$|crypto::hash::\w*jenkins\w*$|crypto::hash::het_hash$", p_):
            continue
        ins = f.d.get("inputs") or []
        pnames = [b for p__ in f.hir["params"] for b in hirq.pat_binds(p__)]
        text = [nm for nm, ti in zip(pnames, ins) if re.search(r"^&(\'\w+ )?str$|^&(\'\w+ )?\[u8\]$", mpq.ty(ti) or "") and re.search(r"name|file|key|path|s$|str", nm)]
        text = [nm for nm, ti in zip(pnames, ins) if (mpq.ty(ti) or "").endswith("str")]
        if not text:
            continue
        ctx.saw_fn(f)
        hit = None
        for x in hirq.walk(f.hir["body"]):
            if x.get("k") == "mcall" and x["m"] in LIM:
                parts = [x["recv"]] + list(x.get("args") or [])
                if any(y.get("k") == "path" and (y.get("res") or {}).get("local") in text for p0 in parts for y in hirq.walk(p0)):
                    hit = hit or x
        if hit:
            ctx.bad(R, "%s|name-bounded" % p_.split("::")[-1], "%s:%d" % (f.file, hit.get("ln") or f.lo), "`%s`" % hirq.render(hit)[:80],
                    "only a prefix (or a subset) of the name's bytes reaches the hash kernel: the value differs from the reference hash for names beyond that bound, and such names collide")
        else:
            ctx.ok(R, {"fn": p_, "name_params": text})


def _byte_wrappers(mpq):
    # (the encrypting wrapper is the builder's method, or the crate function it delegates to since the in-place modifier shares it)
    enc_w = "wow_mpq::builder::encrypt_file_data" if mpq.fns.get("wow_mpq::builder::encrypt_file_data") is not None else "wow_mpq::builder::ArchiveBuilder::encrypt_data"
    return [(enc_w, "encrypt_block"), ("wow_mpq::archive::decrypt_file_data", "decrypt_block"),
            ("wow_mpq::tables::common::decrypt_table_data", "decrypt_block")]


def wrapper_guards_rule(ctx, mpq, pid):
    """the byte-level cipher wrappers return early for exactly the same (length, key) classes (shared: C04, and C07 — a rebuilt
    FIX_KEY file whose adjusted key happens to be 0 in the target must still read back)"""
    wrappers = _byte_wrappers(mpq)
    R_guard = ctx.rule("%s.wrapper-guards-agree" % pid, "the byte wrappers skip the cipher for exactly the same (length, key) classes: lengths 0..5 × key zero/non-zero", floor=2)
    from .c10 import _bval, _NoEval
    gtabs = {}
    for path, _kern in wrappers:
        f = mpq.fns.get(path)
        if f is None or not f.hir:
            continue
        pnames = [b for p_ in f.hir["params"] for b in hirq.pat_binds(p_)]
        dname = next((n_ for n_ in pnames if n_ in ("data", "buf", "buffer", "bytes")), None) or next((n_ for n_ in pnames if n_ not in ("self", "key")), None)
        blk = hirq.strip(f.hir["body"])
        guard = None
        for st in (blk.get("stmts", []) if blk.get("k") == "block" else [])[:3]:
            if st.get("k") == "if" and any(x.get("k") == "ret" for x in hirq.walk(st["then"])) and st.get("else") is None:
                guard = st
                break
        tab = {}
        for n_ in range(0, 6):
            for kz in (0, 1):
                if guard is None:
                    tab[(n_, kz)] = False
                    continue
                try:
                    tab[(n_, kz)] = _bval(guard["c"], {"__leaf__": (lambda r_, n_=n_, kz=kz: n_ if r_.endswith(".len()") else (kz if r_ == "key" else None))}, {})
                except _NoEval:
                    tab = None
                    break
            if tab is None:
                break
        gtabs[path] = (tab, guard)
    known = {p_: t_ for p_, (t_, _g) in gtabs.items() if t_ is not None}
    if known:
        from collections import Counter
        maj = Counter(tuple(sorted(t_.items())) for t_ in known.values()).most_common(1)[0][0]
        for p_, t_ in sorted(known.items()):
            g_ = gtabs[p_][1]
            if tuple(sorted(t_.items())) == maj:
                ctx.ok(R_guard, {"wrapper": p_, "guard": hirq.render(g_["c"])[:60] if g_ else "none", "skips": sorted(k_ for k_, v_ in t_.items() if v_)[:6]})
            else:
                diff = [k_ for k_ in t_ if dict(maj)[k_] != t_[k_]]
                ctx.bad(R_guard, "%s|guard" % p_.split("::")[-1], "%s:%d" % (mpq.fns[p_].file, g_["ln"] if g_ else mpq.fns[p_].lo), "guard `%s` differs from its siblings for (len, key≠0) = %s" % (hirq.render(g_["c"])[:60] if g_ else "none", diff[:4]),
                        "for those lengths one side runs the cipher and the other returns early: decrypt(encrypt(x)) != x (a 1–3 byte file or final sector)")
    for p_, (t_, g_) in gtabs.items():
        if t_ is None:
            ctx.note_unarmed(R_guard, p_, "guard not a pure predicate over length and key")



def run(ctx):
    prog = ctx.prog
    mpq = prog.crate("wow_mpq")
    consts = {k: v.get("v") for k, v in mpq.consts().items()}
    R_tab = ctx.rule("C04.tables-equal-reference", "crypt table (1280) and ASCII fold tables (2×256) equal the independently generated reference, every entry", floor=3)
    R_hash = ctx.rule("C04.hash-step-equals-reference", "hash_string: seeds, per-byte fold (slash map + upper table) and both seed updates equal the reference expressions", floor=4)
    R_ciph = ctx.rule("C04.cipher-round-equals-reference", "encrypt_block / decrypt_block / decrypt_dword equal the reference round; only the seed-feeding word differs (plaintext on both sides)", floor=7)
    R_wrap = ctx.rule("C04.byte-wrappers-agree", "byte-level encrypt/decrypt wrappers split at len/4*4 and use the same tail key shape key+len/4", floor=3)
    R_jen = ctx.rule("C04.jenkins-equals-reference", "one-at-a-time step/final, lookup3 mix/final/init equal the reference; names folded through the repo tables", floor=5)

    # tables
    for path, want, what in ((P + "keys::ENCRYPTION_TABLE", ref.crypt_table(), "crypt table"),
                             (P + "keys::ASCII_TO_UPPER", None, "upper fold table"),
                             (P + "keys::ASCII_TO_LOWER", None, "lower fold table")):
        got = const_array(mpq, path)
        if got is None:
            ctx.bad(R_tab, "%s|missing" % path, "-", "constant not found / not evaluated", "table gone")
            continue
        if want is None:
            base = ref.ascii_upper() if "UPPER" in path else ref.ascii_lower()
            alt = list(base)
            alt[0x2F] = 0x5C
            want = alt if got[0x2F] == 0x5C else base
        diffs = [(i, got[i], want[i]) for i in range(min(len(got), len(want))) if got[i] != want[i]]
        if len(got) != len(want):
            diffs.append(("len", len(got), len(want)))
        if diffs:
            i, g, w = diffs[0]
            ctx.bad(R_tab, "%s|entry" % path.split("::")[-1], path, "%s differs from the reference at %d entr%s; first: [%s] = %s, reference %s" % (
                what, len(diffs), "y" if len(diffs) == 1 else "ies", i, hex(g) if isinstance(g, int) else g, hex(w) if isinstance(w, int) else w),
                    "every hash and every encrypted table/file depends on these values: archives stop interoperating")
        else:
            ctx.ok(R_tab, {"table": path, "entries": len(got), "first": hex(got[0])})

    name_hash_iterates_bytes(ctx, mpq, "C04")
    name_hash_whole_name(ctx, mpq, "C04")
    # hash_string
    hf = mpq.fns.get(P + "hash::hash_string")
    if hf is None:
        ctx.bad(R_hash, "hash_string|missing", "-", "function not found", "anchor gone")
    else:
        ctx.saw_fn(hf)
        s = symx.eval_fn(hf, consts)
        le = getattr(s, "loop_env", None)
        if le is None or s.unknown:
            ctx.bad(R_hash, "hash_string|shape", hf.where, "loop not recognised / unknown nodes %s" % s.unknown, "kernel cannot be compared")
        else:
            upper = const_array(mpq, P + "keys::ASCII_TO_UPPER") or []
            ch_r, s1_r, s2_r = ref.hash_step("ASCII_TO_UPPER", table_maps_slash=(len(upper) > 0x2F and upper[0x2F] == 0x5C))
            loopvar = next(iter(hirq.pat_binds(next(hirq.find(hf.hir["body"], "for"))["pat"])), "byte")
            ren = {var(loopvar): var("byte")}
            pname = [b for p in hf.hir["params"] for b in hirq.pat_binds(p)]
            ren[var(pname[1])] = var("hash_type")
            got1 = substitute(le.get("seed1", var("?")), ren)
            got2 = substitute(le.get("seed2", var("?")), ren)
            for nm, g, w in (("seed1'", got1, s1_r), ("seed2'", got2, s2_r)):
                if render(g) == render(w):
                    ctx.ok(R_hash, {"kernel": "hash_string", "update": nm, "expr": render(g)[:160]})
                else:
                    ctx.bad(R_hash, "hash_string|%s" % nm, hf.where, "found   %s\n         reference %s" % (render(g), render(w)),
                            "the name hash no longer equals the MPQ hash: lookups in archives written by other tools fail")
            pre = s.pre_loop
            seeds = (pre.get("seed1"), pre.get("seed2"))
            if seeds == (const(ref.HASH_SEEDS[0]), const(ref.HASH_SEEDS[1])):
                ctx.ok(R_hash, {"kernel": "hash_string", "seeds": [hex(x) for x in ref.HASH_SEEDS]})
            else:
                ctx.bad(R_hash, "hash_string|seeds", hf.where, "initial seeds %s" % [render(x) if x else None for x in seeds], "seeds differ from 0x7FED7FED/0xEEEEEEEE")
            if s.ret is not None and render(s.ret) == render(le.get("seed1")) or render(s.env.get("seed1", var("?"))) == render(le.get("seed1")):
                ctx.ok(R_hash, {"kernel": "hash_string", "returns": "seed1"})
            else:
                ctx.bad(R_hash, "hash_string|return", hf.where, "does not return seed1", "wrong half of the state is returned")

    # cipher
    enc = mpq.fns.get(P + "encryption::encrypt_block")
    dec = mpq.fns.get(P + "decryption::decrypt_block")
    dw = mpq.fns.get(P + "decryption::decrypt_dword")
    for f, side in ((enc, "enc"), (dec, "dec")):
        if f is None:
            ctx.bad(R_ciph, "%s|missing" % side, "-", "function not found", "anchor gone")
            continue
        ctx.saw_fn(f)
        s = symx.eval_fn(f, consts)
        le = getattr(s, "loop_env", None)
        if le is None or s.unknown:
            ctx.bad(R_ciph, "%s|shape" % side, f.where, "loop not recognised %s" % s.unknown, "kernel cannot be compared")
            continue
        out_r, key_r, seed_r = ref.cipher_round((lambda out, value: value) if side == "enc" else (lambda out, value: out))
        lv = next(iter(hirq.pat_binds(next(hirq.find(f.hir["body"], "for"))["pat"])), "value")
        ren = {var(lv): var("value")}
        for nm, g, w in (("value'", le.get(lv), out_r), ("key'", le.get("key"), key_r), ("seed'", le.get("seed"), seed_r)):
            g = substitute(g, ren) if g is not None else var("?")
            if render(g) == render(w):
                ctx.ok(R_ciph, {"kernel": f.path.split("::")[-1], "update": nm})
            else:
                ctx.bad(R_ciph, "%s|%s" % (f.path.split("::")[-1], nm), f.where, "found   %s\n         reference %s" % (render(g), render(w)),
                        "the stream cipher no longer matches the MPQ cipher (or enc/dec stop being inverse): tables and encrypted files become unreadable")
        if s.pre_loop.get("seed") != const(ref.CIPHER_SEED):
            ctx.bad(R_ciph, "%s|seed0" % f.path.split("::")[-1], f.where, "initial seed %s" % render(s.pre_loop.get("seed", var("?"))), "must be 0xEEEEEEEE")
        # zero-key early return on both or neither
    if enc is not None and dec is not None:
        z = []
        trio = [f for f in (enc, dec, dw) if f is not None]
        for f in trio:
            s = symx.eval_fn(f, consts)
            z.append(any(e[0] == "if" and render(e[1]) == "eq(key, 0x0)" for e in s.events))
        if len(set(z)) == 1:
            ctx.ok(R_ciph, {"zero_key_early_return": z[0], "agreement_across": [f.path.split("::")[-1] for f in trio]})
        else:
            ctx.bad(R_ciph, "cipher|zero-key", enc.where, "zero-key identity is not uniform: %s" % {f.path.split("::")[-1]: v for f, v in zip(trio, z)},
                    "the block routines treat key 0 as the identity while the single-dword routine (used for the len % 4 tail) does not, or vice versa: for the key that wraps to 0 at the tail, decrypt no longer inverts encrypt")
    if dw is not None:
        s = symx.eval_fn(dw, consts)
        out_r, _, _ = ref.cipher_round(lambda o, v: v)
        want = substitute(out_r, {var("seed"): const(ref.CIPHER_SEED)})
        if s.ret is not None and render(s.ret) == render(want):
            ctx.ok(R_ciph, {"kernel": "decrypt_dword", "equals": "first round of decrypt_block"})
        else:
            ctx.bad(R_ciph, "decrypt_dword|round", dw.where, "found   %s\n         reference %s" % (render(s.ret) if s.ret else None, render(want)), "key recovery / single-dword decryption differs from the block cipher")

    # wrappers
    # (the encrypting wrapper is the builder's method, or the crate function it delegates to since the in-place modifier shares it)
    enc_w = "wow_mpq::builder::encrypt_file_data" if mpq.fns.get("wow_mpq::builder::encrypt_file_data") is not None else "wow_mpq::builder::ArchiveBuilder::encrypt_data"
    wrappers = [(enc_w, "encrypt_block"), ("wow_mpq::archive::decrypt_file_data", "decrypt_block"),
                ("wow_mpq::tables::common::decrypt_table_data", "decrypt_block")]
    shapes = {}
    for path, kern in wrappers:
        f = mpq.fns.get(path)
        if f is None or not f.hir:
            ctx.bad(R_wrap, "%s|missing" % path, "-", "wrapper not found", "anchor gone")
            continue
        ctx.saw_fn(f)
        calls = [c for c in hirq.calls(f.hir["body"]) if re.search(r"::(encrypt_block|decrypt_block|decrypt_dword|encrypt_dword)$", c.get("fn") or "")]
        keys = []
        for c in calls:
            k = hirq.strip(c["args"][1])
            keys.append(hirq.render(k))
        tail_keys = [k for k in keys if "wrapping_add" in k or "+" in k]
        lits = set()
        for c in calls:
            for x in hirq.walk(c["args"][1]):
                if x.get("k") == "lit" and "int" in x["v"]:
                    lits.add(x["v"]["int"])
        split4 = bool(re.search(r"/ 4\)? \* 4|len\(\) / 4|% 4|chunks_exact\(4\)", hirq.render(f.hir["body"])))
        shapes[path] = (len(calls), len(tail_keys), tuple(sorted(lits)), split4)
    vals = list(shapes.values())
    if vals:
        handles_tail = {v[1] > 0 for v in vals}
        for path, v in shapes.items():
            probs = []
            if len(handles_tail) > 1:
                probs.append("tail handled by some wrappers and not by others: %s" % {p.split("::")[-1]: s[1] for p, s in shapes.items()})
            if v[0] < 1:
                probs.append("no call to the block kernel")
            if any(l not in (4,) for l in v[2]):
                probs.append("tail key expression contains literal(s) %s besides the word size" % [l for l in v[2] if l != 4])
            if not v[3]:
                probs.append("no split at a multiple of 4")
            if probs:
                ctx.bad(R_wrap, "%s|shape" % path.split("::")[-1], mpq.fns[path].where, "; ".join(probs), "encrypt and decrypt wrappers would disagree on byte lengths not divisible by four")
            else:
                ctx.ok(R_wrap, {"wrapper": path, "kernel_calls": v[0], "tail_calls": v[1]})

    # ... and the tail key is evaluated, not matched: for byte lengths 1..=23 the key handed to the kernel for the len % 4 tail is
    # key + len / 4 (the dword count) in every wrapper — `chunks` may be a dword count in one wrapper and a byte slice in its twin
    R_tk = ctx.rule("C04.tail-key-is-key-plus-dword-count", "in every byte-level wrapper the key of the tail kernel call evaluates to key + len/4 for len in 1..=23 (len % 4 != 0)", floor=3)
    from .c10 import _ival as _iv, _NoEval as _NEv
    for path, kern in wrappers:
        f = mpq.fns.get(path)
        if f is None or not f.hir:
            continue
        body = f.hir["body"]
        pn = [b for p_ in f.hir["params"] for b in hirq.pat_binds(p_)]
        if len(pn) < 2:
            continue
        dname, kname = pn[0], pn[1]
        lets = {l["pat"]["name"]: l["init"] for l in hirq.find(body, "let") if l["pat"].get("k") == "bind" and l.get("init") is not None}
        split = {}
        for l in hirq.find(body, "let"):
            if l["pat"].get("k") == "tuple" and l.get("init") is not None:
                i0 = hirq.strip(l["init"])
                if i0.get("k") == "mcall" and i0["m"] in ("split_at_mut", "split_at") and i0.get("args"):
                    nm = [x.get("name") for x in l["pat"].get("subs") or []]
                    if len(nm) == 2:
                        split[nm[0]] = ("head", i0["args"][0])
                        split[nm[1]] = ("tail", i0["args"][0])
        tails_ = [c for c in hirq.calls(body) if re.search(r"::(encrypt_block|decrypt_block|decrypt_dword|encrypt_dword)$", c.get("fn") or "")
                  and hirq.render(hirq.strip(c["args"][1])) != kname]
        if not tails_:
            ctx.bad(R_tk, "%s|no-tail-call" % path.split("::")[-1], f.where, "no kernel call with a derived key (the len %% 4 tail is not enciphered by this wrapper)", "wrappers disagree on the tail")
            continue
        K = 1000
        bad = None
        try:
            for c in tails_:
                for L in range(1, 24):
                    if L % 4 == 0:
                        continue

                    def leaf(r_, L=L):
                        m_ = re.fullmatch(r"(\w+)\.len\(\)", r_)
                        if not m_:
                            return None
                        if m_.group(1) == dname:
                            return L
                        if m_.group(1) in split:
                            kind, at = split[m_.group(1)]
                            v_ = _iv(at, {kname: K, "__leaf__": leaf, "__ty__": mpq.ty}, lets)
                            return v_ if kind == "head" else L - v_
                        return None
                    got = _iv(c["args"][1], {kname: K, "__leaf__": leaf, "__ty__": mpq.ty}, lets)
                    if got != K + L // 4 and bad is None:
                        bad = (L, got - K, L // 4, hirq.render(c["args"][1])[:70])
        except _NEv as e:
            ctx.bad(R_tk, "%s|not-evaluable" % path.split("::")[-1], f.where, "tail key not evaluable: %s" % e, "shape changed")
            continue
        if bad:
            ctx.bad(R_tk, "%s|tail-key" % path.split("::")[-1], f.where, "for a %d-byte buffer the tail is processed with key + %d (`%s`); its twin wrappers use key + %d, the number of whole dwords" % (bad[0], bad[1], bad[3], bad[2]),
                    "the last len %% 4 bytes written by one wrapper are not recovered by the other: encrypt and decrypt are no longer mutually inverse for lengths not divisible by four")
        else:
            ctx.ok(R_tk, {"wrapper": path.split("::")[-1], "tail_key": hirq.render(tails_[0]["args"][1])[:60], "lengths": 17})

    # early-return guards of the wrappers agree for every (length, key) class
    # the HET name-hash pair: (masked 64-bit hash, its top byte) for every table width — evaluated on the function's own arithmetic
    R_het = ctx.rule("C04.het-hash-pair-is-masked-hash-and-its-top-byte", "jenkins_hashlittle2's post-processing returns (h, top) with h = (raw & (2^bits-1)) | 2^(bits-1) and top = bits (bits-8..bits-1) of h, for bits in {8,16,24,32,40,48,56,63,64} and 6 raw values", floor=1)
    from .c10 import exec_lets, _NoEval
    hf = None
    if hf is None:
        hf = next((f for f in mpq.fn_list if f.hir and f.kind != "Closure" and norm(f.path).endswith("crypto::jenkins::jenkins_hashlittle2")), None)
    if hf is None:
        ctx.bad(R_het, "jenkins_hashlittle2|missing", "-", "function not found", "anchor gone")
    else:
        ctx.saw_fn(hf)
        bad = None
        n_ev = 0
        try:
            for bits in (8, 16, 24, 32, 40, 48, 56, 63, 64):
                for raw in (0, 0xFFFFFFFFFFFFFFFF, 0x0123456789ABCDEF, 0x5151515151515151, 0x8000000000000001, 0x00FF00FF00FF00FF):
                    env = {"hash_bits": bits, "full_hash": raw, "__ty__": (lambda t_: mpq.ty(t_))}
                    r = exec_lets(hf.hir["body"], env, skip=("full_hash",))
                    n_ev += 1
                    if not (isinstance(r, tuple) and len(r) == 2):
                        raise _NoEval("return value is not an evaluable pair")
                    want_h = ((raw & ((1 << bits) - 1)) | (1 << (bits - 1))) if bits < 64 else raw
                    want_t = (want_h >> (bits - 8)) & 0xFF
                    if (r[0] & 0xFFFFFFFFFFFFFFFF, r[1] & 0xFF) != (want_h, want_t) and bad is None:
                        bad = (bits, raw, r, (want_h, want_t))
            if bad:
                ctx.bad(R_het, "jenkins_hashlittle2|pair", hf.where, "for %d hash bits and raw value 0x%016X the function returns (0x%X, 0x%02X), the format gives (0x%X, 0x%02X)" % (bad[0], bad[1], bad[2][0], bad[2][1] & 0xFF, bad[3][0], bad[3][1]),
                        "the HET slot byte stored / looked up for a name differs from the reference NameHash1: foreign archives with a HET width below 64 bits do not resolve the name (own archives stay self-consistent, which is why no round-trip test sees it)")
            else:
                ctx.ok(R_het, {"evaluations": n_ev})
        except _NoEval as e:
            ctx.bad(R_het, "jenkins_hashlittle2|not-evaluable", hf.where, "post-processing not evaluable: %s" % e, "shape changed")

    wrapper_guards_rule(ctx, mpq, "C04")

    # jenkins
    oa = mpq.fns.get(P + "jenkins::jenkins_one_at_a_time")
    if oa is None:
        ctx.bad(R_jen, "one_at_a_time|missing", "-", "function not found", "anchor gone")
    else:
        ctx.saw_fn(oa)
        s = symx.eval_fn(oa, consts)
        le = getattr(s, "loop_env", {})
        lv = next(iter(hirq.pat_binds(next(hirq.find(oa.hir["body"], "for"))["pat"])), "byte")
        # the accumulator: the function's `let mut <acc> = 0` that the byte loop updates, whatever it is called
        acc = next((l["pat"]["name"] for l in hirq.find(oa.hir["body"], "let") if l["pat"].get("k") == "bind" and l.get("init") is not None and hirq.lit_int(hirq.strip(l["init"])) == 0 and l["pat"]["name"] in le), "hash")
        ren_acc = {var(lv): var("byte"), var(acc): var("hash")}
        got = substitute(le.get(acc, var("?")), ren_acc)
        if render(got) == render(ref.one_at_a_time_step()):
            ctx.ok(R_jen, {"kernel": "one_at_a_time step"})
        else:
            ctx.bad(R_jen, "one_at_a_time|step", oa.where, "found   %s\n         reference %s" % (render(got), render(ref.one_at_a_time_step())), "HET/BET name hash differs from Jenkins one-at-a-time")
        # final: evaluate the tail statements with hash symbolic
        # (the result is the function's value: the accumulator itself, or a tail expression that finishes the avalanche)
        fin = s.ret if getattr(s, "ret", None) is not None else s.env.get(acc)
        want = substitute(ref.one_at_a_time_final(var("hash")), {var("hash"): le.get(acc, var(acc))})
        # after the loop our evaluator continues from the one-iteration state, so compare against final(step)
        if fin is not None and render(fin) == render(want):
            ctx.ok(R_jen, {"kernel": "one_at_a_time final"})
        else:
            ctx.bad(R_jen, "one_at_a_time|final", oa.where, "final avalanche differs: %s" % (render(fin)[:200] if fin else None), "HET/BET name hash differs from Jenkins one-at-a-time")
    hl = mpq.fns.get(P + "jenkins::hashlittle2")
    if hl is None or not hl.hir:
        ctx.bad(R_jen, "hashlittle2|missing", "-", "function not found", "anchor gone")
    else:
        ctx.saw_fn(hl)
        body = hl.hir["body"]
        # mix: body of the while loop after the three word additions
        mixed = finald = False
        for lp in hirq.find(body, "loop"):
            blk = None
            for n in hirq.find(lp["body"], "if"):
                blk = n["then"]
                break
            if blk is None:
                continue
            stmts = blk.get("stmts", [])
            sy = symx.Sym(consts)
            for nm in ("a", "b", "c"):
                sy.env[nm] = var(nm)
            sy.env["k"] = var("k")
            for st in stmts[:3]:
                sy.stmt(st)
            heads = {nm: sy.env[nm] for nm in ("a", "b", "c")}
            adds_ok = all(heads[nm][0] == "op" and heads[nm][1] == "add" and var(nm) in heads[nm][2:] for nm in ("a", "b", "c"))
            for nm in ("a", "b", "c"):
                sy.env[nm] = var(nm.upper() + "0")
            for st in stmts[3:]:
                sy.stmt(st)
            ra, rb, rc = ref.lookup3_mix(var("A0"), var("B0"), var("C0"))
            got = [render(sy.env[x]) for x in ("a", "b", "c")]
            want = [render(ra), render(rb), render(rc)]
            if got == want and adds_ok:
                mixed = True
                ctx.ok(R_jen, {"kernel": "lookup3 mix", "rotations": [4, 6, 8, 16, 19, 4]})
            else:
                bad = [i for i in range(3) if got[i] != want[i]]
                ctx.bad(R_jen, "hashlittle2|mix", "%s:%d" % (hl.file, lp["ln"]), "mix() differs from lookup3 in %s: found %s" % (["a", "b", "c"][bad[0]] if bad else "the word additions", got[bad[0]][:200] if bad else heads),
                        "Jenkins hashlittle2 no longer equals lookup3: HET/BET lookups miss")
        for n in hirq.find(body, "if"):
            r = hirq.render(n["then"])
            if "rotate_left(14)" in r and "rotate_left(24)" in r and n["then"].get("k") == "block" and not any(x.get("k") == "loop" for x in hirq.walk(n["then"])):
                sy = symx.Sym(consts)
                for nm in ("a", "b", "c"):
                    sy.env[nm] = var(nm.upper() + "0")
                for st in n["then"].get("stmts", []):
                    sy.stmt(st)
                ra, rb, rc = ref.lookup3_final(var("A0"), var("B0"), var("C0"))
                got = [render(sy.env[x]) for x in ("a", "b", "c")]
                want = [render(ra), render(rb), render(rc)]
                if got == want:
                    finald = True
                    ctx.ok(R_jen, {"kernel": "lookup3 final", "rotations": [14, 11, 25, 16, 4, 14, 24]})
                else:
                    ctx.bad(R_jen, "hashlittle2|final", "%s:%d" % (hl.file, n["ln"]), "final() differs from lookup3", "Jenkins hashlittle2 no longer equals lookup3")
        if not mixed and not any(v.key == "hashlittle2|mix" for v in ctx.violations):
            ctx.bad(R_jen, "hashlittle2|mix", hl.where, "mix loop not recognised", "shape changed")
        if not finald and not any(v.key == "hashlittle2|final" for v in ctx.violations):
            ctx.bad(R_jen, "hashlittle2|final", hl.where, "final block not recognised", "shape changed")
        # tail: for a remainder of n bytes, byte i (< n) is added into "abc"[i // 4] at bit 8 * (i % 4) — lookup3's little-endian tail
        R_tail3 = ctx.rule("C04.lookup3-tail-places-every-byte", "in hashlittle2's remainder switch every arm adds byte i of the last block to word i/4 at shift 8·(i mod 4), for all i below the remainder", floor=12)
        for m_ in hirq.find(body, "match"):
            arms = [(hirq.lit_int({"k": "lit", "v": a["pat"].get("v", {})}) if a["pat"].get("k") == "lit" else None, a) for a in m_["arms"]]
            if sum(1 for n_, _ in arms if n_ is not None and 1 <= n_ <= 12) < 8:
                continue
            for n_, arm in arms:
                if n_ is None or not (1 <= n_ <= 12):
                    continue
                placed = {}       # byte index -> (word, shift)
                problems = []
                for st in hirq.walk(arm["body"]):
                    if st.get("k") not in ("assign", "assignop"):
                        continue
                    tgt = hirq.strip(st["l"])
                    if tgt.get("k") != "path" or tgt["res"].get("local") not in ("a", "b", "c"):
                        continue
                    word = "abc".index(tgt["res"]["local"])

                    def byte_index(e):
                        e = hirq.strip(e)
                        while e.get("k") == "cast":
                            e = hirq.strip(e["e"])
                        if e.get("k") == "index" and hirq.lit_int(e["i"]) is not None:
                            return hirq.lit_int(e["i"])
                        return None
                    for x in hirq.walk(st["r"]):
                        if x.get("k") == "call" and (x.get("fn") or "").endswith("from_le_bytes") and x.get("args"):
                            arr = hirq.strip(x["args"][0])
                            if arr.get("k") == "array":
                                for j, e in enumerate(arr["es"]):
                                    bi = byte_index(e)
                                    if bi is not None:
                                        placed.setdefault(bi, []).append((word, 8 * j))
                        elif x.get("k") == "bin" and x["op"] == "<<" and byte_index(x["l"]) is not None and hirq.lit_int(x["r"]) is not None:
                            placed.setdefault(byte_index(x["l"]), []).append((word, hirq.lit_int(x["r"])))
                    # a bare `last_block[i] as u32` operand (shift 0)
                    top = hirq.strip(st["r"])
                    cands = [top] + [hirq.strip(a_) for c_ in hirq.walk(st["r"]) if c_.get("k") == "mcall" and c_["m"] == "wrapping_add" for a_ in c_["args"]]
                    for cnd in cands:
                        bi = byte_index(cnd)
                        if bi is not None and cnd.get("k") in ("cast", "index"):
                            placed.setdefault(bi, []).append((word, 0))
                for i_ in range(n_):
                    want = (i_ // 4, 8 * (i_ % 4))
                    got = placed.get(i_)
                    if not got:
                        problems.append("byte %d is not added" % i_)
                    elif any(g != want for g in got):
                        problems.append("byte %d goes to word %s at shift %d (lookup3: word %s, shift %d)" % (i_, "abc"[got[0][0]], got[0][1], "abc"[want[0]], want[1]))
                for i_, got in placed.items():
                    if i_ >= n_ and any(g != (i_ // 4, 8 * (i_ % 4)) for g in got):
                        problems.append("padding byte %d misplaced" % i_)
                if problems:
                    ctx.bad(R_tail3, "hashlittle2|tail|%d" % n_, "%s:%d" % (hl.file, arm["ln"]), "remainder %d: %s" % (n_, "; ".join(problems[:2])),
                            "names whose folded length leaves this remainder hash differently from lookup3: HET/BET entries written by other tools are not found (and vice versa)")
                else:
                    ctx.ok(R_tail3, {"remainder": n_, "bytes_placed": n_})
        lits = {x["v"]["int"] for x in hirq.find(body, "lit") if "int" in x["v"]}
        # (a named constant holding the value counts as the value)
        lits |= {hirq.const_int(x) for x in hirq.find(body, "path") if "def" in (x.get("res") or {}) and hirq.const_int(x) is not None}
        if ref.LOOKUP3_INIT in lits:
            ctx.ok(R_jen, {"kernel": "lookup3 init", "const": hex(ref.LOOKUP3_INIT)})
        else:
            ctx.bad(R_jen, "hashlittle2|init", hl.where, "0xdeadbeef initialiser missing", "initial state differs from lookup3")
    jh = mpq.fns.get(P + "jenkins::jenkins_hashlittle2")
    if jh is not None and jh.hir:
        r = hirq.render(jh.hir["body"])
        cl = [c for c in jh.closures]
        # the fold may sit in a helper (a nested fn handed to `map`, a private fn of the module): follow fn references one level
        refd = {c_.get("fn") for c_ in hirq.calls(jh.hir["body"])} | {x["res"]["def"] for x in hirq.walk(jh.hir["body"]) if x.get("k") == "path" and "def" in (x.get("res") or {}) and str(x["res"].get("dk", "")).startswith("Fn")}
        jnodes = list(hirq.walk(jh.hir["body"]))
        for g_ in mpq.fn_list:
            if g_.hir and g_.kind != "Closure" and g_.path in refd and "::crypto::" in g_.path and g_.path != jh.path and not g_.path.endswith("::hashlittle2"):
                jnodes += list(hirq.walk(g_.hir["body"]))
        folded = any("ASCII_TO_UPPER" in hirq.render(x) or "ASCII_TO_LOWER" in hirq.render(x) for x in jnodes if x.get("k") == "index")
        slash = any(x.get("k") == "if" and "47" in hirq.render(x["c"]) or x.get("k") == "bin" and hirq.lit_int(x.get("r")) == 0x2F for x in jnodes)
        if folded and slash:
            ctx.ok(R_jen, {"kernel": "jenkins_hashlittle2", "folds": "slash map + repo case table"})
        else:
            ctx.bad(R_jen, "jenkins_hashlittle2|fold", jh.where, "name is not folded through the slash map and a repo case table (folded=%s, slash=%s)" % (folded, slash),
                    "HET/BET hashes would depend on case or slash direction")
