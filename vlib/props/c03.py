"""C03 — lossless MPQ codecs: never expand, dispatch symmetrically, accept their own output.

Decides: (1) `compress` returns the prefixed form only on the path where 1+|c| < |d| strictly
(truth table of the size comparison; every other return is a copy of the input); (2) every
CompressionMethod variant dispatches to the same algorithm module in compress_internal and in
decompress_with_monitor; (3) multi-method stages are applied in reverse order on decompression and
the compressor's second-stage set ⊆ the decompressor's; (4) every non-passthrough success path of
decompress_with_monitor passes validate_decompression_result; (5) the compressor consults the very
validator (default limits) the decompressor enforces and falls back to raw when it would reject.
"""
import re

from .. import cmpeval, hirq, mirg, rules
from ..rules import ncallee, norm

META = {
    "level": "other",
    "technique": "comparator truth table (store-raw guard), variant→algorithm dispatch tables compared between sibling functions, call-order comparison of multi-method stages, MIR must-pass-through, who-may-call on the limit validator",
    "claim": "Decides the never-expands rule for all inputs (the only non-copy return is guarded by a strict shrink test that includes the method byte), dispatch symmetry for all eleven method variants, stage-order reversal for combined methods, result validation on every decoding path, and that the compressor cannot emit what the decompressor's default limits reject (it calls the same validator and stores raw otherwise). Does not decide inversion inside the codec kernels or ADPCM length/interleave. Also: the sparse decoder clamps every output growth to what is still owed; each ADPCM decode arm either emits a sample or gives its channel slot back; the PKWare compressor emits a mode the decoder accepts and the decoder rejects the unimplemented one. Wave 5: no io::Write::write / Read::read count goes unchecked in the codecs; the PKWare decode loop drains a pending window; pklib's encoder is only given blocks it can encode; decoders given a computed upper bound do not insist on the exact size. Wave 6: the compression module declares and references no interior-mutable static (codecs keep no state between calls). Wave 7: no decoder configures a private limit (memlimit / max_*) into the library decoder it calls. Wave 8: the sparse codec's 4-byte length header decodes what the encoder writes (9 lengths covering every byte).",
    "note": "Trusted: the algorithm modules (zlib/bzip2/lzma/pklib wrappers) invert themselves; validate_decompression_operation is a pure function of (sizes, method, limits).",
    "assumptions": ["codec kernels are mutually inverse per module"],
    "explanation": "compression::compress::{compress, compress_internal, compress_multiple}, compression::decompress::{decompress_secure, decompress_with_monitor, decompress_multiple_internal}, security::validate_decompression_operation.",
}

C = "wow_mpq::compression::"


def algo_calls(node, stages_only=False):
    """algorithm-module calls; with stages_only, only pipeline stages `V = algorithms::m::f(&V, ..)?` (same local in and out)"""
    out = []
    if stages_only:
        for a in hirq.walk(node):
            if a.get("k") != "assign":
                continue
            l = hirq.strip(a["l"])
            if l.get("k") != "path" or "local" not in l["res"]:
                continue
            v = l["res"]["local"]
            for c in hirq.calls(a["r"]):
                m = re.search(r"compression::algorithms::(\w+)::(\w+)$", c.get("fn") or "")
                if m and c["args"] and re.search(r"\b%s\b" % re.escape(v), hirq.render(c["args"][0])):
                    out.append((m.group(1), m.group(2), c["ln"]))
        return out
    for c in hirq.calls(node):
        m = re.search(r"compression::algorithms::(\w+)::(\w+)$", c.get("fn") or "")
        if m:
            out.append((m.group(1), m.group(2), c["ln"]))
    # an algorithm function handed over as a value (`run(data, size, algorithms::zlib::decompress)`) is that algorithm too
    for c in hirq.walk(node):
        if c.get("k") == "path" and "def" in (c.get("res") or {}) and str(c["res"].get("dk", "")).startswith("Fn"):
            m = re.search(r"compression::algorithms::(\w+)::(\w+)$", c["res"]["def"])
            if m:
                out.append((m.group(1), m.group(2), c.get("ln") or 0))
    out.sort(key=lambda t: t[2])
    return out


def make_inliner(body):
    """single-assignment locals are inlined into expressions (`let stored_len = 1 + compressed.len();`)"""
    let_init = {l["pat"]["name"]: l["init"] for l in hirq.find(body, "let") if l["pat"].get("k") == "bind" and l.get("init") is not None}

    def inline(n, depth=0):
        n2 = hirq.strip(n)
        if depth < 4 and n2.get("k") == "path" and n2["res"].get("local") in let_init and hirq.strip(let_init[n2["res"]["local"]]).get("k") in ("bin", "mcall", "cast"):
            return inline(let_init[n2["res"]["local"]], depth + 1)
        if isinstance(n2, dict):
            out = dict(n2)
            for k_ in ("l", "r", "e", "recv"):
                if isinstance(out.get(k_), dict):
                    out[k_] = inline(out[k_], depth)
            if isinstance(out.get("args"), list):
                out["args"] = [inline(a, depth) for a in out["args"]]
            return out
        return n2
    return inline


def variant_table(fn):
    tab = {}
    for m in hirq.find(fn.hir["body"], "match"):
        for arm in m["arms"]:
            ctor = hirq.pat_ctor(arm["pat"])
            if ctor and "CompressionMethod::" in ctor:
                v = ctor.split("::")[-1]
                calls = algo_calls(arm["body"])
                local = [c.get("fn", "").split("::")[-1] for c in hirq.calls(arm["body"]) if re.search(r"(de)?compress_multiple", c.get("fn") or "")]
                tab[v] = (calls[0][0], calls[0][1]) if calls else (("multi", local[0]) if local else ("passthrough", ""))
    return tab


def sparse_decoder_clamp_rule(ctx, mpq, pid):
    """(shared by C03 and C01) the sparse decoder never appends beyond the stored length"""
    sp_d = next((f for f in mpq.fn_list if f.kind != "Closure" and f.hir and norm(f.path) == C + "algorithms::sparse::decompress"), None)
    # sparse decoder: nothing is appended beyond the stored length — every growth of the output is clamped to what is still owed
    R_spd = ctx.rule("%s.sparse-decoder-appends-clamped" % pid, "in the sparse decoder every resize / extend of the output uses an amount that passed through `.min(remaining)`", floor=2)
    if sp_d is not None:
        du = mirg.DefUse(sp_d)
        ctx.saw_fn(sp_d)
        n_g = 0
        for bb, t in mirg.iter_calls(sp_d):
            cn = ncallee(t) or ""
            if not re.search(r"Vec(::<[^>]*>)?::(resize|extend_from_slice|extend|push)$", cn) or len(t["a"]) < 2:
                continue
            n_g += 1
            l = mirg.op_local(t["a"][1])
            calls_ = du.slice_back(l, depth=10)[1] if l is not None else []
            clamped = any(re.search(r"::min$|::clamp$", ncallee(c_) or "") for c_ in calls_)
            inst = {"growth": cn.split("::")[-1], "line": t["ln"]}
            if clamped:
                ctx.ok(R_spd, inst)
            else:
                ctx.bad(R_spd, "sparse-decoder|%s|unclamped" % cn.split("::")[-1], "%s:%d" % (sp_d.file, t["ln"]), "`%s` grows the output by an amount that never passes through min(remaining)" % cn.split("::")[-1],
                        "the encoder ends some streams with a full-length zero-run marker and relies on the decoder cutting it at the stored length: the decoder returns more bytes than were compressed (the public API then rejects the codec's own output)")
        if n_g == 0:
            ctx.bad(R_spd, "sparse-decoder|no-growth", sp_d.where, "no output growth recognised", "shape changed")


def partial_io_rule(ctx, crates, pid, scope=None, floor=5):
    """`Write::write` / `Read::read` may transfer fewer bytes than asked: a call whose returned count never reaches a comparison,
    an arithmetic update or a slice bound has silently accepted a short transfer.  `write_all` / `read_exact` / `read_to_end`
    calls are counted as the discharged form of the same obligation (so the rule is seen to look at something)."""
    R = ctx.rule("%s.no-unchecked-partial-io" % pid, "every io::Write::write / io::Read::read call's byte count flows into a comparison, an arithmetic update or a range bound (otherwise write_all / read_exact is required)", floor=floor)
    from .. import mirg as _m
    for c in crates:
        for f in c.fn_list:
            if not f.mir or "::tests::" in f.path or "::test_utils" in f.path or (scope and not scope.search(f.path)):
                continue
            blocks = f.mir["blocks"]
            for bb, t in _m.iter_calls(f):
                ce, cd = _m.callee(t) or "", _m.callee_decl(t) or ""
                if re.search(r"io::(Write::write_all|Read::read_exact|Read::read_to_end)$", cd) or re.search(r"io::(Write::write_all|Read::read_exact|Read::read_to_end)$|io::(Write|Read)>::(write_all|read_exact|read_to_end)$", ce):
                    if len(ctx.samples) < 300:
                        ctx.ok(R, {"fn": f.path, "line": t["ln"], "call": (cd or ce).split("::")[-1]})
                    else:
                        ctx.rules[R]["obligations"] += 1
                        ctx.rules[R]["discharged"] += 1
                    continue
                if not (re.search(r"io::(Write::write|Read::read)$", cd) or re.search(r"io::(Write::write|Read::read)$|io::(Write|Read)>::(write|read)$", ce)):
                    continue
                if re.search(r"as std::io::(Read|Write)>::(read|write)$", f.path):
                    # an adapter's own read/write forwards the inner count to its caller, who owns the obligation
                    ctx.ok(R, {"fn": f.path, "line": t["ln"], "call": "forwarding adapter"})
                    continue
                # forward slice of the returned value
                derived = {_m.plocal(t["d"])}
                used = False
                changed = True
                while changed and not used:
                    changed = False
                    for b in blocks:
                        for st in b["s"]:
                            if st[0] != "=":
                                continue
                            ops = [o for o in _m.rvalue_operands(st[2]) if _m.op_local(o) in derived]
                            if not ops:
                                continue
                            if st[2][0] == "bin":
                                used = True
                            d_ = _m.plocal(st[1])
                            if d_ not in derived:
                                derived.add(d_)
                                changed = True
                        tt = b["t"]
                        if tt["k"] == "call" and any(_m.op_local(a) in derived for a in tt["a"]):
                            cn = _m.callee(tt) or ""
                            if re.search(r"(Try>::branch|::from_residual|::unwrap|::expect|::map_err|::unwrap_or|::ok\b|convert::Into|convert::From)", cn):
                                d_ = _m.plocal(tt["d"])
                                if d_ not in derived:
                                    derived.add(d_)
                                    changed = True
                            elif re.search(r"(ops::index::Index|slice::index|::get\b|::split_at|::truncate|::advance|::consume|cmp::|::min$|::max$|::checked_|::saturating_|::wrapping_)", cn):
                                used = True
                        if tt["k"] == "switch" and _m.op_local(tt["d"]) in derived and len(tt.get("ts") or []) >= 1:
                            # `match n { 0 => .. }` on the count itself (not on the Result's discriminant)
                            ty = f.crate.ty(f.mir["locals"][_m.op_local(tt["d"])][0]) or ""
                            if ty in ("usize", "u64", "u32"):
                                used = True
                if used:
                    ctx.ok(R, {"fn": f.path, "line": t["ln"], "call": (cd or ce).split("::")[-1], "count_checked": True})
                else:
                    what = "write" if re.search(r"rite", cd or ce) else "read"
                    ctx.bad(R, "%s|partial-%s" % (f.path.split("::")[-1] if "::" in f.path else f.path, what), "%s:%d" % (f.file, t["ln"]),
                            "the byte count returned by `%s` is never compared, accumulated or used as a bound" % (cd or ce).split("::", 1)[-1],
                            "a short %s is accepted as complete: only a prefix of the data is %s" % (what, "written (and a valid but truncated stream is produced)" if what == "write" else "consumed"))


def never_expands_rule(ctx, mpq, pid):
    """(shared by C03, C01 and C02) the stored form of a block is the compressed one only when that is strictly shorter, method byte
    included — readers tell a compressed block from a raw one by its size alone"""
    R_exp = ctx.rule("%s.never-expands" % pid, "compress returns method-byte + compressed only under a strict `1 + |c| < |d|` guard; all other returns copy the input", floor=2)
    fns = {norm(f.path): f for f in mpq.fn_list if f.kind != "Closure" and f.hir}
    comp = fns.get(C + "compress::compress")
    if comp is None:
        ctx.bad(R_exp, "compress|missing", "-", "function not found", "anchor gone")
    else:
        ctx.saw_fn(comp)
        body = comp.hir["body"]
        inline = make_inliner(body)
        ifs = []
        for n in hirq.find(body, "if"):
            c_in = inline(n["c"])
            if "len()" in hirq.render(c_in) and "compress" in hirq.render(c_in):
                m_ = dict(n)
                m_["c"] = c_in
                ifs.append(m_)
        if not ifs:
            ctx.bad(R_exp, "compress|no-guard", comp.where, "no size comparison guards the choice between raw and compressed", "the stored form can be longer than the input")
        for n in ifs:
            # the guard is a boolean formula over one size comparison (stored vs original) and other atoms (e.g. "the decoder would
            # accept it"): evaluate it for stored <,=,> original and every valuation of the other atoms; the arm that is not a plain
            # copy may only be reached when stored < original, the method byte counted
            size_atoms, free_atoms = [], []

            def collect(c):
                c = hirq.strip(c)
                if c.get("k") == "bin" and c["op"] in ("||", "&&"):
                    collect(c["l"])
                    collect(c["r"])
                elif c.get("k") == "un" and c.get("op") == "Not":
                    collect(c["e"])
                elif len(cmpeval.atoms(c)) == 2 and any(".len()" in a for a in cmpeval.atoms(c)) and any("compress" in a for a in cmpeval.atoms(c)):
                    size_atoms.append(c)
                else:
                    free_atoms.append(hirq.render(c))
            collect(n["c"])
            if not size_atoms:
                ctx.bad(R_exp, "compress|guard-shape", "%s:%d" % (comp.file, n["ln"]), "guard `%s` has no two-sided size comparison" % hirq.render(n["c"]), "cannot establish the strict-shrink rule")
                continue
            d = size_atoms[0]
            ats = cmpeval.atoms(d)
            stored = next((a for a in ats if "compress" in a), None)
            orig = next((a for a in ats if a != stored), None)
            tts = {hirq.render(x): cmpeval.truth_table(x, next((a for a in cmpeval.atoms(x) if "compress" in a), None), next((a for a in cmpeval.atoms(x) if "compress" not in a), None)) for x in size_atoms}
            tt = tts[hirq.render(d)]

            def ev(c, rel, val):
                c = hirq.strip(c)
                if c.get("k") == "bin" and c["op"] == "||":
                    return ev(c["l"], rel, val) or ev(c["r"], rel, val)
                if c.get("k") == "bin" and c["op"] == "&&":
                    return ev(c["l"], rel, val) and ev(c["r"], rel, val)
                if c.get("k") == "un" and c.get("op") == "Not":
                    return not ev(c["e"], rel, val)
                r_ = hirq.render(c)
                return tts[r_][rel] if r_ in tts else val[r_]
            then_raw = "to_vec" in hirq.render(n["then"]) and "push" not in hirq.render(n["then"])
            else_raw = n.get("else") is not None and "to_vec" in hirq.render(n["else"]) and "push" not in hirq.render(n["else"])
            has_byte = all(bool(re.search(r"\(1 \+ |\+ 1\)", next((a for a in cmpeval.atoms(x) if "compress" in a), ""))) for x in size_atoms)
            frees = sorted(set(free_atoms))
            wrong, reach = [], False
            for rel in ("lt", "eq", "gt"):
                for bits in range(1 << len(frees)):
                    val = {f_: bool(bits >> i & 1) for i, f_ in enumerate(frees)}
                    g = ev(n["c"], rel, val)
                    raw = then_raw if g else else_raw
                    if not raw:
                        reach = reach or rel == "lt"
                        if rel != "lt":
                            wrong.append((rel, val))
            key = "compress|store-raw-guard"
            where = "%s:%d" % (comp.file, n["ln"])
            if (then_raw or else_raw) and not wrong and reach and has_byte:
                ctx.ok(R_exp, {"guard": hirq.render(n["c"])[:160], "size_comparison": hirq.render(d), "table": tt, "raw_arm": "then" if then_raw else "else", "other_atoms": len(frees)})
            else:
                ctx.bad(R_exp, key, where, "guard `%s` has table {lt:%s, eq:%s, gt:%s} over (stored=%s, original=%s); raw arm: %s; method byte counted: %s; prefixed form reached with stored %s original" % (
                    hirq.render(d), tt["lt"], tt["eq"], tt["gt"], stored, orig, "then" if then_raw else "else" if else_raw else "none", has_byte, sorted({w[0] for w in wrong}) or ("never <" if not reach else "<")),
                        "a block that does not shrink is stored compressed: the stored form is as long as or longer than the input, and readers that test `stored < original` misread it as raw")
        # every return is either raw copy or the guarded prefixed form
        rets = [hirq.render(c) for c in hirq.walk(body) if c.get("k") == "call" and (c.get("fn") or "").endswith("Result::Ok")]
        prefixed = [r for r in rets if "to_vec" not in r]
        if len(prefixed) <= 1:
            ctx.ok(R_exp, {"returns": rets})
        else:
            ctx.bad(R_exp, "compress|extra-return", comp.where, "more than one non-copy return: %s" % prefixed, "an unguarded return can expand the data")


def compressor_limits_rule(ctx, mpq, pid):
    """compress() never emits a block its own reader refuses under the default limits: the verdict of the reader's validator, asked
    about (payload length without the method byte, original length) — what the reader measures — feeds the raw fallback"""
    R = ctx.rule("%s.compressor-respects-reader-limits" % pid, "compress consults validate_decompression_operation with default limits and stores raw when it would reject", floor=2)
    fns = mpq.fns
    comp = fns.get(C + "compress::compress")
    vname = "wow_mpq::security::validate_decompression_operation"
    ds = fns.get(C + "decompress::decompress_secure")
    for f, who in ((comp, "compress"), (ds, "decompress_secure")):
        if f is None:
            ctx.bad(R, "%s|missing" % who, "-", "function not found", "anchor gone")
            continue
        calls = [t for _, t in mirg.iter_calls(f) if ncallee(t) == vname]
        if not calls:
            ctx.bad(R, "%s|no-limit-check" % who, f.where, "%s does not call validate_decompression_operation" % who,
                    "the compressor can emit blocks the decompressor refuses under its default limits" if who == "compress" else "limits are not enforced on read")
            continue
        if who == "compress":
            body = f.hir["body"]
            inline = make_inliner(body)
            lets = {l["pat"]["name"]: hirq.render(l.get("init")) for l in hirq.find(body, "let") if l["pat"].get("k") == "bind" and l.get("init") is not None}
            carrier = [k for k, v in lets.items() if "validate_decompression_operation" in v]
            in_guard = any(any(re.search(r"\b%s\b" % re.escape(c), hirq.render(n["c"])) for c in carrier) and "to_vec" in hirq.render(n) for n in hirq.find(body, "if"))
            default_limits = any((c.get("fn") or "").endswith("SecurityLimits as core::default::Default>::default") or "default" in (c.get("fn") or "") and "SecurityLimits" in (c.get("fn") or "") for c in hirq.calls(body))
            # sibling agreement on what is measured: the reader validates the payload *without* the method byte
            vcall = next((c for c in hirq.calls(body) if (c.get("fn") or "").endswith("security::validate_decompression_operation")), None)
            a0 = hirq.render(inline(vcall["args"][0])) if vcall is not None else ""
            a1 = hirq.render(inline(vcall["args"][1])) if vcall is not None else ""
            packed = [k for k, v in lets.items() if re.search(r"compress_internal\(", v)]
            p0 = next(iter(hirq.pat_binds(f.hir["params"][0])), "data")
            args_ok = any(re.fullmatch(r"\(?%s\.len\(\)( as _)?\)?" % re.escape(k), a0) for k in packed) and re.fullmatch(r"\(?%s\.len\(\)( as _)?\)?" % re.escape(p0), a1) is not None
            if in_guard and default_limits and args_ok:
                ctx.ok(R, {"fn": who, "verdict_local": carrier, "feeds_raw_fallback": True, "validator_args": [a0, a1]})
            elif in_guard and default_limits:
                ctx.bad(R, "compress|validator-args", f.where, "pre-check validates (%s, %s); the reader validates (payload length without method byte, original length)" % (a0, a1),
                        "compressor and decompressor measure the ratio on different byte counts: blocks sitting on the ratio limit are emitted and then rejected")
            else:
                ctx.bad(R, "compress|limit-result-unused", f.where, "validator verdict %s does not feed the raw-fallback guard (default limits: %s)" % (carrier, default_limits),
                        "highly compressible input is emitted compressed and then rejected by the reader")
        else:
            ctx.ok(R, {"fn": who, "calls_validator": True})



def sparse_header_rule(ctx, mpq, pid):
    """the sparse codec's 4-byte length header: the value the decoder assembles from the first four bytes equals the length the
    encoder put there, for lengths that exercise every byte (up to 2^32 - 1) — evaluated on both functions' own expressions"""
    from .c10 import _ival, _NoEval
    R = ctx.rule("%s.sparse-length-header-decodes-what-the-encoder-writes" % pid, "sparse::decompress assembles from bytes 0..4 the length sparse::compress pushed there, for 9 lengths covering every byte position", floor=1)
    enc = mpq.fns.get(C + "algorithms::sparse::compress")
    dec = mpq.fns.get(C + "algorithms::sparse::decompress")
    if enc is None or dec is None or not enc.hir or not dec.hir:
        ctx.bad(R, "sparse-header|missing", "-", "sparse::compress / decompress not found", "anchor gone")
        return
    ctx.saw_fn(enc)
    ctx.saw_fn(dec)
    ebody, dbody = enc.hir["body"], dec.hir["body"]
    elets = {l["pat"]["name"]: l["init"] for l in hirq.find(ebody, "let") if l["pat"].get("k") == "bind" and l.get("init") is not None}
    ep = next(iter(hirq.pat_binds(enc.hir["params"][0])), "data")
    dp = next(iter(hirq.pat_binds(dec.hir["params"][0])), "data")
    # encoder: the first four bytes appended to the output (push x4, or extend_from_slice(&n.to_be_bytes()))
    top = hirq.strip(ebody).get("stmts") or []
    pushes = []
    whole = None
    for st_ in top:
        for x in hirq.walk(st_, into_closures=False):
            if x.get("k") == "mcall" and x["m"] == "push" and len(pushes) < 4 and whole is None:
                pushes.append(x["args"][0])
            elif x.get("k") == "mcall" and x["m"] in ("extend_from_slice", "extend") and not pushes and whole is None:
                inner = [y for y in hirq.walk(x["args"][0]) if y.get("k") == "mcall" and y["m"] in ("to_be_bytes", "to_le_bytes")]
                if inner:
                    whole = inner[0]
        if len(pushes) >= 4 or whole is not None:
            break
        if st_.get("k") in ("while", "loop", "for"):
            break
    # decoder: `let mut v = 0; v |= (data[i] as u32) << k; ...` or from_be_bytes([..])
    acc = None
    steps = []
    direct = None
    for st_ in hirq.strip(dbody).get("stmts") or []:
        if st_.get("k") == "let" and st_["pat"].get("k") == "bind" and st_.get("init") is not None:
            i0 = hirq.strip(st_["init"])
            if i0.get("k") == "call" and re.search(r"::from_(be|le)_bytes$", i0.get("fn") or "") and direct is None and acc is None:
                direct = (st_["pat"]["name"], i0)
                break
            if hirq.lit_int(i0) == 0 and acc is None:
                acc = st_["pat"]["name"]
                continue
        if acc is not None:
            x = st_ if st_.get("k") == "assignop" else (st_.get("e") if st_.get("k") in ("semi", "expr") else None)
            if x is not None and x.get("k") == "assignop" and hirq.render(x["l"]) == acc:
                steps.append(x)
                continue
            if steps:
                break
    if (len(pushes) < 4 and whole is None) or (not steps and direct is None):
        ctx.bad(R, "sparse-header|shape", dec.where, "header code not recognised (encoder pushes: %d, decoder steps: %d)" % (len(pushes), len(steps)), "shape changed")
        return
    bad = None
    try:
        for N in (0, 1, 0x12, 0x1234, 0x8001, 0x10000, 0x123456, 0x12345678, 0xFFFFFFFF):
            lf = (lambda r_, N=N: N if r_ == "%s.len()" % ep else None)
            if whole is not None:
                v = _ival(whole["recv"], {"__leaf__": lf, "__ty__": mpq.ty}, elets) & 0xFFFFFFFF
                hdr = list(v.to_bytes(4, "big" if whole["m"] == "to_be_bytes" else "little"))
            else:
                hdr = [_ival(e, {"__leaf__": lf, "__ty__": mpq.ty}, elets) & 0xFF for e in pushes[:4]]
            dl = (lambda r_, hdr=hdr: (hdr[int(re.fullmatch(r"%s\[(\d)\]" % re.escape(dp), r_).group(1))] if re.fullmatch(r"%s\[(\d)\]" % re.escape(dp), r_) and int(re.fullmatch(r"%s\[(\d)\]" % re.escape(dp), r_).group(1)) < 4 else None))
            if direct is not None:
                arr = hirq.strip(direct[1]["args"][0])
                bs = [_ival(e, {"__leaf__": dl, "__ty__": mpq.ty}, {}) for e in arr.get("es") or []]
                got = int.from_bytes(bytes(bs), "big" if direct[1]["fn"].endswith("from_be_bytes") else "little")
            else:
                got = 0
                for x in steps:
                    val = _ival(x["r"], {"__leaf__": dl, "__ty__": mpq.ty, acc: got}, {})
                    op = x.get("op")
                    got = (got | val) if op in ("|", "|=", "BitOr") else (got + val) if op in ("+", "+=", "Add") else (got ^ val) if op in ("^", "^=", "BitXor") else None
                    if got is None:
                        raise _NoEval("operator %s" % op)
                got &= 0xFFFFFFFF
            if got != N and bad is None:
                bad = (N, hdr, got)
    except (_NoEval, AttributeError, TypeError) as e:
        ctx.bad(R, "sparse-header|not-evaluable", dec.where, "header code not evaluable: %s" % e, "shape changed")
        return
    if bad:
        ctx.bad(R, "sparse-header|byte-order", dec.where, "a %d-byte block is announced by the encoder as bytes %s, which the decoder reads as %d" % (bad[0], " ".join("%02X" % b for b in bad[1]), bad[2]),
                "the decoder refuses (or mis-sizes) every block whose length uses the disagreeing bytes: the compressor's own output of 64 KiB and more is rejected")
    else:
        ctx.ok(R, {"encoder": "push x4" if whole is None else whole["m"], "decoder": "or-steps x%d" % len(steps) if direct is None else "from_bytes", "lengths": 9})


def run(ctx):
    prog = ctx.prog
    mpq = prog.crate("wow_mpq")
    R_disp = ctx.rule("C03.dispatch-symmetric", "each CompressionMethod variant uses the same algorithm module for compression and decompression", floor=10)
    R_multi = ctx.rule("C03.multi-method-order-reversed", "combined methods: ADPCM stage first on compress / last on decompress; compressor's second-stage set ⊆ decompressor's", floor=2)
    R_val = ctx.rule("C03.decoded-size-validated", "every non-passthrough success path of decompress_with_monitor passes validate_decompression_result", floor=1)

    partial_io_rule(ctx, [mpq], "C03", scope=re.compile(r"::compression::"), floor=4)

    # a codec call depends on its arguments only: no process-wide mutable state (a session counter that only grows would make
    # decompress() refuse the compressor's own output after enough history)
    R_state = ctx.rule("C03.codecs-keep-no-state-between-calls", "no static with interior mutability is declared in, or referenced from, the compression module", floor=1)
    from .c09 import INTERIOR
    bad_statics = [s_ for s_ in mpq.items["statics"] if (not s_["freeze"] or INTERIOR.search(s_["ty"]))]
    refs = []
    for f in mpq.fn_list:
        if not f.mir or "::compression::" not in f.path or "::tests::" in f.path:
            continue
        for b in f.mir["blocks"]:
            for st in b["s"]:
                for o in (mirg.rvalue_operands(st[2]) if st[0] == "=" else []):
                    c_ = mirg.op_const(o)
                    if c_ and c_.get("static") and any(s_["path"].endswith(c_["static"].split("::")[-1]) for s_ in bad_statics):
                        refs.append((f, c_["static"]))
            for o in (b["t"].get("a") or []) if b["t"]["k"] == "call" else []:
                c_ = mirg.op_const(o)
                if c_ and c_.get("static") and any(s_["path"].endswith(c_["static"].split("::")[-1]) for s_ in bad_statics):
                    refs.append((f, c_["static"]))
    in_mod = [s_ for s_ in bad_statics if "::compression::" in s_["path"] or "/compression/" in s_["file"]]
    if in_mod or refs:
        w_ = in_mod[0]["path"] if in_mod else refs[0][1]
        ctx.bad(R_state, "compression|static|%s" % w_.split("::")[-1], (("%s:%d" % (in_mod[0]["file"], in_mod[0]["ln"])) if in_mod else refs[0][0].where), "the compression module uses the interior-mutable static `%s`" % w_,
                "state accumulated by earlier calls (a session total that never resets) changes what later calls accept: after enough history decompress() rejects blocks compress() has just produced")
    else:
        ctx.ok(R_state, {"interior_mutable_statics_in_crate": len(bad_statics), "referenced_from_compression": 0})

    # PKWare: (a) the decode loop keeps calling the exploder while it still holds a finished window, even when the input is used up;
    # (b) the encoder of the `pklib` dependency is only handed blocks it can encode (it never slides its 8708-byte work buffer)
    R_pkw = ctx.rule("C03.pkware-decoder-drains-pending-window", "pkware::decompress's loop condition is true in the state (not ended, input consumed, window pending, output incomplete)", floor=1)
    R_pkl = ctx.rule("C03.pkware-encoder-input-bounded", "every call of pklib::implode_bytes is dominated by a comparison of the input length with a constant <= 8708", floor=1)
    from .c10 import _bval, _NoEval
    pd = next((f for f in mpq.fn_list if f.hir and f.kind != "Closure" and norm(f.path).endswith("compression::algorithms::pkware::decompress")), None)
    if pd is None:
        ctx.bad(R_pkw, "pkware::decompress|missing", "-", "function not found", "anchor gone")
    else:
        ctx.saw_fn(pd)
        lp = next((l for l in hirq.find(pd.hir["body"], "loop") if any((c_.get("fn") or "").endswith("explode_block") or c_.get("m") == "explode_block" for c_ in hirq.walk(l) if c_.get("k") in ("call", "mcall"))), None)
        cond = None
        if lp is not None:
            first = hirq.strip(lp["body"])
            first = first if first.get("k") == "if" else next((x for x in (first.get("stmts") or []) + ([first.get("e")] if first.get("e") else []) if isinstance(x, dict) and hirq.strip(x).get("k") == "if"), None)
            cond = hirq.strip(first)["c"] if first is not None else None
        if cond is None:
            ctx.bad(R_pkw, "pkware::decompress|shape", pd.where, "no `while <cond>` loop around explode_block found", "shape changed")
        else:
            def bleaf(r_):
                if r_.endswith(".ended"):
                    return False
                if r_.endswith(".need_swap"):
                    return True
                return None
            try:
                v = _bval(cond, {"__bleaf__": bleaf, "input_pos": 100, "total_output": 4096, "expected_size": 4097, "__leaf__": (lambda r_: 100 if r_.endswith(".len()") else None)}, {})
                if v:
                    ctx.ok(R_pkw, {"loop_condition": hirq.render(cond)[:100]})
                else:
                    ctx.bad(R_pkw, "pkware::decompress|stops-with-window-pending", "%s:%d" % (pd.file, lp.get("ln") or 0), "`%s` is false once the input is consumed although the exploder still holds a finished 4096-byte window" % hirq.render(cond)[:90],
                            "whatever follows a window boundary and fits into the decoder's look-ahead is dropped: a 4097-byte block comes back as 4096 bytes (and the size tolerance of the caller accepts it)")
            except _NoEval as e:
                ctx.bad(R_pkw, "pkware::decompress|not-evaluable", pd.where, "loop condition not evaluable: %s" % e, "shape changed")
    n_imp = 0
    cg_c = mirg.CallGraph([mpq])
    live = cg_c.local_reachable([p_ for p_ in cg_c.fns if norm(p_).endswith("compression::compress::compress")])
    for f in mpq.fn_list:
        if not f.mir or "::tests::" in f.path or f.path not in live:
            continue          # (only what the compressor can reach: `compress_with_options` is dead code)
        for bb, t in mirg.iter_calls(f):
            if not re.search(r"pklib::(implode_bytes|implode)$", norm(mirg.callee(t) or "")):
                continue
            n_imp += 1
            ctx.saw_fn(f)
            cfg_ = mirg.Cfg(f)
            du_ = mirg.DefUse(f)
            bound = None
            for i, b in enumerate(f.mir["blocks"]):
                tt = b["t"]
                if tt["k"] != "switch" or not cfg_.dominates(i, bb) or i == bb:
                    continue
                for _b, k_, p_ in du_.defs.get(mirg.op_local(tt["d"]), []):
                    if k_ == "assign" and p_[2][0] == "bin" and p_[2][1] in ("Gt", "Ge", "Lt", "Le"):
                        consts_ = [mirg.op_int(o) for o in (p_[2][2], p_[2][3])]
                        lens = [o for o in (p_[2][2], p_[2][3]) if mirg.op_local(o) is not None and any(re.search(r"::len$", norm(mirg.callee(c_) or "")) or True for c_ in du_.slice_back(mirg.op_local(o), depth=4)[1])]
                        cv = next((c_ for c_ in consts_ if c_ is not None), None)
                        if cv is not None and lens and cv <= 8708 + 1:
                            bound = cv
            if bound is not None:
                ctx.ok(R_pkl, {"fn": f.path.split("::")[-1], "line": t["ln"], "bound": bound})
            else:
                ctx.bad(R_pkl, "%s|implode-unbounded" % f.path.split("::")[-1], "%s:%d" % (f.file, t["ln"]), "pklib::implode_bytes is called with no preceding bound on the input length",
                        "pklib 0.1.0 encodes the first 8708 bytes of a longer block twice and drops the rest: a well-formed stream of the wrong data (a 10000-byte PKWare file reads back wrong from offset 8708)")
    if n_imp == 0:
        ctx.ok(R_pkl, {"note": "pklib::implode_bytes is not called"})

    # multi-stage blocks: the size handed to an intermediate decoder is an upper bound (`expected_size * 4`), so that decoder must not
    # insist on the exact size
    R_mid = ctx.rule("C03.intermediate-stage-decoder-accepts-a-bound", "every decoder that decompress_multiple_internal calls with a computed bound (`expected_size * k`) does not fail on output length != that argument", floor=2)
    dm = next((f for f in mpq.fn_list if f.hir and f.kind != "Closure" and norm(f.path).endswith("compression::decompress::decompress_multiple_internal")), None)
    if dm is None:
        ctx.bad(R_mid, "decompress_multiple_internal|missing", "-", "function not found", "anchor gone")
    else:
        ctx.saw_fn(dm)
        byp = {f.path: f for f in mpq.fn_list if f.hir and f.kind != "Closure"}
        for c_ in hirq.calls(dm.hir["body"]):
            args = c_.get("args") or []
            bi = next((i for i, a in enumerate(args) if hirq.strip(a).get("k") == "bin" and hirq.strip(a)["op"] == "*" and "expected_size" in hirq.render(a)), None)
            if bi is None:
                continue
            g = byp.get(c_.get("fn"))
            if g is None:
                continue
            pn = [b for p_ in g.hir["params"] for b in hirq.pat_binds(p_)]
            size_p = pn[bi] if bi < len(pn) else None
            exact = next((n for n in hirq.find(g.hir["body"], "if") if size_p and any(x.get("k") == "bin" and x["op"] in ("!=", "==") and re.search(r"\b%s\b" % re.escape(size_p), hirq.render(x)) and ".len()" in hirq.render(x) for x in hirq.walk(n["c"])) and
                          any(x.get("k") == "ret" and "Err" in hirq.render(x.get("e")) for x in hirq.walk(n["then"]))), None)
            inst = {"stage_decoder": (c_.get("fn") or "").split("::")[-2:] , "bound": hirq.render(args[bi])[:30]}
            if exact is None:
                ctx.ok(R_mid, inst)
            else:
                ctx.bad(R_mid, "decompress_multiple_internal|%s" % "::".join((c_.get("fn") or "").split("::")[-2:]), "%s:%d" % (dm.file, c_.get("ln") or 0),
                        "`%s` is given the bound `%s` but fails unless its output is exactly that long (`%s`)" % ("::".join((c_.get("fn") or "").split("::")[-2:]), hirq.render(args[bi])[:30], hirq.render(exact["c"])[:50]),
                        "every block of that method combination is refused by the decompressor although the compressor produces it")

    # the limits a block must respect are the ones security::validate_* states, and the compressor checks its output against those
    # before emitting it.  A decoder that configures a limit of its own into the library it calls (a memory / output cap in an options
    # struct) refuses blocks the compressor was allowed to write.
    R_own = ctx.rule("C03.decoders-configure-no-limit-of-their-own", "no decoder in compression::algorithms calls a third-party decoder through an options value that sets a limit field (memlimit / max_* / *_limit) to Some(..) or a constant", floor=5)
    for f in mpq.fn_list:
        if not f.hir or f.kind == "Closure" or not re.search(r"compression::algorithms::\w+::decompress", f.path):
            continue
        ext = [c_ for c_ in hirq.walk(f.hir["body"]) if c_.get("k") in ("call", "mcall") and re.match(r"(lzma_rs|flate2|bzip2|pklib|implode|explode)", c_.get("fn") or "")]
        if not ext:
            continue
        ctx.saw_fn(f)
        lim = None
        for n in hirq.walk(f.hir["body"]):
            if n.get("k") != "struct":
                continue
            for nm, e in n.get("fields") or []:
                if re.search(r"limit|^max_|_max$", nm) and not re.fullmatch(r"(core::option::)?(Option::)?None", hirq.render(e).strip()):
                    lim = (nm, hirq.render(e)[:40], (e or {}).get("ln") or n.get("ln") or 0)
        inst = {"decoder": f.path.split("algorithms::")[1], "calls": sorted({(c_.get("fn") or "").split("<")[0] for c_ in ext})[:3]}
        if lim is None:
            ctx.ok(R_own, inst)
        else:
            ctx.bad(R_own, "%s|own-limit|%s" % (f.path.split("algorithms::")[1], lim[0]), "%s:%d" % (f.file, lim[2]), "the decoder sets `%s: %s` on the library decoder it calls" % (lim[0], lim[1]),
                    "the compressor validates its output against security::validate_* only: blocks it emits within those limits but beyond this private one are refused when read back (for LZMA the window grows with the output: every block larger than the cap)")

    never_expands_rule(ctx, mpq, "C03")
    fns = {norm(f.path): f for f in mpq.fn_list if f.kind != "Closure" and f.hir}
    comp = fns.get(C + "compress::compress")
    ci = fns.get(C + "compress::compress_internal")
    dm = fns.get(C + "decompress::decompress_with_monitor")
    if ci is None or dm is None:
        ctx.bad(R_disp, "dispatch|missing", "-", "dispatcher not found", "anchor gone")
    else:
        ctx.saw_fn(ci)
        ctx.saw_fn(dm)
        ct, dt = variant_table(ci), variant_table(dm)
        for v in sorted(set(ct) | set(dt)):
            a, b = ct.get(v), dt.get(v)
            key = "dispatch|%s" % v
            if a is None or b is None:
                ctx.bad(R_disp, key, (ci if a is None else dm).where, "variant %s handled by %s only" % (v, "the decompressor" if a is None else "the compressor"),
                        "data compressed with this selector cannot be read back (or vice versa)")
            elif a[0] != b[0]:
                ctx.bad(R_disp, key, dm.where, "%s compresses with algorithms::%s but decompresses with algorithms::%s" % (v, a[0], b[0]), "compress→decompress does not invert")
            elif a[0] == "adpcm" and a[1].replace("compress_", "") != b[1].replace("decompress_", ""):
                ctx.bad(R_disp, key, dm.where, "%s: %s vs %s" % (v, a[1], b[1]), "mono/stereo mismatch corrupts channel interleaving")
            else:
                ctx.ok(R_disp, {"variant": v, "module": a[0]})

    cm = fns.get(C + "compress::compress_multiple")
    dmi = fns.get(C + "decompress::decompress_multiple_internal")
    if cm is None or dmi is None:
        ctx.bad(R_multi, "multi|missing", "-", "multi-method functions not found", "anchor gone")
    else:
        ctx.saw_fn(cm)
        ctx.saw_fn(dmi)
        cc = algo_calls(cm.hir["body"], stages_only=True)
        dc = algo_calls(dmi.hir["body"], stages_only=True)
        c_ad = [ln for m, f, ln in cc if m == "adpcm"]
        c_ot = [ln for m, f, ln in cc if m != "adpcm"]
        d_ad = [ln for m, f, ln in dc if m == "adpcm"]
        d_ot = [ln for m, f, ln in dc if m != "adpcm"]
        if c_ad and c_ot and d_ad and d_ot and max(c_ad) < min(c_ot) and min(d_ad) > max(d_ot):
            ctx.ok(R_multi, {"compress_order": "adpcm → entropy stage", "decompress_order": "entropy stage → adpcm"})
        else:
            ctx.bad(R_multi, "multi|order", dmi.where, "compress: adpcm@%s others@%s; decompress: adpcm@%s others@%s" % (c_ad, c_ot, d_ad, d_ot),
                    "stages are not undone in reverse order: combined-method sectors decode to garbage")
        cset = {m for m, f, ln in cc if m != "adpcm"}
        dset = {m for m, f, ln in dc if m != "adpcm"}
        if cset <= dset:
            ctx.ok(R_multi, {"compressor_second_stage": sorted(cset), "decompressor_second_stage": sorted(dset)})
        else:
            ctx.bad(R_multi, "multi|coverage", dmi.where, "compressor can emit %s which the decompressor does not undo" % sorted(cset - dset), "own output rejected or mis-decoded")

    if dm is not None:
        cfg = mirg.Cfg(dm)
        vblocks = [bb for bb, t in mirg.iter_calls(dm) if (ncallee(t) or "").endswith("security::validate_decompression_result")]
        exits = rules.success_exit_blocks(dm)
        der = rules.Derive(dm)
        bad = []
        for bb, kind, payload in exits:
            okp, _ = cfg.must_pass(vblocks, [bb])
            if okp:
                continue
            # passthrough: Ok(data.to_vec()) of the input parameter
            if kind == "ok" and payload[0] == "=":
                ops = payload[2][2]
                roots = der.roots(ops[0]) if ops else []
                if any(k == "call" and w.endswith("to_vec") for k, w, d in roots) and any(k == "param" and w[0] == 1 for k, w, d in roots):
                    continue
            bad.append(bb)
        if not vblocks:
            ctx.bad(R_val, "decompress_with_monitor|no-validation", dm.where, "validate_decompression_result is not called", "a decoder returning the wrong number of bytes is accepted")
        elif bad:
            ctx.bad(R_val, "decompress_with_monitor|unvalidated-exit", dm.where, "success exit bb%s bypasses validate_decompression_result" % bad, "decoded size is not checked on that path")
        else:
            ctx.ok(R_val, {"validated_exits": len(exits)})

    # sparse codec: interval analysis of the run-length emitters against the decoder's 7-bit length field
    R_sparse = ctx.rule("C03.sparse-run-lengths-fit-marker", "every run length the sparse encoder packs into a marker byte is provably <= what the decoder's 7-bit field can express (upper-bound propagation through the chunking loops)", floor=2)
    sp_c = fns.get(C + "algorithms::sparse::compress")
    sp_d = fns.get(C + "algorithms::sparse::decompress")
    if sp_c is None or sp_d is None:
        ctx.bad(R_sparse, "sparse|missing", "-", "sparse codec not found", "anchor gone")
    else:
        ctx.saw_fn(sp_c)
        ctx.saw_fn(sp_d)
        # decoder biases: length = (b & 0x7F) + BIAS in the zero arm and the literal arm
        biases = {}
        def masks_with(e, k_):
            """`x & K` / `K & x` with K a literal or a named constant"""
            e = hirq.strip(e)
            while e.get("k") == "cast":
                e = hirq.strip(e["e"])
            return e.get("k") == "bin" and e["op"] == "&" and (hirq.const_int(e["l"]) == k_ or hirq.const_int(e["r"]) == k_)
        for n in hirq.find(sp_d.hir["body"], "if"):
            cnd = hirq.strip(n["c"])
            if cnd.get("k") == "bin" and cnd["op"] in ("!=", "==") and (masks_with(cnd["l"], 0x80) or masks_with(cnd["r"], 0x80)) and 0 in (hirq.const_int(cnd["l"]), hirq.const_int(cnd["r"])):
                set_arm, clear_arm = (n["then"], n.get("else")) if cnd["op"] == "!=" else (n.get("else"), n["then"])
                for arm, name in ((set_arm, "literal"), (clear_arm, "zero")):
                    if arm is None:
                        continue
                    for x in hirq.walk(arm):
                        if x.get("k") == "bin" and x["op"] == "+":
                            for a_, b_ in ((x["l"], x["r"]), (x["r"], x["l"])):
                                if masks_with(a_, 0x7F) and hirq.const_int(b_) is not None and name not in biases:
                                    biases[name] = hirq.const_int(b_)
        if set(biases) != {"literal", "zero"}:
            ctx.bad(R_sparse, "sparse|decoder-shape", sp_d.where, "decoder length formulas not recognised (%s)" % biases, "cannot relate encoder and decoder")
        else:
            INF = 10 ** 9

            def cmp_const(c, var):
                c = hirq.strip(c)
                if c.get("k") == "bin" and c["op"] in (">", ">=", "<", "<=") and hirq.render(hirq.strip(c["l"])) == var and hirq.lit_int(c["r"]) is not None:
                    return c["op"], hirq.lit_int(c["r"])
                return None

            def dec_of(block, var):
                for x in hirq.walk(block):
                    if x.get("k") == "assignop" and x["op"].startswith("-") and hirq.render(hirq.strip(x["l"])) == var and hirq.lit_int(x["r"]) is not None:
                        return hirq.lit_int(x["r"])
                return None

            def scan(stmts, var, ub, out):
                for st_ in stmts:
                    k = st_.get("k")
                    if k == "loop":
                        # while var > A { ..; var -= B }
                        inner = next((x for x in hirq.find(st_["body"], "if")), None)
                        cc = cmp_const(inner["c"], var) if inner else None
                        if cc and cc[0] in (">", ">=") and dec_of(inner["then"], var):
                            a = cc[1] if cc[0] == ">" else cc[1] - 1
                            ub = min(ub, a) if ub != INF else a
                            continue
                    if k == "if":
                        cc = cmp_const(st_["c"], var)
                        if cc and cc[0] in (">", ">="):
                            thr = cc[1] if cc[0] == ">" else cc[1] - 1
                            d = dec_of(st_["then"], var)
                            emits = [x for x in hirq.walk(st_["then"]) if x.get("k") == "mcall" and x["m"] == "push" and var in hirq.render(x["args"][0])]
                            for e in emits:
                                m2 = re.search(r"\(%s - (\d+)\)" % re.escape(var), hirq.render(e["args"][0]))
                                if m2:
                                    out.append((e["ln"], ub, int(m2.group(1)), hirq.render(e["args"][0])))
                            if d and not emits:
                                ub = max(min(ub, thr), ub - d) if ub != INF else INF
                            continue
                        # other ifs: recurse
                        sub = hirq.strip(st_["then"])
                        ub = scan(sub.get("stmts", []) + ([sub["e"]] if sub.get("e") else []), var, ub, out)
                return ub
            body = hirq.strip(sp_c.hir["body"])
            loops = [x for x in hirq.find(body, "loop")]
            outer = loops[0] if loops else None
            found_any = False
            if outer is not None:
                blk = next((x for x in hirq.find(outer["body"], "if")), None)
                stm = hirq.strip(blk["then"]) if blk else {"stmts": []}
                allst = stm.get("stmts", []) + ([stm["e"]] if stm.get("e") else [])
                for var, kind in (("number_of_non_zeros", "literal"), ("number_of_zeros", "zero")):
                    outl = []
                    scan(allst, var, INF, outl)
                    for ln, ub, k_, expr in outl:
                        found_any = True
                        limit = 0x7F + biases[kind]
                        if k_ != biases[kind]:
                            ctx.bad(R_sparse, "sparse|%s|bias" % kind, "%s:%d" % (sp_c.file, ln), "encoder stores `%s` but the decoder adds %d" % (expr, biases[kind]), "run lengths are off by %d after a round trip" % abs(k_ - biases[kind]))
                        elif ub == INF or ub > limit:
                            ctx.bad(R_sparse, "sparse|%s|range" % kind, "%s:%d" % (sp_c.file, ln), "`%s` is emitted with %s <= %s, but the decoder's field only reaches %d (0x7F + %d)" % (expr, var, "unbounded" if ub == INF else hex(ub), limit, biases[kind]),
                                    "for that run length the marker byte overflows into the other marker class: the decoder mis-reads the stream (wrong bytes or an error) although the stored form is shorter than the input")
                        else:
                            ctx.ok(R_sparse, {"kind": kind, "emit": expr, "upper_bound": ub, "decoder_limit": limit})
            if not found_any:
                ctx.bad(R_sparse, "sparse|encoder-shape", sp_c.where, "run-length emitters not recognised", "shape changed")

    compressor_limits_rule(ctx, mpq, "C03")

    sparse_decoder_clamp_rule(ctx, mpq, "C03")
    sparse_header_rule(ctx, mpq, "C03")

    # ADPCM decoder: the channel advances once per *sample*; a marker byte that carries no sample gives its slot back
    R_adp = ctx.rule("C03.adpcm-channel-advances-once-per-sample", "in the ADPCM decode loop every arm of the per-byte decision either emits a sample or restores the channel index it was handed", floor=3)
    ad = fns.get(C + "algorithms::adpcm::decompress_internal")
    if ad is None:
        ctx.bad(R_adp, "adpcm|missing", "-", "decompress_internal not found", "anchor gone")
    else:
        ctx.saw_fn(ad)
        n_arms = 0
        for lp in [x for x in hirq.walk(ad.hir["body"]) if x.get("k") == "block" and x.get("stmts")]:
            body_ = lp
            stmts = lp["stmts"]
            items = stmts + ([lp["e"]] if lp.get("e") else [])
            # the channel cursor: the local advanced cyclically at this level (`ch = (ch + 1) % channel_count`), whatever it is called
            chan = None
            for st in stmts:
                if st.get("k") == "assign" and hirq.strip(st["l"]).get("k") == "path":
                    nm_ = hirq.strip(st["l"])["res"].get("local")
                    r0 = hirq.strip(st["r"])
                    if nm_ and r0.get("k") == "bin" and r0["op"] == "%" and re.search(r"\b%s\b" % re.escape(nm_), hirq.render(r0["l"])) and "+" in hirq.render(r0["l"]):
                        chan = nm_
            if chan is None:
                continue

            def emits_(n_):
                return any((c.get("fn") or "").endswith("write_sample") or (c.get("k") == "mcall" and c["m"] in ("push", "extend_from_slice") and "output" in hirq.render(c["recv"])) for c in hirq.walk(n_) if c.get("k") in ("call", "mcall"))
            # the per-byte decision: the first if-chain / match at this level with an arm that emits a sample
            chain = next((st for st in items if st and st.get("k") in ("if", "match") and emits_(st)), None)
            if chain is None:
                continue
            arms = []
            if chain.get("k") == "match":
                for a_ in chain["arms"]:
                    arms.append((hirq.render_pat(a_["pat"])[:40], a_["body"]))
            n = chain if chain.get("k") == "if" else None
            while n is not None and n.get("k") == "if":
                arms.append((hirq.render(n["c"])[:40], n["then"]))
                e = n.get("else")
                e = hirq.strip(e) if e is not None else None
                if e is not None and e.get("k") == "block" and not e.get("stmts") and e.get("e") is not None and hirq.strip(e["e"]).get("k") == "if":
                    e = hirq.strip(e["e"])
                if e is not None and e.get("k") == "if":
                    n = e
                else:
                    if e is not None:
                        arms.append(("else", e))
                    n = None
            for label, arm in arms:
                n_arms += 1
                emits = any((c.get("fn") or "").endswith("write_sample") or (c.get("k") == "mcall" and c["m"] in ("push", "extend_from_slice") and "output" in hirq.render(c["recv"])) for c in hirq.calls(arm)) or \
                    any(c.get("k") == "mcall" and c["m"] in ("push", "extend_from_slice") and "output" in hirq.render(c["recv"]) for c in hirq.walk(arm))
                restores = any(x.get("k") in ("assign", "assignop") and hirq.render(hirq.strip(x["l"])) == chan for x in hirq.walk(arm))
                if emits != restores:
                    ctx.ok(R_adp, {"arm": label, "emits_sample": emits, "restores_channel": restores})
                else:
                    ctx.bad(R_adp, "adpcm|arm|%s" % re.sub(r"\W+", "_", label), "%s:%d" % (ad.file, arm.get("ln") or lp.get("ln") or ad.lo), "arm `%s`: emits a sample = %s, restores the channel index = %s" % (label, emits, restores),
                            "a marker that carries no sample consumes a channel slot (or a sample does not): from there on the two channels' predictor states are swapped — stereo data does not decode to what was encoded")
        if n_arms == 0:
            ctx.bad(R_adp, "adpcm|shape", ad.where, "decode loop / per-byte decision not recognised", "shape changed")

    # PKWare: the literal mode the compressor emits is one the decoder accepts; the decoder turns the unsupported mode into an error
    R_pk = ctx.rule("C03.pkware-mode-supported-by-decoder", "pkware::compress emits the binary literal mode; pkware::decompress rejects a mode byte of 1 (ASCII, unimplemented in the exploder) and a dictionary-size byte outside 4..=6 with an error before exploding", floor=3)
    pkc = fns.get(C + "algorithms::pkware::compress")
    pkd = fns.get(C + "algorithms::pkware::decompress")
    if pkc is None or pkd is None:
        ctx.bad(R_pk, "pkware|missing", "-", "pkware codec not found", "anchor gone")
    else:
        ctx.saw_fn(pkc)
        ctx.saw_fn(pkd)
        modes = set()
        for c_ in hirq.calls(pkc.hir["body"]):
            if (c_.get("fn") or "").endswith("implode_bytes"):
                for a_ in c_["args"]:
                    for x in hirq.walk(a_):
                        if x.get("k") == "path" and "CompressionMode::" in x["res"].get("def", ""):
                            modes.add(x["res"]["def"].split("::")[-1])
        guard = False
        first_explode = min([c_["ln"] for c_ in hirq.walk(pkd.hir["body"]) if c_.get("k") == "mcall" and c_["m"] == "explode_block"] or [10 ** 9])
        for n in hirq.find(pkd.hir["body"], "if"):
            cr = hirq.render(n["c"])
            if re.search(r"\[0\] == 1|== 1\b.*\[0\]", cr) and n["ln"] < first_explode and any(x.get("k") == "ret" and "Err" in hirq.render(x.get("e")) for x in hirq.walk(n["then"])):
                guard = True
        if modes and modes <= {"Binary"}:
            ctx.ok(R_pk, {"compress_mode": sorted(modes)})
        else:
            ctx.bad(R_pk, "pkware|mode", pkc.where, "compress emits literal mode %s" % (sorted(modes) or "?"), "the exploder behind decompress() implements binary mode only: the codec's own output panics (unimplemented!) when read back")
        # ... and the dictionary-size byte (stream byte 1): the exploder uses it as a shift count and as a window reach, so a failing guard
        # that reads byte 1 (data[1] / data.get(1)) and mentions a range or comparison with small constants precedes the first explode call
        dict_guard = False
        for n in hirq.find(pkd.hir["body"], "if"):
            if n["ln"] >= first_explode or not any(x.get("k") == "ret" and "Err" in hirq.render(x.get("e")) for x in hirq.walk(n["then"])):
                continue
            cnodes = list(hirq.walk(n["c"]))
            reads1 = any((x.get("k") == "index" and hirq.const_int(x["i"]) == 1) or (x.get("k") == "mcall" and x["m"] == "get" and x.get("args") and hirq.const_int(x["args"][0]) == 1) for x in cnodes)
            ks = {hirq.const_int(x) for x in cnodes if x.get("k") == "lit"} - {None}
            if reads1 and ({4, 6} <= ks or {3, 7} <= ks or {6} <= ks):
                dict_guard = True
        if dict_guard:
            ctx.ok(R_pk, {"decoder_validates_dictionary_bits": True})
        else:
            ctx.bad(R_pk, "pkware|dict-bits-guard", pkd.where, "decompress does not validate the dictionary-size byte (stream byte 1, legal values 4..=6) before calling the exploder",
                    "the exploder takes that byte verbatim as a shift count and as the reach of a back-reference: values above 6 panic inside the dependency (subtraction overflow / shift overflow) — a 6-byte stream aborts Archive::read_file")
        if guard:
            ctx.ok(R_pk, {"decoder_rejects_ascii_mode": True})
        else:
            ctx.bad(R_pk, "pkware|ascii-guard", pkd.where, "decompress does not reject mode byte 1 before calling the exploder", "an ASCII-mode stream (any hostile block starting with 0x01) reaches unimplemented!() in the dependency: panic instead of an error")
