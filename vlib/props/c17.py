"""C17 — DBC tables survive write→parse and all access paths agree.

Sibling agreement: the per-FieldType width is the same in FieldType::size, the shared decoder
parse_field_value, the writer's write_value and its default-value arm; the header is written in the
order and widths it is read; the writer's field_count is computed like the validator's (array
elements counted); every access path (eager, lazy, mmap, parallel) decodes typed fields only by
forwarding to field_parser::parse_field_value; string interning inserts only when absent.
"""
import re

from .. import hirq, wire, mirg, rules
from ..rules import norm, ncallee

META = {
    "quick_configs": ["default", "allfeat"],   # the mmap and parallel access paths only exist with their cargo features on
    "level": "other",
    "technique": "per-variant width tables extracted from match arms (typed HIR, wire widths) compared across four sibling functions + header wire agreement + who-may-call on the shared decoder",
    "claim": "Decides that all nine FieldType variants have one width across size/decode/encode/default tables, that header write order/widths equal header read, that the written field_count follows the validator's counting rule, that all access paths share one decoder, and that string interning is insert-if-absent. Does not compare values or key lookups. Also: no element-dropping adapter on any access path; the writer passes header, records and string block on every success path; the declared string-block size is enforced; every access path locates the string block by the header formula; the key map stores record indices. Wave 5: random access strides by header.record_size; string-collector arms are unguarded; pre-allocation caps bound only the allocation. Wave 6: every per-record decoder builds Value::Array exactly when the field is an array (sizes None,0,1,2,3); Schema::validate rejects key index i iff i >= field count. Wave 7: record_size is the plain sum of the field sizes. Wave 8: the key index is built whenever the schema names a key; every string resolver accepts every offset inside the block.",
    "note": "Trusted: to_le_bytes/read_exact widths from operand types.",
    "assumptions": ["record layout = concatenation of field encodings in schema order"],
    "explanation": "FieldType::size, field_parser::parse_field_value, DbcWriter::write_value + default arm, DbcHeader::parse vs DbcWriter header block, Schema::validate vs writer field_count, the four parse_field_value forwarders, build_string_block.",
}

C = "wow_cdbc"


def variant_of(pat):
    """FieldType variant named by a pattern (possibly inside a tuple pattern)"""
    if pat.get("k") in ("path", "ts", "struct"):
        d = pat["res"].get("def", "")
        if "FieldType::" in d:
            return d.split("::")[-1]
    for s in pat.get("subs", []) or []:
        v = variant_of(s)
        if v:
            return v
    return None


def arm_tables(crate, fn, mode):
    """[{variant: width}] for every match over FieldType in fn"""
    out = []
    for m in hirq.find(fn.hir["body"], "match"):
        tab = {}
        for arm in m["arms"]:
            vs = []
            p = arm["pat"]
            if p.get("k") == "or":
                vs = [variant_of(s) for s in p["subs"]]
            else:
                vs = [variant_of(p)]
            vs = [v for v in vs if v]
            if not vs:
                continue
            body = hirq.strip(arm["body"])
            w = hirq.lit_int(body)
            if w is None:
                ex = wire.Extractor(crate, mode)
                toks = wire.specialise(ex.emit(arm["body"]), {})
                w = 0
                ok = True
                for t in toks:
                    if t.k == "P" or (t.k == "B" and t.w is not None):
                        w += t.w
                    elif t.k == "B":
                        # write_all(&[x]) of a one-element array literal
                        ok = False
                    else:
                        ok = False
                if not ok or not toks:
                    # `&[*v]` / `&[0u8]` array literal of n bytes
                    arr = [x for x in hirq.walk(arm["body"]) if x.get("k") == "array"]
                    if arr and all(len(a["es"]) for a in arr):
                        w = sum(len(a["es"]) for a in arr)
                    else:
                        w = None
            for v in vs:
                tab[v] = w
        if len(tab) >= 5:
            out.append((m["ln"], tab))
    return out


def string_block_size_enforced(ctx, c, pid):
    """the string-block size announced by the header is enforced on read: an exact read into a buffer of that size, or a
    comparison of the bytes actually read with it (shared by C17 — size formula — and C20 — truncated input must fail)"""
    R = ctx.rule("%s.declared-string-block-size-enforced" % pid, "StringBlock::parse reads exactly `size` bytes (read_exact into a buffer of that length) or compares the length it got with `size` and fails", floor=1)
    f = next((f for f in c.fn_list if f.hir and f.kind != "Closure" and norm(f.path) == "wow_cdbc::stringblock::StringBlock::parse"), None)
    if f is None:
        ctx.bad(R, "StringBlock::parse|missing", "-", "function not found", "anchor gone")
        return
    ctx.saw_fn(f)
    body = f.hir["body"]
    names = [b for p in f.hir["params"] for b in hirq.pat_binds(p)]
    size = next((n for n in names if "size" in n or "len" in n), None)
    lets = {l["pat"]["name"]: l["init"] for l in hirq.find(body, "let") if l["pat"].get("k") == "bind" and l.get("init") is not None}

    def mentions(n, nm, depth=0):
        for x in hirq.walk(n):
            if x.get("k") == "path" and x["res"].get("local") == nm:
                return True
            if x.get("k") == "path" and x["res"].get("local") in lets and depth < 3 and mentions(lets[x["res"]["local"]], nm, depth + 1):
                return True
        return False
    local_fns = {g.path: g for g in c.fn_list if g.hir and g.kind != "Closure"}

    def enforced(body_, size_, depth=0):
        lets_ = {l["pat"]["name"]: l["init"] for l in hirq.find(body_, "let") if l["pat"].get("k") == "bind" and l.get("init") is not None}

        def ment(n, nm, d=0):
            for x in hirq.walk(n):
                if x.get("k") == "path" and x["res"].get("local") == nm:
                    return True
                if x.get("k") == "path" and x["res"].get("local") in lets_ and d < 3 and ment(lets_[x["res"]["local"]], nm, d + 1):
                    return True
            return False
        ex = cp = False
        for c_ in hirq.walk(body_):
            if c_.get("k") == "mcall" and c_["m"] == "read_exact" and c_.get("args"):
                buf = hirq.strip(c_["args"][0])
                if buf.get("k") == "path" and buf["res"].get("local") in lets_:
                    init = lets_[buf["res"]["local"]]
                    if any((x.get("fn") or "").endswith("from_elem") and ment(x, size_) for x in hirq.calls(init)):
                        ex = True
        for n in hirq.find(body_, "if"):
            cnd = n["c"]
            if ment(cnd, size_) and ".len()" in hirq.render(cnd) and any(x.get("k") in ("ret", "try") or "Err" in hirq.render(x) for x in hirq.walk(n["then"])):
                cp = True
        if not (ex or cp) and depth < 2:
            for c_ in hirq.calls(body_):
                callee = local_fns.get(c_.get("fn"))
                if callee is None or callee.hir["body"] is body_:
                    continue
                pn = [b for p_ in callee.hir["params"] for b in hirq.pat_binds(p_)]
                args = ([c_["recv"]] if c_.get("k") == "mcall" else []) + list(c_.get("args") or [])
                for nm_, a_ in zip(pn, args):
                    if ment(a_, size_):
                        e2, c2 = enforced(callee.hir["body"], nm_, depth + 1)
                        ex, cp = ex or e2, cp or c2
        return ex, cp
    exact, compared = enforced(body, size) if size else (False, False)
    if exact or compared:
        ctx.ok(R, {"fn": norm(f.path), "exact_read": exact, "length_compared": compared})
    else:
        ctx.bad(R, "StringBlock::parse|size-not-enforced", f.where, "`%s` neither sizes a read_exact buffer nor is compared with the number of bytes read" % size,
                "a table truncated inside its string block parses successfully with a short block: later string references resolve to cut-off text or fail lazily, `dbc validate/info/export` exit 0 on a truncated file, and the size formula header + records + strings no longer describes the file")


def run(ctx):
    prog = ctx.prog
    c = prog.crate(C)
    from .c15 import prealloc_cap_rule
    prealloc_cap_rule(ctx, [c], "C17", floor=2)
    # random access: the n-th record starts n * header.record_size bytes after the header, whatever the schema says about fields
    R_stride = ctx.rule("C17.random-access-stride-is-record-size", "every record position computed as `index * stride` for a seek / set_position uses stride = header.record_size", floor=1)
    for f in c.fn_list:
        if not f.hir or f.kind == "Closure" and False or "::tests::" in f.path or not re.search(r"::(lazy|parallel|mmap|parser|cache)::", f.path):
            continue
        body = f.hir["body"]
        root_body = body
        for x in hirq.walk(body):
            tgt = None
            if x.get("k") == "mcall" and x["m"] == "set_position" and x.get("args"):
                tgt = x["args"][0]
            elif x.get("k") == "call" and (x.get("fn") or "").endswith("SeekFrom::Start") and x.get("args"):
                tgt = x["args"][0]
            if tgt is None:
                continue
            # expand single-assignment locals inside the position expression
            exprs = [tgt]
            seen_l = set()
            while exprs:
                e = exprs.pop()
                for y in hirq.walk(e):
                    if y.get("k") == "path" and "local" in y["res"] and y["res"]["local"] not in seen_l:
                        seen_l.add(y["res"]["local"])
                        exprs += [v for v in hirq.local_values(root_body, y["res"]["local"]) if v is not None]
                    if y.get("k") == "bin" and y["op"] == "*":
                        sides = [y["l"], y["r"]]
                        idx_side = [sd for sd in sides if any(z.get("k") == "path" and re.fullmatch(r"(index|idx|i|record_index|n|row)", z["res"].get("local") or "") for z in hirq.walk(sd))]
                        if len(idx_side) != 1:
                            continue
                        other = sides[1] if idx_side[0] is sides[0] else sides[0]
                        leaves = hirq.value_leaves(root_body, other)
                        names = sorted({(v.get("name") if v is not None and v.get("k") == "field" else ("?" if v is None else hirq.render(v)[:40])) for v in leaves})
                        inst = {"fn": f.path.split("::")[-1], "line": y.get("ln"), "stride": names}
                        if names == ["record_size"]:
                            ctx.ok(R_stride, inst)
                        else:
                            ctx.bad(R_stride, "%s|stride" % f.path.split("::")[-2:][0] + "::" + f.path.split("::")[-1], "%s:%d" % (f.file, y.get("ln") or 0), "record position uses stride `%s`" % ", ".join(names),
                                    "for schemas with 8/16-bit fields (record_size != 4 * field_count) record n is read from the wrong place: another record's bytes, or past the end")

    # every access path decodes an array field as an array and a scalar field as a scalar — whatever the array's length: the
    # condition under which a decoder builds Value::Array is `field.is_array`, evaluated over is_array x array_size in {None,0,1,2,3}
    R_arr = ctx.rule("C17.array-fields-decoded-as-arrays-on-every-path", "in each per-record decoder the branch that builds Value::Array is taken exactly when field.is_array (for array_size None, 0, 1, 2, 3)", floor=3)
    from .c10 import _bval as _bv17, _NoEval as _NE17
    for f in c.fn_list:
        if not f.hir or f.kind == "Closure" or "::tests::" in f.path or not re.search(r"::(lazy|parallel|mmap|parser|cache)::", f.path):
            continue
        body = f.hir["body"]
        for n_ in hirq.find(body, "if"):
            builds_t = any((x.get("k") == "call" and (x.get("fn") or "").endswith("Value::Array")) for x in hirq.walk(n_["then"]))
            builds_e = n_.get("else") is not None and any((x.get("k") == "call" and (x.get("fn") or "").endswith("Value::Array")) for x in hirq.walk(n_["else"]))
            # exactly one arm builds the array (either arm: the test may be spelled negated)
            if builds_t == builds_e or "is_array" not in hirq.render(n_["c"]) and "array_size" not in hirq.render(n_["c"]):
                continue
            lets_ = {l["pat"]["name"]: l["init"] for l in hirq.find(body, "let") if l["pat"].get("k") == "bind" and l.get("init") is not None}
            ctx.saw_fn(f)
            try:
                bad = None
                for isarr in (False, True):
                    for size in (None, 0, 1, 2, 3):
                        def leaf(r_, size=size):
                            m_ = re.search(r"array_size\.unwrap_or\((\d+)\)$", r_)
                            if m_:
                                return int(m_.group(1)) if size is None else size
                            return None
                        got = _bv17(n_["c"], {"__bleaf__": (lambda r_, isarr=isarr: isarr if r_.endswith(".is_array") else None), "__leaf__": leaf}, lets_)
                        got = got if builds_t else not got
                        if got != isarr and bad is None:
                            bad = (isarr, size, got)
                if bad:
                    ctx.bad(R_arr, "%s|array-branch" % "::".join(norm(f.path).split("::")[-2:]), "%s:%d" % (f.file, n_.get("ln") or 0), "with is_array=%s and array_size=%s the decoder %s an array (`%s`)" % (bad[0], bad[1], "builds" if bad[2] else "does not build", hirq.render(n_["c"])[:60]),
                            "this access path returns a bare scalar where the others return a one-element array (or the reverse): the same file reads differently through it")
                else:
                    ctx.ok(R_arr, {"fn": "::".join(norm(f.path).split("::")[-2:]), "cond": hirq.render(n_["c"])[:40]})
            except _NE17 as e:
                ctx.bad(R_arr, "%s|array-branch-not-evaluable" % norm(f.path).split("::")[-1], "%s:%d" % (f.file, n_.get("ln") or 0), "array branch condition not evaluable: %s" % e, "shape changed")

    # the record size the header announces (and every strided access path uses) is the number of bytes write_record emits: the plain
    # sum of the field sizes — no rounding, alignment or minimum applied on top
    R_rsz = ctx.rule("C17.record-size-is-the-plain-sum-of-field-sizes", "Schema::record_size returns fields.iter().map(size).sum() with no further arithmetic or method applied to the sum", floor=1)
    rsf = next((f for f in c.fn_list if f.hir and f.kind != "Closure" and norm(f.path).endswith("schema::Schema::record_size")), None)
    if rsf is None:
        ctx.bad(R_rsz, "Schema::record_size|missing", "-", "function not found", "anchor gone")
    else:
        ctx.saw_fn(rsf)
        tails = [hirq.strip(t_) for t_ in hirq.tails(rsf.hir["body"])] if hasattr(hirq, "tails") else [hirq.strip(rsf.hir["body"])]
        probs = []
        for t_ in tails:
            vals = [t_] + [hirq.strip(v_) for v_ in hirq.value_leaves(rsf.hir["body"], t_) if v_ is not None]
            def is_sum(e):
                if e.get("k") != "mcall" or "fields" not in hirq.render(e["recv"]):
                    return False
                if e["m"] == "sum":
                    return "size" in hirq.render(e["recv"])
                if e["m"] == "fold" and len(e.get("args") or []) == 2 and hirq.const_int(e["args"][0]) == 0:
                    # fold(0, |acc, f| acc + f.size()): the closure adds exactly one size per field and nothing else
                    cl = hirq.strip(e["args"][1])
                    if cl.get("k") != "closure":
                        return False
                    b = hirq.strip(cl["body"])
                    while b.get("k") == "block" and not b.get("stmts") and b.get("e") is not None:
                        b = hirq.strip(b["e"])
                    pn = [x for p_ in cl.get("params", []) or [] for x in hirq.pat_binds(p_)]
                    if b.get("k") == "bin" and b["op"] == "+" and len(pn) == 2:
                        l_, r_ = hirq.render(b["l"]), hirq.render(b["r"])
                        return (l_ == pn[0] and re.fullmatch(r"%s\.size\(\)" % re.escape(pn[1]), r_) is not None) or (r_ == pn[0] and re.fullmatch(r"%s\.size\(\)" % re.escape(pn[1]), l_) is not None)
                return False
            if not any(is_sum(v_) for v_ in vals):
                probs.append("`%s` is not the sum of the field sizes" % hirq.render(t_)[:50])
            for v_ in vals:
                if v_.get("k") == "mcall" and not is_sum(v_) and v_["m"] not in ("into", "try_into", "unwrap", "clone"):
                    probs.append("`.%s(..)` is applied to the sum" % v_["m"])
                if v_.get("k") == "bin":
                    probs.append("`%s` is applied to the sum" % hirq.render(v_)[:40])
        if probs:
            ctx.bad(R_rsz, "Schema::record_size|adjusted", rsf.where, "; ".join(sorted(set(probs))[:3]),
                    "the header (and every lazy / mmap / parallel stride) announces larger records than write_record packs: eager read-back runs into the string block, the other paths return shifted records, and correctly packed files of other tools are rejected")
        else:
            ctx.ok(R_rsz, {"fn": "Schema::record_size", "value": "sum of field sizes"})

    # Schema::validate accepts a key index exactly when it names a field: index < fields.len()
    R_key = ctx.rule("C17.key-index-bound-is-the-field-count", "Schema::validate rejects key index i for a schema of n fields iff i >= n (n in 1..=5, i in 0..=6)", floor=1)
    sv = next((f for f in c.fn_list if f.hir and f.kind != "Closure" and norm(f.path).endswith("schema::Schema::validate")), None)
    if sv is None:
        ctx.bad(R_key, "Schema::validate|missing", "-", "function not found", "anchor gone")
    else:
        ctx.saw_fn(sv)
        kb = next((n_ for n_ in hirq.find(sv.hir["body"], "if") if "index" in hirq.render(n_["c"]) and any(x.get("k") == "ret" and "Err" in hirq.render(x.get("e")) for x in hirq.walk(n_["then"])) and re.search(r"len\(\)|max", hirq.render(n_["c"]))), None)
        if kb is None:
            ctx.bad(R_key, "Schema::validate|no-key-check", sv.where, "no bound check on the key field index found", "a key index beyond the fields is accepted (later lookups index out of bounds), or the shape changed")
        else:
            lets_ = {l["pat"]["name"]: l["init"] for l in hirq.find(sv.hir["body"], "let") if l["pat"].get("k") == "bind" and l.get("init") is not None}
            try:
                bad = None
                for n in range(1, 6):
                    for i in range(0, 7):
                        got = _bv17(kb["c"], {"index": i, "__leaf__": (lambda r_, n=n: n if r_.endswith("fields.len()") else None)}, lets_)
                        if got != (i >= n) and bad is None:
                            bad = (i, n, got)
                if bad:
                    ctx.bad(R_key, "Schema::validate|key-bound", "%s:%d" % (sv.file, kb.get("ln") or 0), "key index %d of a %d-field schema is %s (`%s`)" % (bad[0], bad[1], "rejected" if bad[2] else "accepted", hirq.render(kb["c"])[:50]),
                            "a table keyed on its last field is written but cannot be parsed back with the same schema (or an index beyond the fields is accepted)")
                else:
                    ctx.ok(R_key, {"cond": hirq.render(kb["c"])[:50], "evaluations": 35})
            except _NE17 as e:
                ctx.bad(R_key, "Schema::validate|key-bound-not-evaluable", sv.where, "key bound not evaluable: %s" % e, "shape changed")

    R_w = ctx.rule("C17.field-width-tables-agree", "each FieldType variant has the same width in size(), the decoder, the encoder and the default-value arm", floor=4)
    R_h = ctx.rule("C17.header-write-equals-read", "header fields are written in the order and widths they are read", floor=1)
    R_fc = ctx.rule("C17.field-count-rule-agrees", "the writer's field_count counts array elements exactly as Schema::validate does", floor=1)
    R_dec = ctx.rule("C17.single-shared-decoder", "every access path's typed decoding forwards to field_parser::parse_field_value and reads no primitive itself", floor=3)
    R_str = ctx.rule("C17.string-interning-insert-if-absent", "build_string_block adds a string only when it is not yet in the offset map", floor=1)

    fns = {norm(f.path): f for f in c.fn_list if f.kind != "Closure" and f.hir}

    # access paths return every record: no element-dropping adapter on the record pipeline
    R_drop = ctx.rule("C17.access-paths-drop-no-record", "no flatten / filter / filter_map / take / skip / step_by / *_while / chunks_exact-style adapter in the eager, lazy, mmap or parallel record pipelines", floor=6)
    DROP = re.compile(r"::(flatten|filter_map|filter|take|skip|step_by|take_while|skip_while|map_while|flat_map|chunks_exact|par_chunks_exact|rchunks_exact|array_chunks|find_map)$")
    control = 0
    for f in c.fn_list:
        if "::tests::" in f.path or not f.mir.get("blocks"):
            continue
        p_ = norm(f.path)
        in_scope = bool(re.match(r"wow_cdbc::(parallel|lazy|mmap)::|wow_cdbc::parser::DbcParser::parse_record", p_))
        hits = [(t["ln"], ncallee(t)) for _bb, t in mirg.iter_calls(f) if DROP.search(ncallee(t) or "") and not t.get("x")]
        control += len(hits)
        if not in_scope:
            continue
        ctx.saw_fn(f)
        if hits:
            ctx.bad(R_drop, "%s|%s" % (re.sub(r"::\{closure#\d+\}", "", p_), hits[0][1].split("::")[-1]), "%s:%d" % (f.file, hits[0][0]), "record pipeline uses `%s`" % hits[0][1].split("::")[-1],
                    "records (a remainder chunk, unparsed slots, filtered entries) are silently left out: this access path returns fewer records than the others, and keyed lookups miss them")
        else:
            ctx.ok(R_drop, {"fn": p_})
    if control == 0:
        ctx.bad(R_drop, "control|adapter-recognition", "-", "the adapter pattern matched no call anywhere in wow_cdbc (positive control: RecordSet::create_sorted_key_map uses filter_map)", "the rule could not see a violation if there were one")

    string_block_size_enforced(ctx, c, "C17")

    # every access path finds the string block where the header formula puts it
    R_sbo = ctx.rule("C17.string-block-located-by-header-formula", "every StringBlock::parse call takes its offset from the header's string_block_offset() (directly or through the parser's stored copy) and its size from string_block_size", floor=2)
    from .c03 import make_inliner as _mk_inl
    for f in c.fn_list:
        if f.kind == "Closure" or not f.hir or "::tests::" in f.path:
            continue
        inl = None
        for cc in hirq.calls(f.hir["body"]):
            if not (cc.get("fn") or "").endswith("stringblock::StringBlock::parse") or len(cc.get("args") or []) != 3:
                continue
            ctx.saw_fn(f)
            lets_ = {l["pat"]["name"]: l["init"] for l in hirq.find(f.hir["body"], "let") if l["pat"].get("k") == "bind" and l.get("init") is not None}

            def deep(n, d=0):
                r_ = hirq.render(n)
                for x in hirq.walk(n):
                    if x.get("k") == "path" and x["res"].get("local") in lets_ and d < 3:
                        r_ += " <= " + deep(lets_[x["res"]["local"]], d + 1)
                return r_
            off, size = deep(cc["args"][1]), deep(cc["args"][2])
            if re.search(r"string_block_offset", off) and re.search(r"string_block_size", size):
                ctx.ok(R_sbo, {"fn": norm(f.path), "offset": off[:60], "size": size[:40]})
            else:
                ctx.bad(R_sbo, "%s|string-block-offset" % norm(f.path).split("::")[-2] + "::" + norm(f.path).split("::")[-1], "%s:%d" % (f.file, cc["ln"]), "the string block is read at `%s` (size `%s`)" % (off[:70], size[:30]),
                        "this access path locates the strings by a rule of its own: for a file with trailing bytes (a smaller table written over a larger one, padding) it resolves every string reference to different text than the other paths")

    # every resolver of a string reference accepts exactly the offsets inside the block (offset < len): the cached and uncached
    # resolvers, and whatever other path resolves a reference, must agree on the last byte (a block whose only content is the
    # terminating NUL — a table with nothing but empty strings — is referenced at offset len-1)
    R_sb = ctx.rule("C17.string-resolvers-accept-every-offset-inside-the-block", "every out-of-bounds guard of a string-block resolver rejects offset o of a block of length n exactly when o >= n (n in 0..=6, o in 0..=7)", floor=2)
    from .c10 import _bval as _bv, _NoEval as _NE
    for f in c.fn_list:
        if f.kind == "Closure" or not f.hir or "::tests::" in f.path or not re.search(r"::get_string$|::string_at$|::resolve_string$", norm(f.path)):
            continue
        body = f.hir["body"]
        lets = {l["pat"]["name"]: l["init"] for l in hirq.find(body, "let") if l["pat"].get("k") == "bind" and l.get("init") is not None}
        for g in hirq.find(body, "if"):
            rets = [x for x in hirq.walk(g["then"]) if x.get("k") == "ret" and "OutOfBounds" in hirq.render(x.get("e"))]
            if not rets or g["c"].get("k") == "letx":
                continue
            off = next((x["res"]["local"] for x in hirq.walk(g["c"]) if x.get("k") == "path" and (x.get("res") or {}).get("local") and re.search(r"off|pos|start|idx|index", x["res"]["local"])), None)
            if off is None:
                offl = [nm for nm, e in lets.items() if re.search(r"\.offset\(\)", hirq.render(e))]
                off = offl[0] if offl else None
            ctx.saw_fn(f)
            inst = {"fn": norm(f.path).split("::", 1)[1], "guard": hirq.render(g["c"])[:60]}
            if off is None:
                ctx.note_unarmed(R_sb, inst, "offset variable of the guard not identified")
                continue
            bad = None
            try:
                for n_ in range(0, 7):
                    for o_ in range(0, 8):
                        env = {off: o_, "__leaf__": (lambda r_, n_=n_: n_ if re.search(r"\.len\(\)$|\.size\(\)$", r_) else None), "__ty__": c.ty}
                        rej = _bv(g["c"], env, {k_: v_ for k_, v_ in lets.items() if k_ != off})
                        if rej != (o_ >= n_) and bad is None:
                            bad = (o_, n_, rej)
            except _NE as e:
                ctx.note_unarmed(R_sb, inst, "guard not evaluable (%s)" % e)
                continue
            if bad:
                ctx.bad(R_sb, "%s|bounds-guard" % inst["fn"], "%s:%d" % (f.file, g.get("ln") or 0), "`%s` %s offset %d of a %d-byte block" % (inst["guard"], "rejects" if bad[2] else "accepts", bad[0], bad[1]),
                        "a reference to a byte inside the block (the terminating NUL of a table whose strings are all empty) is refused on this path while the sibling resolvers return \"\": the access paths disagree and such a table cannot be written back" if bad[2] else
                        "an offset outside the block reaches the slice expression")
            else:
                ctx.ok(R_sb, inst)

    # the hashed key index exists whenever the schema names a key field — on every construction path (eager, lazy-loaded, parallel
    # all end in RecordSet::new): the conditions under which the map is filled mention the schema only through `key_field_index`
    # (a guard on another trait of the schema — validated, named, versioned — makes lookups fail on the paths that do not set it)
    R_kg = ctx.rule("C17.key-index-built-whenever-the-schema-names-a-key", "in RecordSet: every condition on the way to an insertion into the key -> index map reads the schema only through key_field_index (no other Schema field, no filter / is_some_and / take_if on the optional schema)", floor=1)
    for f in c.fn_list:
        if f.kind == "Closure" or not f.hir or "::tests::" in f.path or not re.search(r"parser::RecordSet::", norm(f.path)):
            continue
        body = f.hir["body"]
        for ins in hirq.walk(body):
            if ins.get("k") != "mcall" or ins["m"] != "insert" or len(ins.get("args") or []) != 2:
                continue
            recv_ty = c.ty(hirq.strip(ins["recv"]).get("t")) or ""
            if "HashMap" not in recv_ty or "usize" not in recv_ty:
                continue
            # conditions enclosing the insertion (if / if-let / match scrutinees), innermost last
            conds = []

            def rec(n, acc):
                if n is ins:
                    conds.extend(acc)
                    return True
                if isinstance(n, dict):
                    if n.get("k") == "if":
                        return rec(n["c"], acc) or rec(n["then"], acc + [n["c"]]) or (n.get("else") is not None and rec(n["else"], acc + [n["c"]]))
                    if n.get("k") == "match":
                        if rec(n["e"], acc):
                            return True
                        return any(rec(a, acc + [n["e"]]) for a in n["arms"])
                    return any(rec(v, acc) for v in n.values() if isinstance(v, (dict, list)))
                if isinstance(n, list):
                    return any(rec(v, acc) for v in n)
                return False
            rec(body, [])
            lets = {l["pat"]["name"]: l["init"] for l in hirq.find(body, "let") if l["pat"].get("k") == "bind" and l.get("init") is not None}
            offending = None
            seen_schema = False
            for cnd in conds:
                roots = [cnd] + [lets[x["res"]["local"]] for x in hirq.walk(cnd) if x.get("k") == "path" and (x.get("res") or {}).get("local") in lets]
                for root in roots:
                    for x in hirq.walk(root):
                        bt = c.ty(hirq.strip(x.get("e") or x.get("recv") or {}).get("t")) or "" if x.get("k") in ("field", "mcall") else ""
                        if "Schema" not in bt:
                            continue
                        seen_schema = True
                        if x.get("k") == "field" and x["name"] not in ("key_field_index", "fields"):
                            offending = offending or "the schema's `%s`" % x["name"]
                        if x.get("k") == "mcall" and re.search(r"option::Option", bt) and x["m"] in ("filter", "is_some_and", "take_if", "filter_map", "is_none_or", "xor", "zip"):
                            offending = offending or "`.%s(..)` on the optional schema" % x["m"]
            inst = {"fn": norm(f.path).split("::")[-1], "conditions": [hirq.render(x)[:60] for x in conds]}
            ctx.saw_fn(f)
            if offending:
                ctx.bad(R_kg, "%s|key-map-guard" % inst["fn"], "%s:%d" % (f.file, ins.get("ln") or 0), "the key index is filled only when %s allows it (conditions: %s)" % (offending, "; ".join(inst["conditions"])[:160]),
                        "a record set built on a path that does not establish that trait (the parallel parser takes the caller's schema as it is) has no key index: get_record_by_key answers None for keys that are present, while the eager path answers them")
            elif seen_schema or not conds:
                ctx.ok(R_kg, inst)
    # the hashed key map holds record indices: what it stores per key is the record's position in `records`
    R_km = ctx.rule("C17.key-map-stores-record-index", "every insertion into the key -> index map stores the record's index in the record list (an enumerate() over the records, or the index element carried in the (key, index) pairs) — never a position in a derived/sorted list", floor=2)
    for f in c.fn_list:
        if f.kind == "Closure" or not f.hir or "::tests::" in f.path or not re.search(r"parser::RecordSet::", norm(f.path)):
            continue
        body = f.hir["body"]
        # closures are folded in: inspect for-loops and closure bodies alike
        for ins in hirq.walk(body):
            if ins.get("k") != "mcall" or ins["m"] != "insert" or len(ins.get("args") or []) != 2:
                continue
            recv_ty = c.ty(hirq.strip(ins["recv"]).get("t")) or ""
            if "HashMap" not in recv_ty or "usize" not in recv_ty:
                continue
            v = hirq.strip(ins["args"][1])
            while v.get("k") in ("un", "cast"):
                v = hirq.strip(v["e"])
            if v.get("k") != "path" or "local" not in v["res"]:
                continue
            vn = v["res"]["local"]
            # where is vn bound?
            origin = None
            for lp in hirq.find(body, "for"):
                if vn not in hirq.pat_binds(lp["pat"]) or not any(x is ins for x in hirq.walk(lp["body"])):
                    continue
                it = hirq.render(lp["iter"])
                pat = lp["pat"]
                top = [s_.get("name") for s_ in pat.get("subs", [])] if pat.get("k") == "tuple" else []
                if "enumerate()" in it and top and top[0] == vn:
                    origin = ("position in", re.sub(r"\.iter\(\)|\.enumerate\(\)|&", "", it))
                else:
                    origin = ("element of", re.sub(r"\.iter\(\)|\.enumerate\(\)|&", "", it))
            for cl in hirq.find(body, "closure"):
                if not any(x is ins for x in hirq.walk(cl["body"])):
                    continue
                for p_ in cl.get("params", []) or []:
                    if vn in hirq.pat_binds(p_):
                        top = [s_.get("name") for s_ in p_.get("subs", [])] if p_.get("k") == "tuple" else []
                        origin = ("position in" if top and top[0] == vn else "element of", "closure over an enumerate()")
            if origin is None:
                continue
            ctx.saw_fn(f)
            good = (origin[0] == "position in" and re.search(r"records", origin[1])) or origin[0] == "element of"
            if good:
                ctx.ok(R_km, {"fn": norm(f.path), "stores": "%s %s" % origin})
            else:
                ctx.bad(R_km, "%s|key-map-value" % norm(f.path).split("::")[-1], "%s:%d" % (f.file, ins["ln"]), "the map stores `%s`, the %s `%s`" % (vn, origin[0], origin[1][:50]),
                        "after this runs a hashed lookup returns the record at the key's rank in the sorted list — a record carrying a different key — while the binary-search path still returns the right one")

    # the writer emits header, records and string block on every success path
    R_parts = ctx.rule("C17.writer-success-passes-all-parts", "every Ok exit of write_records is dominated by the header writes and passes the record loop head and the string-block write", floor=1)
    wr_ = fns.get("wow_cdbc::writer::DbcWriter::write_records")
    if wr_ is None:
        ctx.bad(R_parts, "write_records|missing", "-", "function not found", "anchor gone")
    else:
        cfg = mirg.Cfg(wr_)
        du = mirg.DefUse(wr_)
        blocks = wr_.mir["blocks"]
        sb_local = next((i for i, (_t, nm) in enumerate(wr_.mir["locals"]) if nm == "string_block"), None)
        sb_blocks = []
        for bb, t in mirg.iter_calls(wr_):
            if (ncallee(t) or "").endswith("::write_all") and sb_local is not None:
                anc = set()
                for a in t["a"][1:]:
                    if mirg.op_local(a) is not None:
                        anc |= du.slice_back(mirg.op_local(a), depth=4)[0]
                if sb_local in anc:
                    sb_blocks.append(bb)
        oks = [bb for bb, kind, _p in rules.success_exit_blocks(wr_) if kind == "ok"]
        if not sb_blocks:
            ctx.bad(R_parts, "write_records|no-string-block-write", wr_.where, "no write_all(&string_block) found", "the string block announced in the header is never written")
        elif not oks:
            ctx.bad(R_parts, "write_records|no-ok-exit", wr_.where, "no Ok exit recognised", "anchor shape changed")
        else:
            ok_, wit = cfg.must_pass(set(sb_blocks), oks)
            if ok_:
                ctx.ok(R_parts, {"fn": "write_records", "ok_exits": len(oks), "string_block_write_blocks": sb_blocks})
            else:
                ln = next((st[3] for st in blocks[wit]["s"] if st[0] == "="), 0)
                ctx.bad(R_parts, "write_records|ok-bypasses-string-block", "%s:%d" % (wr_.file, ln), "an Ok exit (bb%d) is reachable without writing the string block" % wit,
                        "the header announces a string block (at least the mandatory NUL) that the file does not contain: the written size is not header + records + string block and re-parsing fails or loses strings")
    tables = []
    for path, mode in (("wow_cdbc::schema::FieldType::size", "r"), ("wow_cdbc::field_parser::parse_field_value", "r"),
                       ("wow_cdbc::writer::DbcWriter::write_value", "w"), ("wow_cdbc::writer::DbcWriter::write_record", "w")):
        f = fns.get(path)
        if f is None:
            ctx.bad(R_w, "%s|missing" % path, "-", "function not found", "one of the sibling width tables is gone")
            continue
        ctx.saw_fn(f)
        for ln, tab in arm_tables(c, f, mode):
            tables.append((path.split("::")[-1], ln, tab, f))
    if tables:
        ref_name, _, ref, _ = tables[0]
        for name, ln, tab, f in tables:
            diffs = [(v, ref.get(v), w) for v, w in tab.items() if w is not None and ref.get(v) is not None and ref.get(v) != w]
            missing = [v for v in ref if v not in tab]
            if diffs:
                v, a, b = diffs[0]
                ctx.bad(R_w, "%s|%s" % (name, v), "%s:%d" % (f.file, ln), "FieldType::%s is %s bytes in %s but %s bytes in %s" % (v, a, ref_name, b, name),
                        "records are written with one layout and decoded with another: every field after it is shifted")
            elif missing and name != "write_record":
                ctx.bad(R_w, "%s|missing-variants" % name, "%s:%d" % (f.file, ln), "no arm for %s" % missing, "variant not handled by this sibling")
            else:
                ctx.ok(R_w, {"table": name, "line": ln, "widths": tab})

    # header
    hp = fns.get("wow_cdbc::header::DbcHeader::parse")
    wr = fns.get("wow_cdbc::writer::DbcWriter::write_records")
    if hp is None or wr is None:
        ctx.bad(R_h, "header|missing", "-", "header parser or writer not found", "anchor gone")
    else:
        rt = [t for t in wire.specialise(wire.extract(c, hp, "r")[0], {}) if t.k in ("P", "B")]
        wt_all = wire.specialise(wire.extract(c, wr, "w")[0], {})
        wt = [t for t in wt_all if t.k in ("P", "B")][:len(rt)]
        d = wire.compare(rt, wt)
        names_r = [t.name for t in rt][1:]
        names_w = [t.name for t in wt][1:]
        if d:
            ctx.bad(R_h, "header|layout", wr.where, "%s: %s" % d[0], "header fields are read at different offsets than written")
        elif [n for n in names_r if n] and [wire.norm_name(a) for a in names_r if a] != [wire.norm_name(b) for b in names_w if b]:
            ctx.bad(R_h, "header|order", wr.where, "read order %s, write order %s" % (names_r, names_w), "equal-width header fields are swapped")
        else:
            ctx.ok(R_h, {"read": [t.show() for t in rt], "write": [t.show() for t in wt]})
        # field count
        lets = {l["pat"]["name"]: l.get("init") for l in hirq.find(wr.hir["body"], "let") if l["pat"].get("k") == "bind"}
        fc = lets.get("field_count")
        val = fns.get("wow_cdbc::schema::Schema::validate")
        vtxt = hirq.render(val.hir["body"]) if val else ""
        closures_v = " ".join(hirq.render(x) for x in hirq.walk(val.hir["body"])) if val else ""
        if val:
            # helpers the validator counts through (a nested fn handed to `map`, a private fn of the module), one level
            refd = {c_.get("fn") for c_ in hirq.calls(val.hir["body"])} | {x["res"]["def"] for x in hirq.walk(val.hir["body"]) if x.get("k") == "path" and "def" in (x.get("res") or {}) and str(x["res"].get("dk", "")).startswith("Fn")}
            for g_ in c.fn_list:
                if g_.hir and g_.kind != "Closure" and g_.path in refd and g_.path.startswith("wow_cdbc::schema::") and g_.path != val.path:
                    closures_v += " " + " ".join(hirq.render(x) for x in hirq.walk(g_.hir["body"]))
        # everything the header's field_count value is computed from (through intermediate locals, accumulators and loops)
        def dep_text(body, start):
            seen, work, out = set(), [start], []
            while work:
                nm = work.pop()
                if nm in seen:
                    continue
                seen.add(nm)
                srcs = [l["init"] for l in hirq.find(body, "let") if l.get("init") is not None and nm in hirq.pat_binds(l["pat"])]
                for a_ in hirq.walk(body):
                    if a_.get("k") in ("assign", "assignop") and hirq.strip(a_["l"]).get("k") == "path" and hirq.strip(a_["l"])["res"].get("local") == nm:
                        srcs.append(a_["r"])
                for sx in srcs:
                    out.append(" ".join(hirq.render(x) for x in hirq.walk(sx)))
                    for x in hirq.walk(sx):
                        if x.get("k") == "path" and "local" in x["res"]:
                            work.append(x["res"]["local"])
            return " ".join(out)
        wtxt = dep_text(wr.hir["body"], "field_count") if fc is not None else ""
        v_arrays = "array_size" in closures_v
        w_arrays = "array_size" in wtxt
        if fc is None:
            ctx.bad(R_fc, "field_count|missing", wr.where, "field_count local not found", "shape changed")
        elif v_arrays != w_arrays:
            ctx.bad(R_fc, "DbcWriter|field_count", wr.where, "validator counts array elements: %s; writer does: %s" % (v_arrays, w_arrays),
                    "the writer's own output for a schema with an array field is rejected (or mis-sliced) when read back")
        else:
            ctx.ok(R_fc, {"array_aware_both": v_arrays})

    # single decoder
    shared = "wow_cdbc::field_parser::parse_field_value"
    for path, f in sorted(fns.items()):
        if path.endswith("::parse_field_value") and path != shared:
            ctx.saw_fn(f)
            toks = wire.extract(c, f, "r")[0]
            calls = [ncallee(t) for _, t in mirg.iter_calls(f)]
            prims = [t for t in toks if t.k in ("P", "B")]
            if shared in [norm(x or "") for x in calls] and not prims:
                ctx.ok(R_dec, {"forwarder": path})
            else:
                ctx.bad(R_dec, "%s|own-decoder" % path, f.where, "does not purely forward to the shared decoder (prims: %s)" % wire.flat(prims)[:60],
                        "this access path can decode a field differently from the others")

    # every value shape the record writer can emit a string reference for is also visited when the string block is built
    R_cov = ctx.rule("C17.string-collector-covers-nested-values", "the string-block builder visits Value::Array elements whenever write_value writes through them", floor=1)
    wv = fns.get("wow_cdbc::writer::DbcWriter::write_value")
    bsb = fns.get("wow_cdbc::writer::DbcWriter::build_string_block")
    if wv is None or bsb is None:
        ctx.bad(R_cov, "writer|missing", "-", "write_value or build_string_block not found", "anchor gone")
    else:
        def variants_in(fn_, depth=0):
            out = set()
            for x in hirq.walk(fn_.hir["body"]):
                for p_ in ([x.get("pat")] if x.get("pat") else []) + [a_["pat"] for a_ in x.get("arms", []) if isinstance(a_, dict)]:
                    for y in hirq.walk({"k": "_", "p": p_}) if False else [p_]:
                        st_ = [y]
                        while st_:
                            q = st_.pop()
                            if not isinstance(q, dict):
                                continue
                            d_ = (q.get("res") or {}).get("def", "")
                            if "::Value::" in d_:
                                out.add(d_.split("::")[-1])
                            st_.extend(q.get("subs", []) or [])
                            if q.get("sub"):
                                st_.append(q["sub"])
            if depth < 2:
                for cc in hirq.calls(fn_.hir["body"]):
                    g = next((g_ for g_ in c.fn_list if g_.hir and g_.kind != "Closure" and g_.path == cc.get("fn") and norm(g_.path).startswith("wow_cdbc::writer::") and g_ is not fn_), None)
                    if g is not None:
                        out |= variants_in(g, depth + 1)
            return out
        wvars, bvars = variants_in(wv), variants_in(bsb)
        ctx.saw_fn(wv)
        need = {v_ for v_ in ("StringRef", "Array") if v_ in wvars}
        if need <= bvars:
            ctx.ok(R_cov, {"write_value_handles": sorted(wvars), "string_collector_handles": sorted(bvars)})
        else:
            ctx.bad(R_cov, "build_string_block|missing-%s" % sorted(need - bvars)[0], bsb.where, "write_value writes string references inside %s, but the string-block builder only visits %s" % (sorted(need), sorted(bvars)),
                    "strings held in array fields never reach the new string block: write_value misses them in the offset map and writes offset 0 — every array string parses back empty")

    # ... and visits them unconditionally: an arm guard on the string-carrying variants skips the strings the guard rejects, while
    # write_value still writes a reference for them (and falls back to offset 0 when the lookup misses)
    R_ung = ctx.rule("C17.string-collector-arms-are-unguarded", "in the string-block builder (and the helpers it delegates to) no match arm for a string-carrying Value variant has a guard", floor=1)
    if bsb is not None:
        coll = [bsb] + [g for g in c.fn_list if g.hir and g.kind != "Closure" and norm(g.path).startswith("wow_cdbc::writer::") and re.search(r"collect|string", g.path.split("::")[-1]) and g is not bsb]
        n_arms = 0
        for g in coll:
            for m_ in hirq.find(g.hir["body"], "match"):
                for a_ in m_["arms"]:
                    ctor = hirq.pat_ctor(a_["pat"]) or ""
                    if not re.search(r"::Value::(StringRef|String|Array)$", ctor):
                        continue
                    n_arms += 1
                    if a_.get("guard") is not None:
                        ctx.bad(R_ung, "%s|guarded-%s" % (g.path.split("::")[-1], ctor.split("::")[-1]), "%s:%d" % (g.file, a_.get("ln") or m_.get("ln") or 0), "the %s arm only runs `if %s`" % (ctor.split("::")[-1], hirq.render(a_["guard"])[:60]),
                                "values the guard rejects are never added to the new string block, yet write_value still emits a reference for them (offset 0 on a lookup miss): those strings read back as a different string")
                    else:
                        ctx.ok(R_ung, {"fn": g.path.split("::")[-1], "arm": ctor.split("::")[-1]})
        if n_arms == 0:
            ctx.bad(R_ung, "collector|no-arms", bsb.where, "no match arm on a string-carrying Value variant found in the collector", "shape changed")

    # interning
    bs = fns.get("wow_cdbc::writer::DbcWriter::build_string_block")
    if bs is None:
        ctx.bad(R_str, "build_string_block|missing", "-", "function not found", "anchor gone")
    else:
        ctx.saw_fn(bs)
        body = bs.hir["body"]
        # the insertion may live in a local helper the block builder delegates to (e.g. a recursive per-value collector)
        helpers = [g for g in c.fn_list if g.hir and g.kind != "Closure" and any((cc.get("fn") or "") == g.path for cc in hirq.calls(body)) and norm(g.path).startswith("wow_cdbc::writer::")]
        if helpers:
            body = {"k": "block", "stmts": [body] + [h_.hir["body"] for h_ in helpers], "e": None}
        guarded = False
        for n in hirq.find(body, "if"):
            cr = hirq.render(n["c"])
            if re.search(r"!.*contains_key|\.get\(.*\)\.is_none\(\)|!.*\.contains\(", cr) and any(x.get("k") == "mcall" and x["m"] in ("insert", "extend_from_slice", "push") for x in hirq.walk(n["then"])):
                guarded = True
        entry_api = any(x.get("k") == "mcall" and x["m"] in ("or_insert_with", "or_insert", "entry") for x in hirq.walk(body))
        if guarded or entry_api:
            ctx.ok(R_str, {"guard": "contains_key" if guarded else "entry API"})
        else:
            ctx.bad(R_str, "build_string_block|unguarded-insert", bs.where, "strings are appended without an is-already-present test", "identical strings are stored more than once")
