"""C14 — ADT terrain survives build→serialise→parse (structure).

Chunk framing is by construction (write_chunk derives the size from stream positions; no
independent length); every recorded position is taken immediately before the write of the
same-named chunk and every MHDR field is fed from the position of the chunk it names; the MCNK
header offset fields are set immediately before the sub-chunk the parser locates through the same
field (writer mapping ⊇ parser mapping); types deriving both BinRead and BinWrite carry no
one-sided wire directive.
"""
import glob
import os
import re

from .. import facts, hirq, mirg, rules
from ..rules import norm

META = {
    "level": "other",
    "technique": "statement-order pairing rules on typed HIR (position capture ↔ chunk write, offset field ↔ sub-chunk), sibling mapping comparison writer vs parser, attribute-dual rule over binrw directives (syntax level)",
    "claim": "Decides that the serializer's back-patched offset tables are fed from the position of the chunk each entry names, that chunk sizes are derived from positions, that writer and parser agree on which MCNK header offset locates which sub-chunk, and that no binrw type with both derives has a read-only or write-only layout directive. Does not compare content or growth under repeated rebuild. Also: the tracked MH2O cursor never goes stale (typestate); builder version table ⊆ parser gates per chunk; until-end-of-stream types are parsed only from bounded readers; MCNK size-field conventions and validity predicates agree between writer and reader; conditional header fields are cleared first. Wave 5: whole-file writers open truncating; the four MH2O vertex-format arms walk the same rectangle. Wave 6: VertexDataArray::byte_size equals the payload vertex type's SIZE per variant; MCNK sub-chunk reads are decided by the header (and version/size parameters) alone. Wave 7: chunk-writer helpers write on every success path; the parsed -> builder -> built conversions carry each field under its own name. Wave 8: the builder accepts a full tile (limit evaluated at the MCIN slot count); per-item optionals start fresh per item; AdtBuilder setters keep the other settings.",
    "note": "Trusted: binrw derives are symmetric absent one-sided directives; Seek::stream_position. The directive rule reads attribute text from the source files (derive helper attributes are not kept in HIR).",
    "assumptions": ["MHDR/MCIN are the only offset tables of a root ADT"],
    "explanation": "builder/serializer.rs: serialize_to_writer (≈20 recorded positions), calculate_mhdr_offsets, write_chunk, write_mcnk_chunk; chunks/mcnk/chunk.rs read_subchunk call sites; every #[br]/#[bw]/#[brw] attribute under wow-adt/src.",
}

SER = "wow_adt::builder::serializer::"
WIRE_DIRECTIVES = ("pad_before", "pad_after", "pad_size_to", "align_before", "align_after", "seek_before", "magic", "if", "restore_position", "offset", "temp", "calc", "ignore", "big", "little")


def stmts_of(block):
    b = hirq.strip(block)
    return list(b.get("stmts", [])) + ([b["e"]] if b.get("e") else [])


def chunk_written(stmt):
    """ChunkId name written by a statement (write_chunk(writer, ChunkId::X, ..) or write_<x>_chunk(..))"""
    for c in hirq.walk(stmt):
        if c.get("k") == "call":
            fn = c.get("fn") or ""
            if fn.endswith("serializer::write_chunk") and len(c["args"]) >= 2:
                a = hirq.strip(c["args"][1])
                if a.get("k") == "path":
                    return a["res"].get("def", "").split("::")[-1]
            m = re.search(r"serializer::write_(\w+)_chunk$", fn)
            if m and m.group(1) not in ("mcnk", "minimal_mcnk"):
                return m.group(1).upper()
    return None


POS_TY = None


def position_capture(stmt):
    """name X for `<ChunkPositions value>.X = [Some](writer.stream_position()?)` (the owner is recognised by its type)"""
    s = stmt
    if s.get("k") == "assign":
        l = hirq.strip(s["l"])
        if l.get("k") == "field" and "stream_position" in hirq.render(s["r"]):
            owner_ty = POS_TY(hirq.strip(l["e"])) if POS_TY else ""
            if "ChunkPositions" in (owner_ty or "") or "positions" in hirq.render(l["e"]):
                return l["name"], ("+" in hirq.render(s["r"]))
    return None


def whole_file_write_truncates_rule(ctx, crates, pid, floor):
    """a function that writes a whole file opens its destination truncating: `File::create` (counted as the discharged form) or an
    OpenOptions chain with truncate/append/create_new.  `OpenOptions.write(true)` without them leaves the tail of a longer previous
    file in place — the file on disk is then not what was serialised.  read+write chains are in-place editors, not whole-file
    writers, and are counted but not judged."""
    R = ctx.rule("%s.whole-file-writes-truncate" % pid, "every OpenOptions chain that opens for writing (and not for reading) sets truncate, append or create_new", floor=floor)
    for c in crates:
        for f in c.fn_list:
            if not f.hir or "::tests::" in f.path or "::test" in f.path:
                continue
            for x in hirq.walk(f.hir["body"]):
                if x.get("k") == "call" and re.search(r"fs::File::create(_new|_buffered)?$", x.get("fn") or ""):
                    ctx.ok(R, {"fn": f.path.split("::")[-1], "line": x.get("ln"), "open": "File::create"}) if len(ctx.samples) < 200 else (ctx.rules[R].__setitem__("obligations", ctx.rules[R]["obligations"] + 1), ctx.rules[R].__setitem__("discharged", ctx.rules[R]["discharged"] + 1))
                if not (x.get("k") == "mcall" and x["m"] == "open" and "OpenOptions" in (x.get("fn") or "")):
                    continue
                opts = {}
                cur = hirq.strip(x["recv"])
                while cur is not None and cur.get("k") == "mcall":
                    if cur.get("args"):
                        opts.setdefault(cur["m"], hirq.render(cur["args"][0]))
                    cur = hirq.strip(cur["recv"])
                if cur is None or "OpenOptions::new" not in hirq.render(cur):
                    continue          # options built elsewhere: not decidable here, not judged
                inst = {"fn": f.path.split("::")[-1], "line": x.get("ln"), "options": opts}
                if opts.get("write") != "true" or opts.get("read") == "true" or any(opts.get(k_) == "true" for k_ in ("truncate", "append", "create_new")):
                    ctx.ok(R, inst)
                else:
                    ctx.bad(R, "%s|open-for-write-without-truncate" % f.path.split("::")[-1], "%s:%d" % (f.file, x.get("ln") or 0), "destination opened with %s: neither truncated nor appended to" % opts,
                            "saving over a longer existing file leaves its tail behind the new content: the file is no longer exactly what was serialised (stale trailing chunks are parsed back)")


def run(ctx):
    prog = ctx.prog
    adt = prog.crate("wow_adt")
    R_pos = ctx.rule("C14.position-precedes-same-chunk", "each recorded chunk position is captured immediately before the write of the chunk it is named after", floor=12)
    R_mhdr = ctx.rule("C14.mhdr-fed-from-named-position", "every MHDR offset field is computed from the position of the chunk it names", floor=8)
    R_frame = ctx.rule("C14.size-derived-from-positions", "write_chunk computes the chunk size as the difference of two stream positions and back-patches it", floor=1)
    R_ofs = ctx.rule("C14.mcnk-offset-field-mapping", "each MCNK header offset field is set right before the sub-chunk the parser locates through that same field", floor=4)
    R_dual = ctx.rule("C14.binrw-no-one-sided-directive", "types deriving BinRead and BinWrite have no read-only or write-only layout directive", floor=20)

    whole_file_write_truncates_rule(ctx, prog.all_workspace(), "C14", floor=10)

    # the four vertex-format arms of the MH2O parser walk the same (x_offset..=x_offset+width) x (y_offset..=y_offset+height)
    # rectangle the instance declares (and the writer emits): the bounds they compute agree arm by arm, and the x bound is made
    # of the x quantities, the z bound of the y quantities
    R_grid = ctx.rule("C14.mh2o-format-arms-walk-the-same-rectangle", "in parse_mh2o_chunk every vertex-format arm computes the same x_end / z_end, x_end from x_offset and width, z_end from y_offset and height", floor=2)
    pm = next((f_ for f_ in adt.fn_list if f_.hir and f_.kind != "Closure" and norm(f_.path).endswith("root_parser::parse_mh2o_chunk")), None)
    if pm is None:
        ctx.bad(R_grid, "parse_mh2o_chunk|missing", "-", "function not found", "anchor gone")
    else:
        ctx.saw_fn(pm)
        for m_ in hirq.find(pm.hir["body"], "match"):
            per = {}
            for a_ in m_["arms"]:
                for l_ in hirq.find(a_["body"], "let"):
                    if l_["pat"].get("k") == "bind" and l_.get("init") is not None and re.fullmatch(r"[xyz]_(end|start)", l_["pat"]["name"]):
                        per.setdefault(l_["pat"]["name"], []).append((hirq.render(l_["init"]), l_.get("ln")))
            for nm, defs in sorted(per.items()):
                if len(defs) < 2:
                    continue
                forms = sorted({d_[0] for d_ in defs})
                want = ("x_offset", "width") if nm.startswith("x") else ("y_offset", "height")
                other = ("y_offset", "height") if nm.startswith("x") else ("x_offset", "width")
                wrong = [d_ for d_ in defs if not all(w_ in d_[0] for w_ in want) or any(o_ in d_[0] for o_ in other)]
                if len(forms) > 1 or wrong:
                    d_ = (wrong or [d for d in defs if d[0] != max(forms, key=lambda fr: sum(1 for q in defs if q[0] == fr))])[0]
                    ctx.bad(R_grid, "parse_mh2o_chunk|%s" % nm, "%s:%d" % (pm.file, d_[1] or 0), "`%s = %s` in one vertex-format arm; the other arms use `%s`" % (nm, d_[0][:70], max(forms, key=lambda fr: sum(1 for q in defs if q[0] == fr))[:70]),
                            "a non-square liquid instance in that vertex format is read with the wrong row length: vertices are lost or read past the block, and re-serialising changes the file")
                else:
                    ctx.ok(R_grid, {"bound": nm, "arms": len(defs), "form": forms[0][:70]})

    # the MH2O writer lays later layers out by summing VertexDataArray::byte_size(): per variant, one element must count as many
    # bytes as the vertex type that variant holds (evaluated through whatever helpers / tables byte_size goes through)
    # a position recorded for a chunk describes a chunk only if the helper that follows writes one: a `write_<x>_chunk` helper has no
    # success return that precedes its first write (the caller has already entered the position into the MHDR / MCIN table)
    R_helper = ctx.rule("C14.chunk-writer-helpers-always-write", "every serializer::write_<x>_chunk helper writes (write_all / write_chunk / BinWrite) before any `return Ok` — no success path leaves the stream untouched", floor=3)
    for f in adt.fn_list:
        if not f.hir or f.kind == "Closure" or not re.search(r"serializer::write_\w+_chunk$", norm(f.path)) or not f.mir or not f.mir.get("blocks"):
            continue
        ctx.saw_fn(f)
        cfg_h = mirg.Cfg(f)
        wr = [bb for bb, t in mirg.iter_calls(f) if re.search(r"Write>::write_all$|Write::write_all$|serializer::write_chunk$|BinWrite>::write\w*$|binwrite::BinWrite::write\w*$|WriteBytesExt::write_\w+$|serializer::write_\w+$", mirg.callee(t) or "")]
        oks = [bb for bb, kind, _p in rules.ret_assignments(f) if kind in ("ok", "copy", "other", "call")]
        # a success exit reachable from the entry without passing any writing block
        reach0 = cfg_h.reachable(0, avoid=set(wr)) | {0}
        esc = [o for o in oks if o in reach0 and o not in wr]
        if not wr:
            ctx.note_unarmed(R_helper, norm(f.path).split("::")[-1], "no direct write recognised in this helper (delegates entirely)")
        elif esc:
            ctx.bad(R_helper, "%s|returns-without-writing" % norm(f.path).split("::")[-1], f.where, "a success return (bb%d) is reachable before anything is written" % esc[0],
                    "the caller records the stream position as this chunk's offset before calling: the offset table then names a position where another chunk (or nothing) stands")
        else:
            ctx.ok(R_helper, {"helper": norm(f.path).split("::")[-1], "writes": len(wr)})

    # parsed tile -> builder -> built tile: every content list is carried under its own name (several have the same type: the three
    # name lists, the blend-mesh chunks, the Option<..> texture chunks — a crossed pair still compiles)
    R_carry = ctx.rule("C14.conversion-carries-each-field-under-its-own-name", "in from_parsed / from_root_adt / build every field F of the produced struct literal that the source struct also has derives from source.F and from no other field of the source", floor=55)
    afn = {f_.path: f_ for f_ in adt.fn_list if f_.hir and f_.kind != "Closure"}
    for cp in ("builder::adt_builder::AdtBuilder::from_parsed", "builder::built_adt::BuiltAdt::from_root_adt", "builder::adt_builder::AdtBuilder::build", "builder::built_adt::BuiltAdt::new"):
        f = next((f_ for f_ in adt.fn_list if f_.hir and f_.kind != "Closure" and norm(f_.path).endswith(cp)), None)
        if f is None:
            ctx.bad(R_carry, "%s|missing" % cp.split("::")[-1], "-", "conversion function not found", "anchor gone")
            continue
        ctx.saw_fn(f)
        short = cp.split("::")[-1]
        pn = [b for p_ in f.hir["params"] for b in hirq.pat_binds(p_)]
        src = pn[0] if pn else None
        # the produced value: a struct literal of the built type, or a positional constructor call whose parameter names give the slots
        slots = []
        for n in hirq.walk(f.hir["body"]):
            if n.get("k") == "struct" and re.search(r"::(AdtBuilder|BuiltAdt)$", (n.get("res") or {}).get("def") or adt.ty(n.get("t")) or "") and len(n.get("fields") or []) >= 10:
                slots += [(nm, e) for nm, e in n["fields"]]
            if n.get("k") == "call" and (n.get("fn") or "") in afn and re.search(r"::(AdtBuilder|BuiltAdt)::new$", n["fn"]) and len(n.get("args") or []) >= 10:
                gp = [b for p_ in afn[n["fn"]].hir["params"] for b in hirq.pat_binds(p_)]
                if len(gp) == len(n["args"]):
                    slots += list(zip(gp, n["args"]))
        if src is None or not slots:
            ctx.bad(R_carry, "%s|shape" % short, f.where, "no struct literal / constructor call of the produced type found", "shape changed")
            continue
        names = {nm for nm, _ in slots}
        for nm, e in slots:
            used = set()
            for v in [e] + [x for x in hirq.value_leaves(f.hir["body"], e) if x is not None]:
                for x in hirq.walk(v):
                    if x.get("k") == "field" and hirq.strip(x["e"]).get("k") == "path" and (hirq.strip(x["e"]).get("res") or {}).get("local") == src and x["name"] in names:
                        used.add(x["name"])
                    # a constructor's own parameters are the source
                    if x.get("k") == "path" and (x.get("res") or {}).get("local") in names and x["res"]["local"] in pn and short == "new":
                        used.add(x["res"]["local"])
            if not used and nm == "version":
                continue
            inst = {"fn": short, "field": nm}
            if used == {nm}:
                ctx.ok(R_carry, inst)
            elif not used:
                ctx.bad(R_carry, "%s|%s|not-carried" % (short, nm), "%s:%d" % (f.file, (e or {}).get("ln") or 0), "`%s` is built from `%s`, not from the source's `%s`" % (nm, hirq.render(e)[:40], nm), "content of the source tile is dropped by the conversion: parse -> rebuild -> parse loses it")
            else:
                ctx.bad(R_carry, "%s|%s|crossed" % (short, nm), "%s:%d" % (f.file, (e or {}).get("ln") or 0), "`%s` derives from %s" % (nm, ", ".join(sorted(used))), "two lists of the same type are exchanged (or merged) by the conversion: the rebuilt tile carries one chunk's content under another's name")

    R_vsz = ctx.rule("C14.mh2o-vertex-array-size-matches-its-vertex-type", "for each VertexDataArray variant, byte_size() with one vertex equals <payload vertex type>::SIZE", floor=4)
    from .c10 import xval as _xval, _NoEval as _NoEv
    vda = next((a_ for a_ in adt.items["adts"] if a_["path"].endswith("::VertexDataArray")), None)
    bs = next((f_ for f_ in adt.fn_list if f_.hir and f_.kind != "Closure" and norm(f_.path).endswith("VertexDataArray::byte_size")), None)
    if vda is None or bs is None:
        ctx.bad(R_vsz, "VertexDataArray::byte_size|missing", "-", "enum or function not found", "anchor gone")
    else:
        ctx.saw_fn(bs)
        afns = {g.path: g for g in adt.fn_list if g.hir and g.kind != "Closure"}
        aconsts = {k_: v_.get("v") for k_, v_ in adt.consts().items()}
        for v_ in vda.get("variants", []):
            ty = v_["fields"][0][1] if v_.get("fields") else ""
            m_ = re.search(r"([\w:]+Vertex)\b", ty)
            want = aconsts.get((m_.group(1) + "::SIZE")) if m_ else None
            try:
                got = _xval(bs.hir["body"], {"self": v_["name"], "__fns__": afns, "__consts__": aconsts, "__leaf__": (lambda r_: 1 if r_.endswith(".len()") else None)})
            except _NoEv as e:
                ctx.bad(R_vsz, "byte_size|%s|not-evaluable" % v_["name"], bs.where, "byte_size() not evaluable for %s: %s" % (v_["name"], e), "shape changed")
                continue
            if want is None:
                ctx.note_unarmed(R_vsz, v_["name"], "payload vertex type / SIZE constant not found")
            elif got == want:
                ctx.ok(R_vsz, {"variant": v_["name"], "bytes_per_vertex": got})
            else:
                ctx.bad(R_vsz, "byte_size|%s" % v_["name"], bs.where, "byte_size() counts %s bytes per vertex for %s; %s::SIZE is %s" % (got, v_["name"], m_.group(1).split("::")[-1], want),
                        "after a layer in that vertex format every later layer's bitmap and vertex offsets in the same chunk are wrong: the parser reads a wrong exists-bitmap and wrong vertices")

    # whether the MCNK parser reads a sub-chunk is decided by the MCNK header alone (its offset / size fields, through the has_*
    # helpers) — the serializer writes each sub-chunk whenever the value is present and records exactly that in the header.  A read
    # guard that also looks at another parsed sub-chunk drops data the writer wrote
    R_sub = ctx.rule("C14.subchunk-read-decided-by-header-alone", "in McnkChunk::parse_with_offset_and_size every `let <subchunk> = if <guard> {..}` guard reads only the header (and version / size parameters), no previously parsed sub-chunk", floor=10)
    mp = next((f_ for f_ in adt.fn_list if f_.hir and f_.kind != "Closure" and norm(f_.path).endswith("McnkChunk::parse_with_offset_and_size")), None)
    if mp is None:
        ctx.bad(R_sub, "parse_with_offset_and_size|missing", "-", "function not found", "anchor gone")
    else:
        ctx.saw_fn(mp)
        mbody = mp.hir["body"]
        mlets = {l_["pat"]["name"]: l_["init"] for l_ in hirq.find(mbody, "let") if l_["pat"].get("k") == "bind" and l_.get("init") is not None}
        sub_names = {nm_ for nm_, in_ in mlets.items() if hirq.strip(in_).get("k") == "if" and re.search(r"header\.has_\w+\(\)", hirq.render(hirq.strip(in_)["c"]))}
        params_ = {b_ for p_ in mp.hir["params"] for b_ in hirq.pat_binds(p_)}

        def deps(e_, depth=3):
            out_ = set()
            for y_ in hirq.walk(e_):
                if y_.get("k") == "path" and "local" in y_["res"]:
                    nm_ = y_["res"]["local"]
                    if nm_ in sub_names:
                        out_.add(nm_)
                    elif nm_ in mlets and nm_ not in params_ and nm_ != "header" and depth > 0:
                        out_ |= deps(mlets[nm_], depth - 1)
            return out_
        for nm_ in sorted(sub_names):
            guard = hirq.strip(mlets[nm_])["c"]
            d_ = deps(guard) - {nm_}
            if d_:
                ctx.bad(R_sub, "parse_with_offset_and_size|%s|depends-on-%s" % (nm_, sorted(d_)[0]), "%s:%d" % (mp.file, guard.get("ln") or 0), "`%s` is read under `%s`, which looks at the parsed sub-chunk `%s`" % (nm_, hirq.render(guard)[:70], sorted(d_)[0]),
                        "the serializer writes that sub-chunk whenever the value is present: for chunks where the other sub-chunk is absent (or too short) it is written but never read back, and the next save drops it")
            else:
                ctx.ok(R_sub, {"subchunk": nm_, "guard": hirq.render(guard)[:50]})

    # tracked stream cursors never go stale (typestate over the MIR CFG)
    from .. import cursor as _cursor
    R_cur = ctx.rule("C14.tracked-cursor-never-stale", "a cursor re-read from stream_position() is refreshed after every write through the same writer before it is used as an offset or seek target", floor=1)
    for f in adt.fn_list:
        if f.kind == "Closure" or "::tests::" in f.path or not f.mir.get("blocks"):
            continue
        for cur, name, wroot in _cursor.tracking_cursors(f):
            ctx.saw_fn(f)
            uses = _cursor.stale_uses(f, cur, wroot)
            if uses:
                ctx.bad(R_cur, "%s|%s" % (f.path, name), "%s:%d" % (f.file, uses[0][1]), "`%s` is %s at line %d on a path where data was written after its last refresh" % (name, uses[0][2], uses[0][1]),
                        "the offset recorded (or the seek target) lies before the end of the data already written: the next payload overwrites the previous one and the parsed file differs from what was built")
            else:
                ctx.ok(R_cur, {"fn": f.path, "cursor": name})

    # version gates: every (chunk, version) the builder accepts is a (chunk, version) the root parser reads
    from .. import enumpred
    R_gate = ctx.rule("C14.version-gates-agree", "for each version-specific chunk, the set of versions the builder's compatibility table accepts is contained in the set of versions under which parse_root_adt reads that chunk", floor=7)
    variants = enumpred.variants_of(adt, "version::AdtVersion")
    vf = adt.fns.get("wow_adt::builder::validation::validate_version_chunk_compatibility")
    pf = adt.fns.get("wow_adt::root_parser::parse_root_adt")
    if not variants or vf is None or pf is None or not vf.hir or not pf.hir:
        ctx.bad(R_gate, "version-gates|missing", "-", "AdtVersion, validate_version_chunk_compatibility or parse_root_adt not found", "anchor gone")
    else:
        ctx.saw_fn(vf)
        ctx.saw_fn(pf)
        vparam = hirq.pat_binds(vf.hir["params"][0])[0]
        allowed = {}
        for m in hirq.find(vf.hir["body"], "match"):
            for arm in m["arms"]:
                pats = arm["pat"]["subs"] if arm["pat"].get("k") == "or" else [arm["pat"]]
                ids = [p_["res"]["def"].split("::")[-1] for p_ in pats if p_.get("k") == "path" and "ChunkId::" in p_["res"].get("def", "")]
                if not ids:
                    continue
                ok_set = set(variants)
                for n in hirq.find(arm["body"], "if"):
                    if any(x.get("k") == "ret" for x in hirq.walk(n["then"])):
                        try:
                            ok_set -= enumpred.true_set(n["c"], vparam, variants)
                        except enumpred.Opaque:
                            pass
                for i_ in ids:
                    allowed[i_] = ok_set
            break
        parsed = {}
        pver = next((b_ for p_ in pf.hir["params"] for b_ in hirq.pat_binds(p_) if "version" in b_), "version")
        from .c07 import enclosing_if_conditions
        for c in hirq.walk(pf.hir["body"]):
            if c.get("k") == "mcall" and c["m"] in ("get_chunks", "get_chunk", "has_chunk") and c.get("args"):
                cid = hirq.render(c["args"][0]).split("::")[-1]
                vs = set(variants)
                for side, cd in enclosing_if_conditions(pf.hir["body"], c):
                    if pver not in hirq.render(cd):
                        continue
                    try:
                        ts = enumpred.true_set(cd, pver, variants)
                    except enumpred.Opaque:
                        continue
                    vs &= ts if side == "then" else (set(variants) - ts)
                parsed[cid] = parsed.get(cid, set()) | vs
        for cid, aset in sorted(allowed.items()):
            if cid not in parsed:
                ctx.note_unarmed(R_gate, cid, "chunk not read through discovery.get_chunks in parse_root_adt")
                continue
            missing = [v for v in variants if v in aset and v not in parsed[cid]]
            if missing:
                ctx.bad(R_gate, "version-gate|%s" % cid, pf.where, "the builder writes %s for %s but parse_root_adt reads it only for %s" % (cid, sorted(aset, key=variants.index), sorted(parsed[cid], key=variants.index)),
                        "a tile built for %s with this chunk loses it on the first parse (and the next rebuild drops it from the file)" % missing[0])
            else:
                ctx.ok(R_gate, {"chunk": cid, "builder_versions": sorted(aset, key=variants.index), "parser_versions": sorted(parsed[cid], key=variants.index)})

    global POS_TY
    POS_TY = lambda n: adt.ty(n.get("t")) if n is not None and n.get("t") is not None else ""
    fns = {norm(f.path): f for f in adt.fn_list if f.kind != "Closure" and f.hir}
    ser = fns.get(SER + "serialize_to_writer")
    if ser is None:
        ctx.bad(R_pos, "serialize_to_writer|missing", "-", "function not found", "anchor gone")
    else:
        ctx.saw_fn(ser)

        def scan(block):
            st = stmts_of(block)
            for i, s in enumerate(st):
                pc = position_capture(s)
                if pc:
                    name, plus = pc
                    base = re.sub(r"_(data_)?start$", "", name)
                    nxt = st[i + 1] if i + 1 < len(st) else None
                    # allow one intervening `let placeholder = ...;`
                    if nxt is not None and nxt.get("k") == "let" and i + 2 < len(st):
                        nxt = st[i + 2]
                    w = chunk_written(nxt) if nxt is not None else None
                    if name in ("mcnk_start",):
                        continue
                    key = "serialize_to_writer|%s" % name
                    if w is None:
                        ctx.bad(R_pos, key, "%s:%d" % (ser.file, s["ln"]), "position `%s` is not followed by a chunk write" % name, "the offset table entry would point at something else")
                    elif w.lower() != base.lower():
                        ctx.bad(R_pos, key, "%s:%d" % (ser.file, s["ln"]), "position `%s` is captured before the write of %s" % (name, w), "the MHDR/MCIN entry for %s points at a %s chunk" % (base.upper(), w))
                    else:
                        ctx.ok(R_pos, {"position": name, "chunk": w})
                # recurse into nested blocks (if let Some(..) { .. })
                for x in hirq.walk(s):
                    if x is not s and x.get("k") == "block":
                        pass
                if s.get("k") in ("if", "block", "match", "for", "loop"):
                    for sub in hirq.walk(s):
                        if sub is not s and sub.get("k") == "block" and sub.get("stmts"):
                            scan(sub)
                            break
        scan(ser.hir["body"])
        # a write must not precede its capture: check no chunk write statement is directly followed by its own capture
        st = stmts_of(ser.hir["body"])
        for i in range(len(st) - 1):
            w = chunk_written(st[i])
            pc = position_capture(st[i + 1])
            if w and pc and re.sub(r"_(data_)?start$", "", pc[0]).lower() == w.lower():
                ctx.bad(R_pos, "serialize_to_writer|%s|after-write" % pc[0], "%s:%d" % (ser.file, st[i + 1]["ln"]), "position `%s` is captured after %s was written" % (pc[0], w), "offset points past the chunk")

    mh = fns.get(SER + "calculate_mhdr_offsets")
    if mh is None:
        ctx.bad(R_mhdr, "calculate_mhdr_offsets|missing", "-", "function not found", "anchor gone")
    else:
        ctx.saw_fn(mh)
        for lit in hirq.find(mh.hir["body"], "struct"):
            if not lit["res"].get("def", "").endswith("MhdrChunk"):
                continue
            for fname, fexpr in lit["fields"]:
                m = re.match(r"^(\w+)_offset$", fname)
                if not m:
                    continue
                r = hirq.render(fexpr)
                want = m.group(1)
                used = [x["name"] for x in hirq.walk(fexpr) if x.get("k") == "field" and "ChunkPositions" in (adt.ty(hirq.strip(x["e"]).get("t")) or "")]
                if not used:
                    ctx.note_unarmed(R_mhdr, fname, "not computed from a recorded position: %s" % r[:60])
                    continue
                base = re.sub(r"_(data_)?start$", "", used[0])
                if base == want:
                    ctx.ok(R_mhdr, {"field": fname, "from": used[0]})
                else:
                    ctx.bad(R_mhdr, "mhdr|%s" % fname, "%s:%d" % (mh.file, lit["ln"]), "`%s` is computed from positions.%s" % (fname, used[0]),
                            "the header entry for %s points at the %s chunk" % (want.upper(), base.upper()))

    wc = fns.get(SER + "write_chunk")
    if wc is None:
        ctx.bad(R_frame, "write_chunk|missing", "-", "function not found", "anchor gone")
    else:
        ctx.saw_fn(wc)
        body = wc.hir["body"]
        lets = {l["pat"]["name"]: hirq.render(l.get("init")) for l in hirq.find(body, "let") if l["pat"].get("k") == "bind" and l.get("init") is not None}
        size_expr = lets.get("size", "")
        pos_locals = [k for k, v in lets.items() if "stream_position" in v]
        seeks = [c for c in hirq.walk(body) if c.get("k") == "mcall" and c["m"] == "seek"]
        if len(pos_locals) >= 2 and all(p in size_expr for p in pos_locals[:2]) and "-" in size_expr and seeks:
            ctx.ok(R_frame, {"size": size_expr, "positions": pos_locals})
        else:
            ctx.bad(R_frame, "write_chunk|size", wc.where, "size is `%s` (positions: %s)" % (size_expr, pos_locals), "chunk length no longer follows from what was written: framing can disagree with the payload")

    # MCNK offset field mapping
    wm = fns.get(SER + "write_mcnk_chunk")
    pm = next((f for p, f in fns.items() if p.endswith("mcnk::chunk::McnkChunk::parse_with_offset_and_size")), None)
    if wm is None or pm is None:
        ctx.bad(R_ofs, "mcnk|missing", "-", "write_mcnk_chunk or McnkChunk parser not found", "anchor gone")
    else:
        ctx.saw_fn(wm)
        ctx.saw_fn(pm)
        wmap = {}
        for blk in hirq.find(wm.hir["body"], "block"):
            st = stmts_of(blk)
            for i, s in enumerate(st):
                if s.get("k") == "assign":
                    l = hirq.strip(s["l"])
                    if l.get("k") == "field" and l["name"].startswith("ofs_") and "stream_position" in hirq.render(s["r"]):
                        for nxt in st[i + 1:i + 4]:
                            w = chunk_written(nxt)
                            if w:
                                wmap.setdefault(l["name"], set()).add(w)
                                break
                            # manual writes: writer.write_all(&ChunkId::X.0)
                            mm = re.search(r"ChunkId::(MC\w\w)|(MC\w\w)\.0", hirq.render(nxt))
                            if mm:
                                pass
        pmap = {}
        for c in hirq.calls(pm.hir["body"]):
            if (c.get("fn") or "").endswith("read_subchunk") and len(c["args"]) >= 4:
                magic = hirq.lit_str(hirq.strip(c["args"][3]))
                # the offset may be held in a local first (`let layer_ofs = header.ofs_layer;`)
                for off in [hirq.strip(c["args"][2])] + [hirq.strip(v_) for v_ in hirq.value_leaves(pm.hir["body"], c["args"][2]) if v_ is not None]:
                    if off.get("k") == "field" and magic:
                        pmap.setdefault(off["name"], set()).add(magic)
                        break
        for fld, magics in sorted(pmap.items()):
            if fld not in wmap:
                ctx.note_unarmed(R_ofs, fld, "writer sets this field outside the recognised capture→write_chunk pattern")
                continue
            if magics & wmap[fld]:
                ctx.ok(R_ofs, {"field": fld, "parser_reads": sorted(magics), "writer_writes": sorted(wmap[fld])})
            else:
                ctx.bad(R_ofs, "mcnk|%s" % fld, "%s:%d" % (wm.file, wm.lo), "parser locates %s through header.%s but the writer sets it before %s" % (sorted(magics), fld, sorted(wmap[fld])),
                        "the parser follows the offset to a different sub-chunk than the one it expects")

    # binrw duals (syntax level)
    root = os.path.join(facts.REPO, "file-formats", "world-data", "wow-adt", "src")
    n_types = 0
    eof_types = set()
    for path in sorted(glob.glob(os.path.join(root, "**", "*.rs"), recursive=True)):
        rel = os.path.relpath(path, facts.REPO)
        lines = open(path, encoding="utf-8").read().split("\n")
        derive_both = False
        pending = []
        cur_type = None
        depth = 0
        for ln, line in enumerate(lines, 1):
            s = line.strip()
            if s.startswith("#[derive("):
                d = s
                j = ln
                while ")]" not in d and j < len(lines):
                    d += lines[j].strip()
                    j += 1
                derive_both = "BinRead" in d and "BinWrite" in d
                continue
            m = re.match(r"^(pub(\(\w+\))? )?(struct|enum) (\w+)", s)
            if m:
                cur_type = m.group(4) if derive_both else None
                if cur_type:
                    n_types += 1
                derive_both = False
                pending = []
                continue
            if cur_type is None:
                continue
            a = re.match(r"^#\[(br|bw|brw)\((.*)\)\]$", s)
            if a:
                pending.append((a.group(1), a.group(2), ln))
                continue
            if s.startswith("#[") or s.startswith("//") or not s:
                continue
            if s == "}":
                cur_type = None
                continue
            # a field / variant line: judge the pending directives
            fname = re.match(r"^(pub(\(\w+\))? )?(\w+)\s*[:(,{]?", s)
            fld = fname.group(3) if fname else "?"
            sides = {"br": [], "bw": []}
            for side, txt, l_ in pending:
                for d in re.split(r",\s*(?![^()]*\))", txt):
                    key = d.split("=")[0].split("(")[0].strip()
                    if side == "brw":
                        continue
                    sides[side].append((key, d.strip(), l_))
            for side, other in (("br", "bw"), ("bw", "br")):
                for key, d, l_ in sides[side]:
                    okeys = {k for k, _, _ in sides[other]}
                    if key == "parse_with":
                        pw = d.split("=", 1)[1].strip() if "=" in d else ""
                        helper = next((f_ for f_ in adt.fn_list if f_.hir and f_.kind != "Closure" and norm(f_.path).split("::")[-1] == pw.split("::")[-1]), None)
                        if re.search(r"until_eof", pw) or (helper is not None and any(x.get("k") in ("loop", "while") for x in hirq.walk(helper.hir["body"]))):
                            eof_types.add(cur_type)
                    if key in ("parse_with", "write_with"):
                        if re.search(r"until_eof|until_exclusive|until\b", d):
                            ctx.ok(R_dual, {"type": cur_type, "field": fld, "directive": d[:50], "note": "read-to-end of a Vec: the derive writes every element"})
                            continue
                        dual = "write_with" if key == "parse_with" else "parse_with"
                        if dual in okeys:
                            ctx.ok(R_dual, {"type": cur_type, "field": fld, "directive": d[:50], "dual": dual})
                        else:
                            ctx.bad(R_dual, "%s.%s|%s" % (cur_type, fld, key), "%s:%d" % (rel, l_), "`#[%s(%s)]` has no `%s` counterpart" % (side, d[:60], dual), "custom layout on one side only: bytes written differ from bytes parsed")
                    elif key in WIRE_DIRECTIVES:
                        val = d.split("=", 1)[1].strip() if "=" in d else ""
                        if val in ("0", "0usize") or key in okeys:
                            ctx.ok(R_dual, {"type": cur_type, "field": fld, "directive": d[:50]})
                        else:
                            ctx.bad(R_dual, "%s.%s|%s" % (cur_type, fld, key), "%s:%d" % (rel, l_), "`#[%s(%s)]` affects the wire layout on the %s side only" % (side, d[:60], "read" if side == "br" else "write"),
                                    "reader and writer disagree on padding/alignment/presence for this field")
                    else:
                        # count=, map=, args=, dbg … : value handling, no layout asymmetry (a Vec is written in full)
                        ctx.ok(R_dual, {"type": cur_type, "field": fld, "directive": d[:50], "class": "layout-neutral"})
            pending = []
    ctx.types_both = n_types

    # end-of-stream-terminated types are only ever parsed from a reader that ends where their chunk ends
    R_eof = ctx.rule("C14.eof-terminated-types-read-bounded", "a type whose BinRead runs \"until end of stream\" is parsed only from a Cursor/Take over its own chunk, never from the whole-file reader", floor=10)
    if not eof_types:
        ctx.bad(R_eof, "eof-types|none", "-", "no until-EOF type recognised (placements, strings, MTXF… are expected)", "rule cannot see its subjects")
    READ_FN = re.compile(r"binread::(BinRead|BinReaderExt)::read(_le|_be|_ne|_options|_args|_le_args|_be_args)?$")
    # crate-local generic helpers that parse a generic T from their generic (whole-file) reader parameter
    unbounded_helpers = set()
    for f in adt.fn_list:
        if f.kind == "Closure" or not f.hir or "::tests::" in f.path:
            continue
        for c in hirq.calls(f.hir["body"]):
            if READ_FN.search(c.get("fn") or "") and c.get("args"):
                rty = adt.ty(c.get("t")) or ""
                aty = adt.ty(c["args"][0].get("t")) or adt.ty(hirq.strip(c["args"][0]).get("t")) or ""
                if re.search(r"Result<[A-Z]\w{0,2},", rty) and re.match(r"^&mut [A-Z]\w{0,2}$", aty):
                    unbounded_helpers.add(f.path)
    for f in adt.fn_list:
        if f.kind == "Closure" or not f.hir or "::tests::" in f.path or "::test_utils" in f.path:
            continue
        for c in hirq.calls(f.hir["body"]):
            fnp = c.get("fn") or ""
            if not (READ_FN.search(fnp) or fnp in unbounded_helpers):
                continue
            rty = adt.ty(c.get("t")) or ""
            m_ = re.search(r"Result<([\w:]+)", rty)
            tname = (m_.group(1).split("::")[-1] if m_ else "")
            if tname not in eof_types or not c.get("args"):
                continue
            ctx.saw_fn(f)
            aty = adt.ty(hirq.strip(c["args"][0]).get("t")) or ""
            a0 = hirq.strip(c["args"][0])
            if a0.get("t") is None and c["args"][0].get("t") is not None:
                aty = adt.ty(c["args"][0]["t"]) or ""
            inst = {"fn": norm(f.path), "type": tname, "reader": aty[:60], "line": c["ln"]}
            if re.search(r"Cursor<|Take<|&\[u8\]", aty) and fnp not in unbounded_helpers:
                ctx.ok(R_eof, inst)
            else:
                ctx.bad(R_eof, "%s|%s|unbounded-reader" % (norm(f.path), tname), "%s:%d" % (f.file, c["ln"]), "%s reads until end of stream but is parsed from `%s`" % (tname, aty[:50] or "?"),
                        "the list swallows every chunk that follows it in the file: the parsed content differs from what was written and each parse→rebuild round grows the file")

    # MCNK size fields: the convention (with / without the 8-byte sub-chunk header) is the same where the field is
    # written and where it is consumed
    R_sz = ctx.rule("C14.mcnk-size-field-convention-agrees", "for every `header.size_X` the serializer stores, bytes written from the sub-chunk start = 8 + bytes the MCNK reader takes after the sub-chunk header", floor=3)
    wsz = {}
    for f in adt.fn_list:
        if f.kind == "Closure" or not f.hir or "builder::serializer" not in f.path:
            continue
        for a in hirq.find(f.hir["body"], "assign"):
            l = hirq.strip(a["l"])
            if l.get("k") == "field" and l["name"].startswith("size_") and hirq.lit_int(a["r"]) is None:
                r_ = hirq.strip(a["r"])
                while r_.get("k") == "cast" or (r_.get("k") == "block" and not r_.get("stmts") and r_.get("e")):
                    r_ = hirq.strip(r_["e"])
                txt = hirq.render(r_)
                if r_.get("k") == "bin" and r_["op"] == "-":
                    k_w = 8 if hirq.lit_int(r_["r"]) == 8 else (0 if hirq.lit_int(r_["r"]) is None else None)
                    if k_w is not None:
                        wsz[l["name"]] = (k_w, f, a["ln"], txt)
    rd_fns = [f for f in adt.fn_list if f.kind != "Closure" and f.hir and "chunks::mcnk::chunk" in f.path and "::tests::" not in f.path]
    for name, (k_w, wf, wln, wtxt) in sorted(wsz.items()):
        j_r = None
        where = None
        for f in rd_fns:
            for x in hirq.walk(f.hir["body"]):
                if x.get("k") == "field" and x["name"] == name and hirq.render(x).startswith("header."):
                    if j_r is None:
                        j_r, where = 0, (f, x["ln"])
            for x in hirq.walk(f.hir["body"]):
                if x.get("k") == "mcall" and x["m"] in ("saturating_sub", "wrapping_sub", "checked_sub") and hirq.render(x["recv"]).endswith("header." + name) and hirq.lit_int(x["args"][0]) == 8:
                    j_r, where = 8, (f, x["ln"])
                if x.get("k") == "bin" and x["op"] == "-" and hirq.render(hirq.strip(x["l"])).endswith("header." + name) and hirq.lit_int(x["r"]) == 8:
                    j_r, where = 8, (f, x["ln"])
        if j_r is None:
            ctx.note_unarmed(R_sz, name, "field is stored by the serializer but not consumed by the MCNK reader")
            continue
        ctx.saw_fn(wf)
        if k_w + j_r == 8:
            ctx.ok(R_sz, {"field": name, "writer": wtxt[:60], "writer_excludes_header": k_w == 8, "reader_subtracts_header": j_r == 8})
        else:
            ctx.bad(R_sz, "mcnk|%s|convention" % name, "%s:%d" % (where[0].file, where[1]), "the serializer stores %s = `%s` (%s the 8-byte sub-chunk header) but the reader, after reading that header, takes %s bytes" % (
                name, wtxt[:50], "without" if k_w == 8 else "including", "%s - 8" % name if j_r == 8 else name),
                    "the reader consumes %d bytes %s than were written for this sub-chunk: at the end of the file the tile no longer parses (failed to fill whole buffer), elsewhere the neighbouring sub-chunk is misread" % (8, "more" if k_w + j_r < 8 else "fewer"))

    # the MCNK header is a copy of the source header: every field set only when a sub-chunk is present is cleared first
    R_clr = ctx.rule("C14.conditional-header-fields-cleared-first", "in the MCNK writer every `header.F` assigned inside an `if`/`if let` has an unconditional `header.F = ..` at function level (or an else assignment)", floor=8)
    for f in adt.fn_list:
        if f.kind == "Closure" or not f.hir or "builder::serializer" not in f.path:
            continue
        blk = hirq.strip(f.hir["body"])
        if blk.get("k") != "block":
            continue
        tops = blk.get("stmts", []) + ([blk["e"]] if blk.get("e") else [])

        def hfields(n):
            out = {}
            for x in hirq.walk(n, into_closures=False):
                if x.get("k") == "assign":
                    l = hirq.strip(x["l"])
                    if l.get("k") == "field" and hirq.render(hirq.strip(l["e"])) == "header":
                        out.setdefault(l["name"], x["ln"])
            return out
        uncond = {}
        for st in tops:
            if st.get("k") == "assign":
                uncond.update(hfields(st))
        cond = {}
        for st in tops:
            if st.get("k") == "if":
                t_ = hfields(st["then"])
                e_ = hfields(st["else"]) if st.get("else") is not None else {}
                for k_, ln in t_.items():
                    if k_ not in e_:
                        cond.setdefault(k_, ln)
        if not cond:
            continue
        ctx.saw_fn(f)
        for k_, ln in sorted(cond.items()):
            if k_ in uncond:
                ctx.ok(R_clr, {"fn": norm(f.path), "field": k_})
            else:
                ctx.bad(R_clr, "%s|%s|not-cleared" % (norm(f.path).split("::")[-1], k_), "%s:%d" % (f.file, ln), "header.%s is set only when its sub-chunk is written and is never cleared otherwise" % k_,
                        "the header starts as a copy of the parsed one: after the sub-chunk was removed the stale offset is written and names bytes outside this chunk — the reparse returns phantom data or fails")

    # the reader's sanity check on a record and the type's own validity predicate accept the same values
    R_val = ctx.rule("C14.reader-check-equals-validity-predicate", "MclqChunk::read_options rejects exactly what MclqChunk::has_valid_heights rejects on the (min, max) ordering", floor=1)
    from .. import cmpeval
    rd = next((f for f in adt.fn_list if f.hir and f.kind != "Closure" and re.search(r"MclqChunk as binrw::binread::BinRead>::read_options$|mclq::MclqChunk.*read_options$", f.path)), None)
    hv = next((f for f in adt.fn_list if f.hir and f.kind != "Closure" and norm(f.path).endswith("mclq::MclqChunk::has_valid_heights")), None)
    if rd is None or hv is None:
        ctx.bad(R_val, "mclq|missing", "-", "MclqChunk::read_options or has_valid_heights not found", "anchor gone")
    else:
        def order_table(fn):
            for x in hirq.walk(fn.hir["body"]):
                if x.get("k") == "bin" and x["op"] in ("<", "<=", ">", ">="):
                    ats = cmpeval.atoms(x)
                    if len(ats) == 2 and any("min_height" in a for a in ats) and any("max_height" in a for a in ats) and not any("abs" in a for a in ats):
                        lo = next(a for a in ats if "min_height" in a)
                        hi = next(a for a in ats if "max_height" in a)
                        return cmpeval.truth_table(x, lo, hi), hirq.render(x), x["ln"]
            return None
        ta, tb = order_table(rd), order_table(hv)
        ctx.saw_fn(rd)
        if ta is None or tb is None:
            ctx.bad(R_val, "mclq|shape", rd.where, "min/max ordering test not found in %s" % ("read_options" if ta is None else "has_valid_heights"), "shape changed")
        elif ta[0] == tb[0]:
            ctx.ok(R_val, {"reader": ta[1], "predicate": tb[1], "table": ta[0]})
        else:
            ctx.bad(R_val, "mclq|min-max-ordering", "%s:%d" % (rd.file, ta[2]), "the reader accepts `%s` (%s) but the type's validity predicate is `%s` (%s)" % (ta[1], ta[0], tb[1], tb[0]),
                    "a record the writer/validator considers valid (a level liquid: min == max) is rejected on read — and the MCNK parser swallows that error, so the liquid silently disappears after build→serialise→parse")


def run_extra(ctx):
    """rules armed after run(): shared rules that need nothing from run()'s locals"""
    from ..shared import setters_keep_other_settings_rule
    setters_keep_other_settings_rule(ctx, [ctx.prog.crate(c) for c in ["wow_adt"]], "C14", "adt_builder::AdtBuilder$", floor=15)
    adt = ctx.prog.crate("wow_adt")
    from .c10 import _bval, _NoEval
    # (1) a complete tile is 16 x 16 chunks — the MCIN table the crate writes has that many slots: the builder's limit on the number of
    # explicit chunks accepts a full tile and refuses one chunk more
    R_full = ctx.rule("C14.builder-accepts-a-full-tile", "AdtBuilder::build's guard on mcnk_chunks.len() is false for N and true for N + 1, N = the number of MCIN entries the crate allocates (McinChunk::default)", floor=1)
    dflt = next((f for f in adt.fn_list if f.hir and re.search(r"McinChunk as core::default::Default>::default$", f.path)), None)
    N = None
    if dflt is not None:
        for c_ in hirq.walk(dflt.hir["body"]):
            if c_.get("k") in ("call", "mcall") and re.search(r"from_elem$", c_.get("fn") or ""):
                N = hirq.const_int(c_["args"][-1])
    bld = adt.fns.get("wow_adt::builder::adt_builder::AdtBuilder::build")
    if N is None or bld is None or not bld.hir:
        ctx.bad(R_full, "full-tile|missing", "-", "McinChunk::default's entry count or AdtBuilder::build not found", "anchor gone")
    else:
        ctx.saw_fn(bld)
        guards = [g for g in hirq.find(bld.hir["body"], "if") if g["c"].get("k") != "letx" and re.search(r"mcnk_chunks\.len\(\)", hirq.render(g["c"]))
                  and any(x.get("k") == "ret" for x in hirq.walk(g["then"])) and "Err" in hirq.render(g["then"])]
        if not guards:
            ctx.bad(R_full, "full-tile|no-guard", bld.where, "no rejecting guard on mcnk_chunks.len() in build", "shape changed")
        for g in guards:
            try:
                at_n = _bval(g["c"], {"__leaf__": (lambda r_: N if r_.endswith("mcnk_chunks.len()") else None), "__ty__": adt.ty}, {})
                over = _bval(g["c"], {"__leaf__": (lambda r_: N + 1 if r_.endswith("mcnk_chunks.len()") else None), "__ty__": adt.ty}, {})
            except _NoEval as e:
                ctx.bad(R_full, "full-tile|not-evaluable", "%s:%d" % (bld.file, g.get("ln") or 0), "guard not evaluable: %s" % e, "shape changed")
                continue
            if at_n or not over:
                ctx.bad(R_full, "full-tile|limit", "%s:%d" % (bld.file, g.get("ln") or 0), "`%s` %s" % (hirq.render(g["c"])[:60], ("rejects a tile with %d chunks, the number of MCIN slots" % N) if at_n else ("accepts %d chunks, one more than there are MCIN slots" % (N + 1))),
                        "a complete 16x16 tile — and therefore every parsed complete tile handed back to the builder — cannot be built" if at_n else "the extra chunk has no MCIN slot")
            else:
                ctx.ok(R_full, {"guard": hirq.render(g["c"])[:60], "N": N})
    # (2) what is parsed per item starts fresh per item: an Option the loop fills only conditionally (no else) and stores into the
    # per-item record must be declared inside the loop — declared outside, item k inherits the value parsed for an earlier item
    R_fresh = ctx.rule("C14.per-item-optionals-start-fresh-per-item", "in wow-adt's parsers: every Option-typed local that a `for` loop assigns only under a condition and then stores into that iteration's record is declared inside the loop body", floor=3)
    for f in adt.fn_list:
        if f.kind == "Closure" or not f.hir or "::tests::" in f.path or not re.search(r"parser|chunks/|mh2o|chunk\.rs", f.file):
            continue
        body = f.hir["body"]
        for lp in hirq.find(body, "for"):
            inner_lets = {l["pat"]["name"] for l in hirq.find(lp["body"], "let") if l["pat"].get("k") == "bind"}
            assigned = {}
            for a in hirq.find(lp["body"], "assign"):
                l_ = hirq.strip(a["l"])
                if l_.get("k") == "path" and "local" in l_["res"] and re.search(r"option::Option<", adt.ty(l_.get("t")) or ""):
                    assigned.setdefault(l_["res"]["local"], []).append(a)
            for v, asg in assigned.items():
                # stored into the iteration's record: appears as a struct-literal field value or a push argument in the loop body
                stored = any((x.get("k") == "struct" and any(hirq.strip(e).get("k") == "path" and hirq.strip(e)["res"].get("local") == v for _n, e in x["fields"])) or
                             (x.get("k") == "mcall" and x["m"] == "push" and any(y.get("k") == "path" and (y.get("res") or {}).get("local") == v for a_ in x["args"] for y in hirq.walk(a_)))
                             for x in hirq.walk(lp["body"]))
                if not stored:
                    continue
                # unconditional (re)initialisation at the top level of the loop body also counts as fresh
                top = hirq.strip(lp["body"]).get("stmts") or []
                reset = any(st_.get("k") == "assign" and hirq.strip(st_["l"]).get("k") == "path" and hirq.strip(st_["l"])["res"].get("local") == v for st_ in top) or \
                    any(st_.get("k") in ("semi", "expr") and (st_.get("e") or {}).get("k") == "assign" and hirq.render((st_.get("e") or {}).get("l")) == v for st_ in top)
                ctx.saw_fn(f)
                inst = {"fn": norm(f.path).split("::")[-1], "local": v, "loop_line": lp.get("ln")}
                if v in inner_lets or reset:
                    ctx.ok(R_fresh, inst)
                else:
                    ctx.bad(R_fresh, "%s|%s|carried-across-items" % (inst["fn"], v), "%s:%d" % (f.file, asg[0].get("ln") or lp.get("ln") or 0),
                            "`%s` is declared outside the `for` loop, assigned only under a condition inside it, and stored into each item's record" % v,
                            "an item for which the condition is false keeps the value parsed for an earlier item: it parses back with data it never had, and the next write emits that data (the file grows, content differs)")
