"""C19 — the StormLib-style C API is memory-safe and deadlock-free on any call history.

Static clauses: lock-order graph of the global mutexes is acyclic and no mutex is re-acquired
while held (also through calls); closing an archive purges every table whose element records its
parent archive; every raw-pointer parameter dereference is dominated by its null check; every
copy into a caller buffer is bounded by the caller's size; table lookups fail closed (no
unwrap on a table miss); handles are only converted to table keys; header prototypes agree with
the exported functions.
"""
import os
import re
from collections import deque

from .. import facts, hirq, locks, mirg, rules
from ..mirg import plocal, pproj, op_local, op_const
from ..rules import ncallee, norm, Derive

META = {
    "level": "other",
    "technique": "lock-order/re-acquisition analysis on MIR guard lifetimes (through resolved calls) + null-check dominance (edge-sensitive) + bounded-copy derivation + sibling agreement (close vs child tables, header vs exports)",
    "claim": "Decides deadlock-freedom of the four global mutexes for every path and call chain (depth 4), exact-once purge of all child handle tables on close, null-guard dominance of every raw-pointer parameter dereference, size-bounding of every copy into caller memory, fail-closed table lookups, and header/export arity agreement. Does not compare C-API results with Rust-API results (value-level). Also: the copied length is the very value compared with the caller's size; counter statics are locked once per function (atomic allocation). Wave 5: (low, high) seek distances compose correctly under both calling conventions (9 distances x 2); raw copies of table memory run while the table's guard is live. Wave 6: all handle tables draw ids from one counter; no str range index at a computed byte budget. Wave 7: the entry reported by FindFirst / FindNext is file_list[current_index]. Wave 8: every store to a file handle's cursor is clamped on each value it can take; only issued handle values decode (codec evaluated over 4096 values).",
    "note": "Trusted: rustc MIR drop elaboration for guard lifetimes; std Mutex non-reentrancy; the C caller honours documented buffer sizes. Raw pointer validity beyond non-null is the caller's contract.",
    "assumptions": ["callers pass either null or valid pointers of the documented size", "only the four `static … LazyLock<Mutex<…>>` tables are shared between threads"],
    "explanation": "Every function of the storm-ffi crate: 33 lock sites, every extern \"C\" function's raw-pointer parameters, every copy_nonoverlapping, every table get/remove, the close function and the generated header.",
}

DEREF_CALLS = re.compile(r"(core::ffi::c_str::CStr::from_ptr|core::slice::raw::from_raw_parts(_mut)?|core::ptr::read|core::ptr::write|"
                         r"core::intrinsics::copy_nonoverlapping|core::ptr::copy_nonoverlapping|core::ptr::copy|core::ptr::write_bytes|"
                         r"core::ptr::mut_ptr::<impl \*mut T>::(write|read|add|offset|write_bytes|copy_from|copy_to)\w*|"
                         r"core::ptr::const_ptr::<impl \*const T>::(read|add|offset|copy_to)\w*)$")
ISNULL = re.compile(r"::is_null$")


def is_raw_ptr(ty):
    return ty.startswith("*mut ") or ty.startswith("*const ")


def extern_fns(crate):
    return [f for f in crate.fn_list if f.kind == "Fn" and f.get("abi", "").startswith("C") and f.get("no_mangle")]


def reach_edges(cfg, start, forbidden):
    seen = {start}
    dq = deque([start])
    while dq:
        b = dq.popleft()
        for s in cfg.succ[b]:
            if (b, s) in forbidden or s in seen:
                continue
            seen.add(s)
            dq.append(s)
    return seen


def ptr_params(fn, crate):
    out = {}
    for i in range(1, fn.mir["argc"] + 1):
        ty = crate.ty(fn.mir["locals"][i][0]) or ""
        if is_raw_ptr(ty):
            out[i] = (fn.mir["locals"][i][1] or "_%d" % i, ty)
    return out


def alias_sets(fn, params):
    """locals that are plain copies / casts of a pointer parameter (flow-insensitive)"""
    alias = {p: {p} for p in params}
    changed = True
    while changed:
        changed = False
        for b in fn.mir["blocks"]:
            for st in b["s"]:
                if st[0] != "=" or pproj(st[1]):
                    continue
                rv = st[2]
                if rv[0] in ("use", "cast"):
                    src = rv[1] if rv[0] == "use" else rv[2]
                    sl = op_local(src)
                    if sl is not None and src[0] in ("c", "m") and not pproj(src[1]):
                        for p, s in alias.items():
                            if sl in s and plocal(st[1]) not in s:
                                s.add(plocal(st[1]))
                                changed = True
    return alias


CMP = {"Lt": lambda a, b: a < b, "Le": lambda a, b: a <= b, "Gt": lambda a, b: a > b, "Ge": lambda a, b: a >= b,
       "Eq": lambda a, b: a == b, "Ne": lambda a, b: a != b}


class NullSize:
    """Tiny path-sensitive abstract interpretation for one (pointer param P, integer param S) pair.
    Abstract state = set of (p_is_null, s_is_nonzero) pairs; refined along switch edges that test
    `P.is_null()` (possibly negated) or compare S with an integer constant."""

    def __init__(self, fn, cfg, p_alias, s_alias):
        self.fn, self.cfg = fn, cfg
        self.blocks = fn.mir["blocks"]
        self.meaning = {}     # bool local -> ('null', neg) | ('cmp', op, k, s_left, neg)
        # single-assignment integer constants (`let needed = 8u32;`)
        defs = {}
        for b in self.blocks:
            for st in b["s"]:
                if st[0] == "=" and not pproj(st[1]):
                    defs.setdefault(plocal(st[1]), []).append(st[2])
            if b["t"]["k"] == "call":
                defs.setdefault(plocal(b["t"]["d"]), []).append(None)
        self.konst = {}
        for l, ds in defs.items():
            if len(ds) == 1 and ds[0] is not None and ds[0][0] == "use" and mirg.op_int(ds[0][1]) is not None:
                self.konst[l] = mirg.op_int(ds[0][1])

        for _ in range(3):
            for l, ds in defs.items():
                if l not in self.konst and len(ds) == 1 and ds[0] is not None and ds[0][0] == "use" and ds[0][1][0] in ("c", "m") \
                        and not pproj(ds[0][1][1]) and op_local(ds[0][1]) in self.konst:
                    self.konst[l] = self.konst[op_local(ds[0][1])]

        def oint(o):
            v = mirg.op_int(o)
            if v is None and op_local(o) in self.konst and not pproj(o[1]):
                return self.konst[op_local(o)]
            return v
        changed = True
        rounds = 0
        while changed and rounds < 4:
            changed = False
            rounds += 1
            for b in self.blocks:
                t = b["t"]
                if t["k"] == "call" and ISNULL.search(ncallee(t) or "") and t["a"] and op_local(t["a"][0]) in p_alias:
                    if plocal(t["d"]) not in self.meaning:
                        self.meaning[plocal(t["d"])] = ("null", False)
                        changed = True
                for st in b["s"]:
                    if st[0] != "=" or pproj(st[1]):
                        continue
                    d = plocal(st[1])
                    rv = st[2]
                    if d in self.meaning:
                        continue
                    if rv[0] == "un" and rv[1] == "Not" and op_local(rv[2]) in self.meaning:
                        m = self.meaning[op_local(rv[2])]
                        self.meaning[d] = m[:-1] + (not m[-1],)
                        changed = True
                    elif rv[0] == "use" and op_local(rv[1]) in self.meaning and rv[1][0] in ("c", "m") and not pproj(rv[1][1]):
                        self.meaning[d] = self.meaning[op_local(rv[1])]
                        changed = True
                    elif rv[0] == "bin" and rv[1] in CMP:
                        a, b_ = rv[2], rv[3]
                        if op_local(a) in s_alias and oint(b_) is not None:
                            self.meaning[d] = ("cmp", rv[1], oint(b_), True, False)
                            changed = True
                        elif op_local(b_) in s_alias and oint(a) is not None:
                            self.meaning[d] = ("cmp", rv[1], oint(a), False, False)
                            changed = True

    def _filter(self, states, m, truth):
        out = set()
        for (pn, snz) in states:
            if m[0] == "null":
                want = truth != m[1]
                if pn == want:
                    out.add((pn, snz))
            else:
                _, op, k, s_left, neg = m
                t = truth != neg
                samples = [0] if not snz else sorted({1, max(1, k - 1), max(1, k), k + 1, 1 << 40})
                ok = False
                for v in samples:
                    r = CMP[op](v, k) if s_left else CMP[op](k, v)
                    if r == t:
                        ok = True
                if ok:
                    out.add((pn, snz))
        return out

    def run(self, entry_states):
        n = len(self.blocks)
        st_in = [set() for _ in range(n)]
        st_in[0] = set(entry_states)
        work = deque([0])
        while work:
            b = work.popleft()
            t = self.blocks[b]["t"]
            outs = []
            if t["k"] == "switch" and op_local(t["d"]) in self.meaning:
                m = self.meaning[op_local(t["d"])]
                listed = [v for v, _ in t["ts"]]
                for v, tgt in t["ts"]:
                    outs.append((tgt, self._filter(st_in[b], m, bool(v))))
                if listed == [0]:
                    outs.append((t["o"], self._filter(st_in[b], m, True)))
                elif listed == [1]:
                    outs.append((t["o"], self._filter(st_in[b], m, False)))
                else:
                    outs.append((t["o"], set(st_in[b])))
            else:
                for s_ in self.cfg.succ[b]:
                    outs.append((s_, set(st_in[b])))
            for tgt, sts in outs:
                if self.blocks[tgt].get("cl"):
                    continue
                if not sts <= st_in[tgt]:
                    st_in[tgt] |= sts
                    work.append(tgt)
        return st_in


def int_params(fn, crate):
    out = {}
    for i in range(1, fn.mir["argc"] + 1):
        if (crate.ty(fn.mir["locals"][i][0]) or "") in ("u32", "usize", "u64", "i32", "u16"):
            out[i] = fn.mir["locals"][i][1] or "_%d" % i
    return out


ALL4 = {(False, False), (False, True), (True, False), (True, True)}


def null_states(fn, crate, cfg, aliases, p):
    """yield (s_param or None, st_in) analyses for pointer param p"""
    ints = int_params(fn, crate)
    res = []
    for s in [None] + sorted(ints):
        s_alias = alias_sets(fn, {s: None})[s] if s is not None else set()
        ns = NullSize(fn, cfg, aliases[p], s_alias)
        res.append((s, ns.run(ALL4), ns))
    return res


def deref_events(fn, crate, aliases, helpers):
    """events: dict(bb, ln, what, p, helper=None|path, hp=index of the pointer in the helper, args=call operands)"""
    ev = []
    blocks = fn.mir["blocks"]

    def owner(l):
        for p, s in aliases.items():
            if l in s:
                return p
        return None
    for i, b in enumerate(blocks):
        if b.get("cl"):
            continue
        for st in b["s"]:
            if st[0] != "=":
                continue
            places = [st[1]] + [op[1] for op in mirg.rvalue_operands(st[2]) if op[0] in ("c", "m")]
            for pl in places:
                if pproj(pl) and pproj(pl)[0] == "*" and owner(plocal(pl)) is not None:
                    ev.append({"bb": i, "ln": st[3], "what": "*%s" % (fn.mir["locals"][plocal(pl)][1] or "_%d" % plocal(pl)), "p": owner(plocal(pl)), "helper": None})
        t = b["t"]
        if t["k"] == "call":
            c = ncallee(t) or ""
            if DEREF_CALLS.search(c):
                for a in t["a"]:
                    l = op_local(a)
                    if l is not None and owner(l) is not None:
                        ev.append({"bb": i, "ln": t["ln"], "what": c.split("::")[-1], "p": owner(l), "helper": None})
            elif c in helpers:
                for idx in helpers[c]:
                    if idx < len(t["a"]):
                        l = op_local(t["a"][idx])
                        if l is not None and owner(l) is not None:
                            ev.append({"bb": i, "ln": t["ln"], "what": "call " + c.split("::")[-1], "p": owner(l), "helper": c, "hp": idx, "args": t["a"]})
    return ev


def event_safety(f, crate, helpers):
    """returns list of (event, safe:bool) for every pointer-parameter dereference in f.
    helpers: path -> {ptr_idx: [(size_idx|None, unsafe_entry_combos)]}"""
    pp = ptr_params(f, crate)
    if not pp:
        return [], pp
    al = alias_sets(f, pp)
    cfg = mirg.Cfg(f)
    ints = int_params(f, crate)
    int_alias = {s_: alias_sets(f, {s_: None})[s_] for s_ in ints}
    evs = deref_events(f, crate, al, helpers)
    out = []
    cache = {}

    def states(p, s_):
        if (p, s_) not in cache:
            cache[(p, s_)] = NullSize(f, cfg, al[p], int_alias[s_] if s_ is not None else set()).run(ALL4)
        return cache[(p, s_)]
    for e in evs:
        p = e["p"]
        safe = False
        if e["helper"] is None:
            for s_ in [None] + sorted(ints):
                if not any(pn for (pn, snz) in states(p, s_)[e["bb"]]):
                    safe = True
                    break
        else:
            for (hs, unsafe) in helpers[e["helper"]][e["hp"]]:
                if not unsafe:
                    safe = True
                    break
                # map the helper's size argument back to one of our integer params
                sc = None
                if hs is not None and hs < len(e["args"]):
                    l = op_local(e["args"][hs])
                    for s_, aset in int_alias.items():
                        if l in aset:
                            sc = s_
                here = states(p, sc)[e["bb"]]
                if hs is not None and sc is None:
                    bad = any((pn, True) in unsafe or (pn, False) in unsafe for (pn, _x) in here)
                else:
                    bad = any(x in unsafe for x in here)
                if not bad:
                    safe = True
                    break
        out.append((e, safe))
    return out, pp


def helper_summaries(crate):
    """for non-exported fns with raw-pointer params: which entry combos (p_null, s_nonzero) reach a null deref"""
    helpers = {}
    for _round in range(2):
        for f in crate.fn_list:
            if f.kind == "Closure" or (f.get("no_mangle") and f.get("abi", "").startswith("C")):
                continue
            pp = ptr_params(f, crate)
            if not pp:
                continue
            al = alias_sets(f, pp)
            cfg = mirg.Cfg(f)
            ints = int_params(f, crate)
            int_alias = {s_: alias_sets(f, {s_: None})[s_] for s_ in ints}
            evs = deref_events(f, crate, al, helpers)
            summ = {}
            for p in pp:
                pe = [e for e in evs if e["p"] == p]
                if not pe:
                    continue
                opts = []
                for s_ in [None] + sorted(ints):
                    unsafe = set()
                    ns = NullSize(f, cfg, al[p], int_alias[s_] if s_ is not None else set())
                    for entry in ALL4:
                        st_in = ns.run({entry})
                        for e in pe:
                            if e["helper"] is None:
                                if any(pn for (pn, _z) in st_in[e["bb"]]):
                                    unsafe.add(entry)
                            else:
                                # nested helper: conservative — unsafe if reachable with P null
                                if any(pn for (pn, _z) in st_in[e["bb"]]):
                                    unsafe.add(entry)
                    opts.append((s_ - 1 if s_ is not None else None, unsafe))
                summ[p - 1] = opts
            if summ:
                helpers[f.path] = summ
    return helpers


def parse_header(path):
    protos = {}
    if not os.path.exists(path):
        return protos
    txt = open(path, encoding="utf-8", errors="replace").read()
    txt = re.sub(r"/\*.*?\*/", "", txt, flags=re.S)
    txt = re.sub(r"//[^\n]*", "", txt)
    fnptr = set(re.findall(r"typedef\s+[^;]*?\(\s*\*\s*(\w+)\s*\)", txt))
    parse_header.fnptr_types = fnptr
    txt = re.sub(r"typedef[^;]*;", "", txt)
    for m in re.finditer(r"\b([A-Za-z_][\w\s\*]*?)\b(SFile\w+|Storm\w+)\s*\(([^;{]*?)\)\s*;", txt):
        name = m.group(2)
        params = m.group(3).strip()
        if params in ("", "void"):
            ps = []
        else:
            ps = [x.strip() for x in params.split(",")]
        protos[name] = ps
    return protos


def c_width(p):
    p = p.replace("const ", "").strip()
    if any(re.search(r"\b%s\b" % t, p) for t in getattr(parse_header, "fnptr_types", ())):
        return "ptr"
    if "*" in p or re.search(r"\b(HANDLE|LPCSTR|LPSTR|LPVOID|LPDWORD|LPLONG|PLONG|LPOVERLAPPED|SFILE_FIND_DATA\s*\*|LPSFILE|char\s*\*|void\s*\*)\b", p) or p.startswith("LP") or p.startswith("P") and p[1:2].isupper():
        return "ptr"
    if re.search(r"\b(uint64_t|int64_t|ULONGLONG|LONGLONG|size_t|uintptr_t)\b", p):
        return "64"
    if re.search(r"\b(uint16_t|int16_t|WORD|USHORT|LCID)\b", p) and "DWORD" not in p:
        return "32" if "LCID" in p else "16"
    if re.search(r"\b(bool|BOOL|uint8_t|BYTE)\b", p):
        return "8" if re.search(r"\b(bool|uint8_t|BYTE)\b", p) else "32"
    return "32"


def rust_width(ty):
    if is_raw_ptr(ty) or ty.startswith("&") or ty.startswith("core::option::Option<"):
        return "ptr"
    return {"u64": "64", "i64": "64", "usize": "64", "isize": "64", "u32": "32", "i32": "32", "u16": "16", "i16": "16",
            "u8": "8", "i8": "8", "bool": "8"}.get(ty, "32")



def _cursor_inside_data_rule(ctx, st):
    """the read cursor of an open file handle never leaves its data: every store to a `position` field of a handle that also has
    `data` is clamped by that data's length on every value it can take (each arm of a `match`, each branch of an `if`), and every
    `position += n` adds an n that is min()-bounded by the bytes remaining.  (SFileReadFile slices `data[position..position+n]`
    and subtracts `len - position`: both rely on it; a seek arm that forgets the clamp turns the next read into an abort.)"""
    R = ctx.rule("C19.file-cursor-stays-inside-the-data", "every store to a handle's `position` is `min(.., data.len())`-clamped on each value it can take (or the literal 0), and every `position += n` has n = min(.., len - position)", floor=3)

    def is_len(e):
        return bool(re.search(r"\.data\.len\(\)$", hirq.render(hirq.strip(e))))

    def clamped(body, e, lets, depth=0):
        """every value e can take is bounded by data.len()"""
        outs = []
        for t in hirq.tails(e):
            t = hirq.strip(t)
            if t.get("k") in ("ret",) or (t.get("k") == "block" and any(x.get("k") == "ret" for x in hirq.walk(t))):
                continue                                   # an arm that leaves the function stores nothing
            if hirq.lit_int(t) == 0:
                continue
            if t.get("k") == "mcall" and t["m"] in ("min", "clamp") and (any(is_len(a) or lenlike(body, a, lets) for a in t["args"]) or is_len(t["recv"]) or lenlike(body, t["recv"], lets)):
                continue
            if t.get("k") == "call" and re.search(r"cmp::min$", t.get("fn") or "") and any(is_len(a) or lenlike(body, a, lets) for a in t["args"]):
                continue
            if t.get("k") == "path" and (t.get("res") or {}).get("local") in lets and depth < 4:
                if clamped(body, lets[t["res"]["local"]], lets, depth + 1):
                    continue
            outs.append(t)
        return not outs

    def lenlike(body, e, lets):
        e = hirq.strip(e)
        return e.get("k") == "path" and (e.get("res") or {}).get("local") in lets and is_len(lets[e["res"]["local"]])

    def remaining_bounded(body, e, lets, depth=0):
        """e = min(.., r) with r = len.saturating_sub(position) / len - position"""
        for t in hirq.tails(e):
            t = hirq.strip(t)
            if t.get("k") == "path" and (t.get("res") or {}).get("local") in lets and depth < 4:
                if remaining_bounded(body, lets[t["res"]["local"]], lets, depth + 1):
                    continue
                return False
            args = ([t["recv"]] + t["args"]) if t.get("k") == "mcall" and t["m"] == "min" else (t.get("args") if t.get("k") == "call" and re.search(r"cmp::min$", t.get("fn") or "") else None)
            if not args:
                return False
            ok = False
            for a in args:
                for v in hirq.value_leaves(body, a):
                    if v is None:
                        continue
                    r_ = hirq.render(v)
                    if re.search(r"\.data\.len\(\)(\.saturating_sub\(|\.checked_sub\(| - ).*\.position", r_):
                        ok = True
            if not ok:
                return False
        return True
    for f in st.fn_list:
        if f.kind == "Closure" or not f.hir or "::tests::" in f.path:
            continue
        body = f.hir["body"]
        lets = {l["pat"]["name"]: l["init"] for l in hirq.find(body, "let") if l["pat"].get("k") == "bind" and l.get("init") is not None}
        for a in hirq.walk(body):
            if a.get("k") not in ("assign", "assignop"):
                continue
            l_ = hirq.strip(a["l"])
            if l_.get("k") != "field" or l_["name"] != "position":
                continue
            ctx.saw_fn(f)
            name = norm(f.path).split("::")[-1]
            inst = {"fn": name, "store": hirq.render(a)[:70]}
            if a["k"] == "assign":
                good = clamped(body, a["r"], lets)
                why = "a value it can take is not `min(.., data.len())`"
            else:
                good = a.get("op") in ("+", "Add", "+=") and remaining_bounded(body, a["r"], lets)
                why = "the amount added is not min()-bounded by `data.len() - position`"
            if good:
                ctx.ok(R, inst)
            else:
                ctx.bad(R, "%s|position-store" % name, "%s:%d" % (f.file, a.get("ln") or 0), "`%s`: %s" % (inst["store"], why),
                        "after such a store the cursor can lie beyond the end of the data: the next SFileReadFile computes `len - position` / slices `data[position..]` and aborts the process (a seek beyond either end must be harmless)")
    # struct literals initialising the field
    for f in st.fn_list:
        if f.kind == "Closure" or not f.hir or "::tests::" in f.path:
            continue
        for n in hirq.find(f.hir["body"], "struct"):
            fd = dict((nm, e) for nm, e in n["fields"])
            if "position" in fd and "data" in fd:
                if hirq.lit_int(hirq.strip(fd["position"])) == 0:
                    ctx.ok(R, {"fn": norm(f.path).split("::")[-1], "init": "position: 0"})
                else:
                    ctx.bad(R, "%s|position-init" % norm(f.path).split("::")[-1], "%s:%d" % (f.file, n.get("ln") or 0), "a handle is created with position `%s`" % hirq.render(fd["position"])[:40], "the cursor of a fresh handle must be 0")



def _handle_codec_rule(ctx, st):
    """forged handles are reported as errors: the decoder of handle values (handle_to_id) must accept only values the encoder
    (id_to_handle) can have issued — for every handle value h in 1..=4096, decode(h) = Some(id) implies encode(id) == h (and
    decode(encode(id)) = Some(id) for id in 1..=255).  A decoder that drops bits without checking them lets up to 2^k - 1 values
    that were never issued reach a live object."""
    from .c10 import _ival, _bval, _NoEval
    R = ctx.rule("C19.only-issued-handle-values-decode", "handle_to_id(h) = Some(id) implies id_to_handle(id) == h for every h in 1..=4096, and handle_to_id(id_to_handle(id)) = Some(id) for id in 1..=255", floor=1)
    dec = next((f for f in st.fn_list if f.hir and f.kind != "Closure" and norm(f.path).endswith("::handle_to_id")), None)
    enc = next((f for f in st.fn_list if f.hir and f.kind != "Closure" and norm(f.path).endswith("::id_to_handle")), None)
    if dec is None or enc is None:
        ctx.bad(R, "handle-codec|missing", "-", "handle_to_id / id_to_handle not found", "anchor gone")
        return
    ctx.saw_fn(dec)
    ctx.saw_fn(enc)
    dp = [b for p_ in dec.hir["params"] for b in hirq.pat_binds(p_)]
    ep = [b for p_ in enc.hir["params"] for b in hirq.pat_binds(p_)]
    dlets = {l["pat"]["name"]: l["init"] for l in hirq.find(dec.hir["body"], "let") if l["pat"].get("k") == "bind" and l.get("init") is not None}
    elets = {l["pat"]["name"]: l["init"] for l in hirq.find(enc.hir["body"], "let") if l["pat"].get("k") == "bind" and l.get("init") is not None}

    def decode(n, h):
        n = hirq.strip(n)
        while n.get("k") == "block" and n.get("e") is not None and all(x.get("k") in ("let", "letx") for x in n.get("stmts") or []):
            n = hirq.strip(n["e"])
        env = {dp[0]: h, "__ty__": st.ty}
        if n.get("k") == "if":
            c = n["c"]
            r_ = hirq.render(c)
            if re.fullmatch(r"%s\.is_null\(\)" % re.escape(dp[0]), r_):
                cv = h == 0
            elif re.fullmatch(r"!%s\.is_null\(\)" % re.escape(dp[0]), r_):
                cv = h != 0
            else:
                cv = _bval(c, env, dlets)
            return decode(n["then"] if cv else n["else"], h)
        if n.get("k") == "ret":
            return decode(n["e"], h)
        if n.get("k") == "path" and (n["res"].get("def") or "").endswith("Option::None"):
            return None
        if n.get("k") == "call" and (n.get("fn") or "").endswith("Option::Some"):
            return _ival(n["args"][0], env, dlets)
        raise _NoEval(hirq.render(n)[:40])
    try:
        bad = None
        for h in range(1, 4097):
            i = decode(dec.hir["body"], h)
            if i is None:
                continue
            back = _ival(enc.hir["body"], {ep[0]: i, "__ty__": st.ty}, elets)
            if back != h and bad is None:
                bad = "handle value 0x%X decodes to id %d, but id %d is issued as 0x%X" % (h, i, i, back)
        for i in range(1, 256):
            h = _ival(enc.hir["body"], {ep[0]: i, "__ty__": st.ty}, elets)
            if decode(dec.hir["body"], h) != i and bad is None:
                bad = "id %d is issued as 0x%X, which decodes to %r" % (i, h, decode(dec.hir["body"], h))
    except _NoEval as e:
        ctx.bad(R, "handle-codec|not-evaluable", dec.where, "handle codec not evaluable: %s" % e, "shape changed")
        return
    if bad:
        ctx.bad(R, "handle-codec|forged-values-decode", dec.where, bad,
                "a value the library never handed out is accepted by every entry point as the live object whose handle it resembles (read, search, even close it): forged handles must be reported as invalid")
    else:
        ctx.ok(R, {"decoder": hirq.render(dec.hir["body"])[:80], "encoder": hirq.render(enc.hir["body"])[:60], "handles": 4096, "ids": 255})



def _callbacks_outside_locks_rule(ctx, st, fl):
    """a caller-supplied callback may call back into the API: it must not be invoked while one of the global table mutexes is held
    (std Mutex is not re-entrant — a callback that calls SFileHasFile on the same archive would deadlock).  Every call through a
    function value (a call terminator whose callee is a local, not a named function) in the crate is checked against the set of
    guards live at that point (lock engine)."""
    R = ctx.rule("C19.callbacks-run-outside-the-table-locks", "no call through a function value (caller-supplied callback) in storm-ffi happens while a global mutex guard is live", floor=1)
    n = 0
    for f in st.fn_list:
        if not f.mir or not f.mir.get("blocks") or "::tests::" in f.path:
            continue
        fnl = fl.get(f.path)
        for i, b in enumerate(f.mir["blocks"]):
            t = b["t"]
            if t["k"] != "call" or t["f"][0] not in ("c", "m") or t.get("x"):
                continue
            l0 = mirg.op_local(t["f"])
            ty0 = (st.ty(f.mir["locals"][l0][0]) or "") if l0 is not None else ""
            if "fn(" not in ty0:
                continue
            n += 1
            ctx.saw_fn(f)
            held = sorted(fnl.held_statics_at(i)) if fnl is not None else []
            inst = {"fn": f.path.split("::")[-1], "line": t["ln"], "callee_type": ty0[:60]}
            if held:
                ctx.bad(R, "%s|callback-under-lock|%s" % (inst["fn"], ",".join(x.split("::")[-1] for x in held)), "%s:%d" % (f.file, t["ln"]), "the callback is invoked while %s is locked" % ", ".join(x.split("::")[-1] for x in held),
                        "a callback that re-enters the API (any call that looks the archive up) blocks forever on the mutex its own caller holds")
            else:
                ctx.ok(R, inst)
    if n == 0:
        ctx.note_unarmed(R, "storm-ffi", "no call through a function value found")


def run(ctx):
    prog = ctx.prog
    st = prog.crate("storm")
    R_order = ctx.rule("C19.lock-order-acyclic", "the lock-order graph of the global mutexes (edges through resolved calls included) has no cycle", floor=3)
    R_reacq = ctx.rule("C19.no-reacquire-while-held", "no global mutex is locked again (directly or through a call) while its guard is live", floor=25)
    R_sites = ctx.rule("C19.lock-sites-resolved", "every Mutex::lock call is attributed to a named static", floor=33)
    R_purge = ctx.rule("C19.close-purges-child-tables", "closing an archive retains/removes entries in every table whose value type records its parent archive", floor=2)
    R_null = ctx.rule("C19.ptr-deref-null-guarded", "every dereference of a raw-pointer parameter is reachable only through the not-null edge of an is_null test on it", floor=30)
    R_copy = ctx.rule("C19.copy-bounded-by-caller-size", "the length of every copy into caller memory is min()-bounded or guard-compared against the caller's size parameter", floor=2)
    R_miss = ctx.rule("C19.lookups-fail-closed", "no unwrap/expect/index on the result of a handle-table lookup; a miss takes an error path", floor=20)
    R_handle = ctx.rule("C19.handles-are-keys", "HANDLE parameters are only compared, null-tested or converted to table keys — never dereferenced", floor=20)
    R_proto = ctx.rule("C19.header-agrees-with-exports", "each C prototype in the header agrees in arity and parameter widths with the exported function of the same name", floor=20)

    fl, acquires, edges, reacq = locks.analyse(st)

    # SFileSetFilePointer: (low, *high) follow the Win32 / StormLib convention — with a NULL high pointer the low part is a *signed*
    # 32-bit distance; with a high part the pair is one 64-bit value.  Decided by evaluating the composition over both conventions
    # for every distance a caller can express within +-2^31 (what an in-memory file can hold)
    _cursor_inside_data_rule(ctx, st)
    _handle_codec_rule(ctx, st)
    _callbacks_outside_locks_rule(ctx, st, fl)
    R_seek = ctx.rule("C19.seek-distance-composition", "SFileSetFilePointer composes (low, high) into the 64-bit distance d for d in {-2^31, -65536, -30, -1, 0, 1, 30, 65536, 2^31-1}, both with high == NULL (low = d) and with high = d >> 32, low = d & 0xFFFFFFFF", floor=2)
    sp = next((f_ for f_ in st.fn_list if f_.hir and f_.kind != "Closure" and f_.path.endswith("SFileSetFilePointer")), None)
    if sp is None:
        ctx.bad(R_seek, "SFileSetFilePointer|missing", "-", "function not found", "anchor gone")
    else:
        from .c10 import _ival, _NoEval
        ctx.saw_fn(sp)
        body = sp.hir["body"]
        init = next((l for l in hirq.find(body, "let") if l["pat"].get("k") == "bind" and l["pat"]["name"] == "offset" and l.get("init") is not None), None)
        upd_if = next((n for n in hirq.find(body, "if") if "is_null" in hirq.render(n["c"]) and any(u.get("k") == "assignop" and hirq.render(hirq.strip(u["l"])) == "offset" for u in hirq.walk(n["then"]))), None)
        if init is None or upd_if is None:
            ctx.bad(R_seek, "SFileSetFilePointer|shape", sp.where, "`let mut offset = ..` / `if !high.is_null() { offset |= .. }` not found", "shape changed")
        else:
            negated = hirq.strip(upd_if["c"]).get("k") == "un"
            lets_ = {l["pat"]["name"]: l["init"] for l in hirq.find(upd_if["then"], "let") if l["pat"].get("k") == "bind" and l.get("init") is not None}
            ups = [u for u in hirq.walk(upd_if["then"]) if u.get("k") == "assignop" and hirq.render(hirq.strip(u["l"])) == "offset"]
            tyf = lambda t_: st.ty(t_)
            try:
                bad = None
                for d in (-2 ** 31, -65536, -30, -1, 0, 1, 30, 65536, 2 ** 31 - 1):
                    for conv in ("null", "pair"):
                        low = d if conv == "null" else ((d & 0xFFFFFFFF) - (1 << 32) if (d & 0xFFFFFFFF) >= 2 ** 31 else (d & 0xFFFFFFFF))
                        high = None if conv == "null" else (d >> 32)
                        env = {"file_pos": low, "__ty__": tyf}
                        off = _ival(init["init"], env, {})
                        takes_update = (high is not None) if negated else (high is None)
                        if takes_update:
                            for u in ups:
                                rhs = _ival(u["r"], dict(env, file_pos_high=(high if high is not None else 0), offset=off), lets_)
                                off = {"|=": off | rhs, "+=": off + rhs, "^=": off ^ rhs}.get(u["op"], off)
                        if off != d and bad is None:
                            bad = (d, conv, low, high, off)
                if bad:
                    ctx.bad(R_seek, "SFileSetFilePointer|composition|%s" % bad[1], "%s:%d" % (sp.file, init.get("ln") or 0), "distance %d passed as (low=%d, high=%s) is composed into %d" % (bad[0], bad[2], "NULL" if bad[3] is None else bad[3], bad[4]),
                            "a backward FILE_CURRENT / FILE_END seek turns into a forward one clamped to the end of the file: the next read returns nothing (or other bytes) where the Rust API returns the data at position - k")
                else:
                    ctx.ok(R_seek, {"init": hirq.render(init["init"])[:40], "update": [hirq.render(u)[:50] for u in ups], "distances": 9, "conventions": 2})
                    ctx.ok(R_seek, {"note": "NULL-high convention: low part is signed"})
            except _NoEval as e:
                ctx.bad(R_seek, "SFileSetFilePointer|not-evaluable", sp.where, "offset composition not evaluable: %s" % e, "shape changed")

    # handles of all kinds (archive, file, search) come from ONE counter: each function validates a handle only against its own
    # table, which is sound only because an id is never issued twice across tables
    R_ns = ctx.rule("C19.handle-ids-come-from-one-counter", "every function that inserts into a handle table takes the id from the same integer-counter static", floor=3)
    counters_by_fn = {}
    for p_, x_ in fl.items():
        f_ = x_.fn
        inserts = [t for bb, t in mirg.iter_calls(f_) if re.search(r"HashMap<.*>::insert$|hash::map::HashMap::insert$|HashMap::<.*>::insert$", mirg.callee(t) or "")]
        if not inserts:
            continue
        cs = set()
        # the id may be drawn by a helper (`allocate_handle_id()`): counters locked by crate-local callees count, to depth 3
        sites, seen_, work_ = list(x_.lock_sites), {p_}, [(p_, 0)]
        while work_:
            q_, d_ = work_.pop()
            if d_ >= 3:
                continue
            for bb2, t2 in mirg.iter_calls(fl[q_].fn):
                cq = mirg.callee(t2) or ""
                if cq in fl and cq not in seen_:
                    seen_.add(cq)
                    sites += list(fl[cq].lock_sites)
                    work_.append((cq, d_ + 1))
        for site in sites:
            sname = site[1]
            sty = ""
            for a_ in st.items.get("statics", []) if isinstance(st.items.get("statics"), list) else []:
                if a_.get("path", "").endswith(sname):
                    sty = a_.get("ty", "")
            if re.search(r"Mutex<(u|i)(8|16|32|64|size)>", sty) or re.search(r"NEXT|COUNTER|SEQ", sname):
                cs.add(sname)
        if cs:
            counters_by_fn[p_] = cs
    allc = sorted({c_ for cs in counters_by_fn.values() for c_ in cs})
    if not counters_by_fn:
        ctx.bad(R_ns, "handles|no-counter", "-", "no handle-issuing function recognised", "shape changed")
    elif len(allc) == 1:
        for p_ in sorted(counters_by_fn):
            ctx.ok(R_ns, {"fn": p_.split("::")[-1], "counter": allc[0].split("::")[-1]})
    else:
        from collections import Counter as _Counter
        maj = _Counter(c_ for cs in counters_by_fn.values() for c_ in cs).most_common(1)[0][0]
        for p_, cs in sorted(counters_by_fn.items()):
            odd = sorted(cs - {maj})
            if odd:
                ctx.bad(R_ns, "%s|own-counter|%s" % (p_.split("::")[-1], odd[0].split("::")[-1]), x_.fn.file if False else fl[p_].fn.where, "%s issues ids from `%s`; the other handle-issuing functions use `%s`" % (p_.split("::")[-1], odd[0].split("::")[-1], maj.split("::")[-1]),
                        "ids of different handle kinds collide: a search handle passed to a file or archive function is silently run on an unrelated live object instead of failing with ERROR_INVALID_HANDLE")
            else:
                ctx.ok(R_ns, {"fn": p_.split("::")[-1], "counter": maj.split("::")[-1]})

    # a search handle's cursor names the entry that was reported last; FindNext resumes behind it.  That only enumerates each match once
    # if the entry handed to the caller *is* file_list[current_index] — in FindFirst as in FindNext
    R_cur = ctx.rule("C19.reported-entry-is-the-one-under-the-cursor", "in every function that fills find data from a search handle, the entry passed to fill_find_data derives from `file_list[<handle>.current_index]`", floor=2)
    for f_ in st.fn_list:
        if not f_.hir or f_.kind == "Closure" or "::tests::" in f_.path:
            continue
        for c_ in hirq.walk(f_.hir["body"]):
            if c_.get("k") != "call" or not (c_.get("fn") or "").endswith("fill_find_data") or len(c_.get("args") or []) < 2:
                continue
            ctx.saw_fn(f_)
            a_ = c_["args"][1]
            vals = [hirq.strip(a_)] + [hirq.strip(v_) for v_ in hirq.value_leaves(f_.hir["body"], a_) if v_ is not None]
            under = any(x_.get("k") == "index" and "file_list" in hirq.render(x_["e"]) and "current_index" in hirq.render(x_["i"]) for v_ in vals for x_ in hirq.walk(v_))
            if under:
                ctx.ok(R_cur, {"fn": f_.path.split("::")[-1], "entry": "file_list[current_index]"})
            else:
                ctx.bad(R_cur, "%s|entry-not-under-cursor" % f_.path.split("::")[-1], "%s:%d" % (f_.file, c_.get("ln") or 0), "the entry reported (`%s`) is not taken at the handle's cursor" % hirq.render(vals[-1])[:60],
                        "the cursor does not name the reported entry, so the next call resumes at the wrong place: a match is reported twice or skipped, and the C enumeration differs from the mask-filtered listing")

    # a panic inside an extern "C" function aborts the caller's process.  Slicing a str / String by a byte range panics when a bound is
    # not a character boundary, so inside the FFI crate a range index into text is allowed only with bounds that are boundaries by
    # construction (the result of find / rfind / char_indices, or the string's len()); truncation to a byte budget goes through bytes
    R_sl = ctx.rule("C19.no-text-slicing-at-computed-byte-offsets", "no `str`/`String` range index in storm-ffi whose bound passed through min / max / arithmetic with a constant budget (as_bytes-based copies are the accepted form)", floor=1)
    for f_ in st.fn_list:
        if not f_.mir or not f_.mir.get("blocks") or "::tests::" in f_.path:
            continue
        du_ = None
        for bb, t in mirg.iter_calls(f_):
            cn = mirg.callee(t) or ""
            if re.search(r"core::str::<impl str>::as_bytes$|String::as_bytes$|CStr::to_bytes", cn):
                ctx.ok(R_sl, {"fn": f_.path.split("::")[-1], "line": t["ln"], "form": "bytes"}) if len(ctx.samples) < 250 else (ctx.rules[R_sl].__setitem__("obligations", ctx.rules[R_sl]["obligations"] + 1), ctx.rules[R_sl].__setitem__("discharged", ctx.rules[R_sl]["discharged"] + 1))
                continue
            if not re.search(r"<(alloc::string::String|str) as core::ops::index::Index(Mut)?<.*>>::index(_mut)?$|str::traits::<impl core::ops::index::Index", cn) or len(t["a"]) < 2:
                continue
            ty0 = st.ty(f_.mir["locals"][mirg.op_local(t["a"][1])][0]) if mirg.op_local(t["a"][1]) is not None else ""
            if "Range" not in (ty0 or ""):
                continue
            du_ = du_ or mirg.DefUse(f_)
            _l, calls_, ints_ = du_.slice_back(mirg.op_local(t["a"][1]), depth=10)
            names = [(ncallee(c_) or "") for c_ in calls_]
            risky = [n_ for n_ in names if re.search(r"::(min|max|clamp|saturating_sub|saturating_add|checked_sub|checked_add|wrapping_sub)$", n_)]
            anchored = any(re.search(r"::(find|rfind|char_indices|match_indices|rmatch_indices|floor_char_boundary|ceil_char_boundary|is_char_boundary)$", n_) for n_ in names)
            if risky and not anchored:
                ctx.bad(R_sl, "%s|text-sliced-at-budget" % f_.path.split("::")[-1], "%s:%d" % (f_.file, t["ln"]), "a String/str is sliced by a range whose bound went through `%s`" % risky[0].split("::")[-1],
                        "for a name longer than the budget whose byte at the budget is inside a multi-byte character the slice panics inside an extern \"C\" function: the process aborts (SIGABRT)")
            else:
                ctx.ok(R_sl, {"fn": f_.path.split("::")[-1], "line": t["ln"], "form": "range index with boundary-anchored bound"})

    # memory reached through a table's guard is touched only while that guard is held: a raw pointer (or reference) taken from an
    # entry and used by a copy after the guard was dropped races with SFileCloseFile / SFileCloseArchive freeing the entry
    R_live = ctx.rule("C19.table-memory-used-under-its-lock", "every raw copy / read whose source or destination derives from a handle-table guard executes while that guard is live", floor=3)
    for p_, x_ in fl.items():
        f_ = x_.fn
        for bb, t in mirg.iter_calls(f_):
            cn = ncallee(t) or ""
            if not re.search(r"(intrinsics|ptr)::(copy_nonoverlapping|copy|read|read_unaligned|write|write_bytes)$|slice::(raw::)?from_raw_parts(_mut)?$|ptr::(const_ptr|mut_ptr)::.*::(copy_to|copy_from|copy_to_nonoverlapping|copy_from_nonoverlapping|read|write)$", cn):
                continue
            used = set()
            for a in t["a"]:
                al = mirg.op_local(a)
                if al is None:
                    continue
                anc, _c, _i = x_.du.slice_back(al, depth=16)
                used |= {g for g in anc if g in x_.guard_of}
            if not used:
                continue
            dead = sorted(x_.guard_of[g] for g in used if g not in x_.held_at_term[bb])
            inst = {"fn": p_.split("::")[-1], "line": t["ln"], "call": cn.split("::")[-1], "guards": sorted({x_.guard_of[g] for g in used})}
            if dead:
                ctx.bad(R_live, "%s|%s|after-unlock" % (p_.split("::")[-1], cn.split("::")[-1]), "%s:%d" % (f_.file, t["ln"]), "`%s` uses memory obtained through the %s guard after that guard was dropped" % (cn.split("::")[-1], ", ".join(dead)),
                        "another thread closing the file or its archive between the unlock and the copy frees the buffer: use after free (SIGSEGV or stale bytes reported as a successful read)")
            else:
                ctx.ok(R_live, inst)

    # a counter behind a mutex is read and advanced under ONE guard: a function that takes the same counter lock twice
    # has a window between the two in which another thread allocates the same value
    R_atomic = ctx.rule("C19.counter-read-modify-write-is-one-critical-section", "no function locks an integer-counter static (NEXT_HANDLE) more than once", floor=1)
    for p_, x_ in fl.items():
        by_static = {}
        for site in x_.lock_sites:
            by_static.setdefault(site[1], []).append(site)
        for sname, sites in by_static.items():
            sty = ""
            for a_ in st.items.get("statics", []) if isinstance(st.items.get("statics"), list) else []:
                if a_.get("path", "").endswith(sname):
                    sty = a_.get("ty", "")
            is_counter = bool(re.search(r"Mutex<(u|i)(8|16|32|64|size)>", sty)) or bool(re.search(r"NEXT|COUNTER|SEQ|_ID$", sname))
            if not is_counter:
                continue
            if len(sites) > 1:
                ctx.bad(R_atomic, "%s|%s|split-critical-section" % (p_, sname.split("::")[-1]), "%s:%s" % (x_.fn.file, sites[1][2] if len(sites[1]) > 2 else x_.fn.lo), "%s is locked %d times in this function (lines %s)" % (sname.split("::")[-1], len(sites), [s_[2] for s_ in sites if len(s_) > 2]),
                        "the value read under the first guard can be read by another thread before the second guard advances it: two live handles get the same id — one caller's table entry silently replaces the other's")
            else:
                ctx.ok(R_atomic, {"fn": p_, "counter": sname.split("::")[-1]})
    for p, x in fl.items():
        ctx.saw_fn(x.fn)
        for bb, s, ln in x.lock_sites:
            ctx.call_sites += 1
            if s == "?":
                ctx.bad(R_sites, "%s|lock-unresolved" % p, "%s:%d" % (x.fn.file, ln), "lock() on a mutex that is not a named static", "lock analysis cannot account for it")
            else:
                ctx.ok(R_sites, {"fn": p, "static": s, "line": ln})
    cyc = locks.find_cycle(edges)
    if cyc:
        wit = []
        for a, b in zip(cyc, cyc[1:]):
            f_, ln, via = edges[(a, b)][0]
            wit.append("%s→%s at %s:%d (%s)" % (a.split("::")[-1], b.split("::")[-1], f_.split("::")[-1], ln, via))
        ctx.bad(R_order, "cycle|" + "→".join(c.split("::")[-1] for c in cyc), "-", "; ".join(wit),
                "two threads taking these locks in opposite orders deadlock")
    for (a, b), sites in sorted(edges.items()):
        if not cyc or (a not in cyc or b not in cyc):
            ctx.ok(R_order, {"edge": "%s→%s" % (a.split("::")[-1], b.split("::")[-1]), "sites": [(f.split("::")[-1], ln, via) for f, ln, via in sites[:4]]})
    bad_fns = set()
    seen_re = set()
    for p, ln, s, via in reacq:
        key = "%s|%s|%s" % (p, s.split("::")[-1], (via or "").replace("call ", ""))
        if key in seen_re:
            continue
        seen_re.add(key)
        bad_fns.add(p)
        ctx.bad(R_reacq, key, "%s:%d" % (fl[p].fn.file, ln), "%s is locked again via %s while its guard is still live" % (s.split("::")[-1], via),
                "std::sync::Mutex is not re-entrant: the calling thread blocks forever holding the lock, and every later API call blocks with it")
    for p, x in fl.items():
        if x.lock_sites and p not in bad_fns:
            ctx.ok(R_reacq, {"fn": p, "locks": sorted({s.split("::")[-1] for _, s, _ in x.lock_sites})})

    # child tables: statics Mutex<HashMap<usize, T>> where T has a field naming the parent archive
    adts = {a["path"]: a for a in st.items["adts"]}
    child = {}
    for s in st.items["statics"]:
        m = re.search(r"HashMap<usize, (storm::\w+)>", s["ty"])
        if m and m.group(1) in adts:
            flds = [f["name"] for f in adts[m.group(1)].get("fields", [])]
            parent = [f for f in flds if re.search(r"archive_(handle|id)|parent", f)]
            if parent:
                child[s["path"]] = (m.group(1), parent[0])
    close = st.fns.get("storm::SFileCloseArchive")
    if close is None:
        ctx.bad(R_purge, "SFileCloseArchive|missing", "-", "close function not found", "anchor gone")
    else:
        x = fl[close.path]
        purged = set()
        for bb, t in mirg.iter_calls(close):
            c = ncallee(t) or ""
            if re.search(r"HashMap::(retain|remove|clear|extract_if|drain)$", c):
                # receiver derives from the guard of which static?
                l = op_local(t["a"][0])
                ls, calls, _ = x.du.slice_back(l, depth=8)
                for g in ls:
                    if g in x.guard_of:
                        purged.add((x.guard_of[g], c.split("::")[-1]))
        # helper functions called from close may purge as well
        for bb, t in mirg.iter_calls(close):
            tgt = norm(mirg.callee(t) or "")
            if tgt in fl and tgt != close.path:
                hx = fl[tgt]
                for b2, t2 in mirg.iter_calls(hx.fn):
                    c2 = ncallee(t2) or ""
                    if re.search(r"HashMap::(retain|remove|clear)$", c2):
                        ls, _, _ = hx.du.slice_back(op_local(t2["a"][0]), depth=8)
                        for g in ls:
                            if g in hx.guard_of:
                                purged.add((hx.guard_of[g], c2.split("::")[-1]))
        for tbl, (vt, fld) in sorted(child.items()):
            if any(s == tbl and op in ("retain", "extract_if") for s, op in purged):
                ctx.ok(R_purge, {"table": tbl, "value_type": vt, "parent_field": fld})
            else:
                ctx.bad(R_purge, "SFileCloseArchive|%s|not-purged" % tbl.split("::")[-1], close.where,
                        "table %s (values `%s` record their archive in `%s`) is not purged when an archive is closed" % (tbl.split("::")[-1], vt.split("::")[-1], fld),
                        "handles into a closed archive stay valid: later calls on them succeed on stale state instead of reporting ERROR_INVALID_HANDLE, and the entries leak")
        if not child:
            ctx.bad(R_purge, "child-tables|none", "-", "no child handle table recognised", "shape of the handle tables changed")
        # ... and in this order: the archive leaves its own table *before* the child tables are purged.  SFileOpenFileEx and
        # SFileFindFirstFile hold the archive table while they register a handle, so once the archive is gone no new child can
        # appear; purging first leaves a window in which a concurrent open registers a handle that survives the close
        R_ord2 = ctx.rule("C19.close-removes-the-archive-before-purging-children", "in SFileCloseArchive the removal from the archive table dominates every purge of a child table", floor=1)
        cfg_c = mirg.Cfg(close)
        rem_bbs, purge_bbs = [], []
        parent_tbl = next((p_ for p_ in set(x.guard_of.values()) if p_ not in child and re.search(r"ARCHIVES$", p_)), None)
        for bb, t in mirg.iter_calls(close):
            c = ncallee(t) or ""
            if re.search(r"HashMap::(retain|remove|extract_if)$", c):
                ls, _c, _i = x.du.slice_back(op_local(t["a"][0]), depth=8)
                tabs = {x.guard_of[g] for g in ls if g in x.guard_of}
                if parent_tbl in tabs and c.endswith("remove"):
                    rem_bbs.append(bb)
                if tabs & set(child):
                    purge_bbs.append((bb, sorted(tabs & set(child))[0]))
        if not rem_bbs or not purge_bbs:
            ctx.note_unarmed(R_ord2, "SFileCloseArchive", "removal from the archive table or child purges not found in the function body itself")
        else:
            late = [(bb, tb) for bb, tb in purge_bbs if not any(cfg_c.dominates(r_, bb) and r_ != bb for r_ in rem_bbs)]
            if late:
                ctx.bad(R_ord2, "SFileCloseArchive|purge-before-removal|%s" % late[0][1].split("::")[-1], close.where, "the purge of %s is not dominated by the removal of the archive from %s" % (late[0][1].split("::")[-1], parent_tbl.split("::")[-1]),
                        "between the purge and the removal another thread can open a file (or start a search) on the archive: that handle is registered after the purge and outlives the close")
            else:
                ctx.ok(R_ord2, {"removal_dominates": [tb.split("::")[-1] for _b, tb in purge_bbs]})

    # pointer parameter derefs
    helpers = helper_summaries(st)
    for f in extern_fns(st):
        evs, pp = event_safety(f, st, helpers)
        if not pp:
            continue
        ctx.saw_fn(f)
        handles = {p for p, (n, ty) in pp.items() if ty == "*mut core::ffi::c_void" and re.search(r"^(h|handle|archive|file|find|mpq)\w*$", n, re.I) and not re.search(r"buffer|overlapped|data", n, re.I)}
        seen_keys = set()
        for e, safe in evs:
            p = e["p"]
            name = pp[p][0]
            if p in handles and e["helper"] is None:
                ctx.bad(R_handle, "%s|%s|deref" % (f.path, name), "%s:%d" % (f.file, e["ln"]), "handle parameter `%s` is dereferenced (%s)" % (name, e["what"]),
                        "a forged or stale handle value would be used as an address")
                continue
            if not safe:
                key = "%s|%s|%s" % (f.path, name, e["what"])
                if key in seen_keys:
                    continue
                seen_keys.add(key)
                ctx.bad(R_null, key, "%s:%d" % (f.file, e["ln"]), "`%s` (%s) can be reached with `%s` null: no is_null rejection (nor a size test implying it) on that path" % (name, e["what"], name),
                        "a null pointer from the C caller is dereferenced: undefined behaviour / crash instead of an error return")
            else:
                ctx.ok(R_null, {"fn": f.path, "param": name, "deref": e["what"], "line": e["ln"]})
        for p in handles:
            if not any(e["p"] == p and e["helper"] is None for e, _ in evs):
                ctx.ok(R_handle, {"fn": f.path, "handle_param": pp[p][0]})

    # copy lengths
    for f in st.fn_list:
        der = None
        for bb, t in mirg.iter_calls(f):
            c = ncallee(t) or ""
            if not re.search(r"(copy_nonoverlapping|ptr::copy|write_bytes)$", c) or len(t["a"]) < 3:
                continue
            ctx.call_sites += 1
            root_fn = f
            der = der or Derive(f)
            dst_roots = der.roots(t["a"][1])
            dparams = {w[0] for k, w, d in dst_roots if k == "param"}
            if not dparams:
                continue
            int_params = {i: (f.mir["locals"][i][1] or "_%d" % i) for i in range(1, f.mir["argc"] + 1)
                          if (st.ty(f.mir["locals"][i][0]) or "") in ("u32", "usize", "u64", "i32")
                          and re.search(r"size|len|read|count|cch|cb|max", f.mir["locals"][i][1] or "", re.I)}
            key = "%s|%s|len" % (f.path, c.split("::")[-1])
            where = "%s:%d" % (f.file, t["ln"])
            if not int_params:
                ctx.note_unarmed(R_copy, f.path, "API gives no buffer size for this copy (StormLib signature): caller contract")
                continue
            len_roots = der.roots(t["a"][2])
            via_min = any(k == "call" and re.search(r"(::min|::clamp|saturating_sub)$", w) for k, w, d in len_roots)
            from_size = any(k == "param" and w[0] in int_params for k, w, d in len_roots)
            cfg = mirg.Cfg(f)
            guarded = False
            if not (via_min and from_size):
                # dominating comparison between a size parameter and something sharing a source with the length
                len_calls = {w for k, w, d in len_roots if k == "call"}
                len_locals, _, _ = der.du.slice_back(op_local(t["a"][2]) or -1, depth=10) if op_local(t["a"][2]) is not None else (set(), [], set())
                for i2, b2 in enumerate(f.mir["blocks"]):
                    tt = b2["t"]
                    if tt["k"] != "switch" or not cfg.dominates(i2, bb):
                        continue
                    dl = op_local(tt["d"])
                    for st_ in b2["s"]:
                        if st_[0] == "=" and plocal(st_[1]) == dl and st_[2][0] == "bin" and st_[2][1] in ("Lt", "Le", "Gt", "Ge"):
                            sides = [st_[2][2], st_[2][3]]
                            rs = [der.roots(s) for s in sides]
                            has_size = any(any(k == "param" and w[0] in int_params for k, w, d in r) for r in rs)
                            # the compared quantity must be the copied length itself: the same local, or a value produced by the very
                            # same chain of calls (`x.as_bytes_with_nul().len()` twice) — a *related* length (`x.as_bytes().len()`) is
                            # a different number and bounds nothing
                            def same_value(r, s_):
                                if op_local(s_) is not None and op_local(s_) == op_local(t["a"][2]):
                                    return True
                                if op_local(s_) in len_locals and not {w for k, w, d in r if k == "call"}:
                                    return True
                                sc = {w for k, w, d in r if k == "call"}
                                return bool(sc) and sc == len_calls
                            shares = any(same_value(r, s_) for r, s_ in zip(rs, sides))
                            if has_size and shares:
                                guarded = True
            if (via_min and from_size) or guarded:
                ctx.ok(R_copy, {"fn": f.path, "line": t["ln"], "bounded_by": "min(size param)" if via_min else "dominating size comparison"})
            else:
                ctx.bad(R_copy, key, where, "copy length is not bounded by the caller's size parameter (%s)" % ", ".join(int_params.values()),
                        "more bytes than the caller's buffer holds can be written: heap/stack corruption in the C caller")

    # local helpers that always report an error code (every return passes set_last_error(k != 0))
    reporters = set()
    for g in st.fn_list:
        if g.kind == "Closure":
            continue
        eb = [b_ for b_, t_ in mirg.iter_calls(g) if (ncallee(t_) or "").endswith("set_last_error") and t_["a"] and (mirg.op_int(t_["a"][0]) or 0) != 0]
        if eb:
            cg_ = mirg.Cfg(g)
            if cg_.must_pass(eb, cg_.returns())[0]:
                reporters.add(norm(g.path))

    # lookups fail closed
    for f in st.fn_list:
        x = fl.get(f.path)
        if not x or not x.guard_of:
            continue
        for bb, t in mirg.iter_calls(f):
            c = ncallee(t) or ""
            if not re.search(r"HashMap::(get|get_mut|remove)$", c):
                continue
            ls, _, _ = x.du.slice_back(op_local(t["a"][0]), depth=8)
            tbl = [x.guard_of[g] for g in ls if g in x.guard_of]
            if not tbl:
                continue
            ctx.call_sites += 1
            res = plocal(t["d"])
            # forward: is the Option consumed by unwrap/expect?
            bad = False
            tracked = {res}
            for b2 in f.mir["blocks"]:
                for s2 in b2["s"]:
                    if s2[0] == "=" and s2[2][0] == "use" and op_local(s2[2][1]) in tracked and not pproj(s2[2][1][1]):
                        tracked.add(plocal(s2[1]))
            for b2, t2 in mirg.iter_calls(f):
                c2 = ncallee(t2) or ""
                if re.search(r"Option::(unwrap|expect|unwrap_unchecked)$", c2) and t2["a"] and op_local(t2["a"][0]) in tracked:
                    bad = True
                    ctx.bad(R_miss, "%s|%s|%s" % (f.path, tbl[0].split("::")[-1], c2.split("::")[-1]), "%s:%d" % (f.file, t2["ln"]),
                            "%s on the result of %s.%s" % (c2.split("::")[-1], tbl[0].split("::")[-1], c.split("::")[-1]),
                            "a stale/forged handle panics inside an extern \"C\" function (abort) instead of returning an error")
            # the miss edge must lead to an error report: from the None successor every path to a return passes
            # set_last_error(k != 0) (or hands over to a lookup in another table)
            cfgm = mirg.Cfg(f)
            blocks_ = f.mir["blocks"]
            err_blocks = set()
            ret_ty = st.ty(f.mir["locals"][0][0]) or ""
            if ret_ty == "()":
                # helper with no status to report (optional enrichment): nothing to decide
                ctx.ok(R_miss, {"fn": f.path, "table": tbl[0].split("::")[-1], "op": c.split("::")[-1], "line": t["ln"], "note": "unit-returning helper"})
                continue
            # a failure value (false / 0 / null) returned on the miss path is an error report for these bool/handle APIs
            for b3, blk in enumerate(blocks_):
                for s3 in blk["s"]:
                    if s3[0] == "=" and plocal(s3[1]) == 0 and not pproj(s3[1]) and s3[2][0] == "use" and mirg.op_int(s3[2][1]) == 0:
                        err_blocks.add(b3)
            for b3, t3 in mirg.iter_calls(f):
                c3 = ncallee(t3) or ""
                if c3.endswith("set_last_error") and t3["a"] and (mirg.op_int(t3["a"][0]) or 0) != 0:
                    err_blocks.add(b3)
                if c3.endswith("set_last_error") and t3["a"] and mirg.op_int(t3["a"][0]) is None:
                    err_blocks.add(b3)        # computed error code
                if c3 in reporters:
                    err_blocks.add(b3)
                if re.search(r"HashMap::(get|get_mut|remove|contains_key)$", c3) and b3 != bb:
                    err_blocks.add(b3)
            # follow the Option to the branch on it
            opt = {res}
            none_targets = []
            for _ in range(4):
                for b3, blk in enumerate(blocks_):
                    for s3 in blk["s"]:
                        if s3[0] == "=" and s3[2][0] in ("use",) and op_local(s3[2][1]) in opt and not pproj(s3[2][1][1]):
                            opt.add(plocal(s3[1]))
                    t3 = blk["t"]
                    if t3["k"] == "call" and t3["a"] and op_local(t3["a"][0]) in opt:
                        c3 = ncallee(t3) or ""
                        if re.search(r"Option::(and_then|map|filter|as_ref|as_mut|as_deref|as_deref_mut|cloned|copied|take|or_else|ok_or|ok_or_else)$", c3) or c3.endswith("Try>::branch"):
                            opt.add(plocal(t3["d"]))
                        if re.search(r"Option::is_some$", c3):
                            for b4, blk4 in enumerate(blocks_):
                                if blk4["t"]["k"] == "switch" and op_local(blk4["t"]["d"]) == plocal(t3["d"]):
                                    none_targets += [x for v, x in blk4["t"]["ts"] if v == 0]
                        if re.search(r"Option::is_none$", c3):
                            for b4, blk4 in enumerate(blocks_):
                                if blk4["t"]["k"] == "switch" and op_local(blk4["t"]["d"]) == plocal(t3["d"]):
                                    none_targets.append(blk4["t"]["o"])
            for b3, blk in enumerate(blocks_):
                for s3 in blk["s"]:
                    if s3[0] == "=" and s3[2][0] == "discr" and plocal(s3[2][1]) in opt:
                        dl = plocal(s3[1])
                        if blk["t"]["k"] == "switch" and op_local(blk["t"]["d"]) == dl:
                            listed = [v for v, _x in blk["t"]["ts"]]
                            if 0 in listed:
                                none_targets += [x for v, x in blk["t"]["ts"] if v == 0]
                            elif listed == [1]:
                                none_targets.append(blk["t"]["o"])
            miss_bad = False
            for nt in none_targets:
                rets = cfgm.returns()
                okp, w_ = cfgm.must_pass(err_blocks, rets, start=nt)
                if nt in err_blocks:
                    okp = True
                if not okp:
                    miss_bad = True
            if miss_bad and not bad:
                bad = True
                ctx.bad(R_miss, "%s|%s|miss-not-reported" % (f.path, tbl[0].split("::")[-1]), "%s:%d" % (f.file, t["ln"]),
                        "when %s.%s finds no entry a return is reachable without set_last_error(<error code>)" % (tbl[0].split("::")[-1], c.split("::")[-1]),
                        "a stale, closed or forged handle is reported as success instead of ERROR_INVALID_HANDLE")
            if not bad:
                ctx.ok(R_miss, {"fn": f.path, "table": tbl[0].split("::")[-1], "op": c.split("::")[-1], "line": t["ln"], "miss_edges": len(none_targets)})

    # explicit panics across the FFI boundary
    R_unw = ctx.rule("C19.no-unwrap-across-ffi", "no unwrap/expect in the FFI crate except on Mutex::lock (a panic inside extern \"C\" aborts the caller's process)", floor=25)
    for f in st.fn_list:
        if "::tests::" in f.path:
            continue
        n_bad = 0
        der = None
        for bb, t in mirg.iter_calls(f):
            c = ncallee(t) or ""
            if re.search(r"(Option|Result)::(unwrap|expect)$", c) and not t.get("x"):
                der = der or Derive(f)
                roots = der.roots(t["a"][0])
                if any(k == "call" and re.search(r"(Mutex::lock|RwLock::(read|write)|ThreadPoolBuilder::build)$", w) for k, w, d in roots):
                    continue
                n_bad += 1
                ctx.bad(R_unw, "%s|%s" % (f.path, c.split("::")[-1]), "%s:%d" % (f.file, t["ln"]), "%s on a value not produced by lock()" % c.split("::")[-1],
                        "a caller-controlled value (stale handle, bad string, missing entry) panics inside an extern \"C\" function: abort instead of an error code")
        if not n_bad and f.kind != "Closure":
            ctx.ok(R_unw, {"fn": f.path})

    # header prototypes
    hdr = os.path.join(facts.REPO, "ffi", "storm-ffi", "include", "StormLib.h")
    protos = parse_header(hdr)
    exports = {(f.get("export_name") or f.path.split("::")[-1]): f for f in extern_fns(st)}
    missing_exports = []
    for name, ps in sorted(protos.items()):
        f = exports.get(name)
        if f is None:
            missing_exports.append(name)
            continue
        ins = [st.ty(i) for i in f.get("inputs", [])]
        if len(ins) != len(ps):
            ctx.bad(R_proto, "%s|arity" % name, f.where, "header declares %d parameter(s), the exported function takes %d" % (len(ps), len(ins)),
                    "C callers pass a different argument list than the function reads: garbage arguments / stack corruption")
            continue
        mism = []
        for i, (cp, rt) in enumerate(zip(ps, ins)):
            cw, rw = c_width(cp), rust_width(rt)
            if cw == "ptr" and rw != "ptr" or rw == "ptr" and cw != "ptr":
                mism.append("param %d: C `%s` vs Rust `%s`" % (i, cp, rt))
            elif cw != "ptr" and cw != rw and {cw, rw} != {"8", "32"} or ({cw, rw} == {"32", "64"}):
                mism.append("param %d: C `%s` (%s-bit) vs Rust `%s` (%s-bit)" % (i, cp, cw, rt, rw))
        if mism:
            ctx.bad(R_proto, "%s|widths" % name, f.where, "; ".join(mism), "argument of the wrong width read by the callee")
        else:
            ctx.ok(R_proto, {"fn": name, "arity": len(ps)})
    if not protos:
        ctx.bad(R_proto, "header|missing", hdr, "no prototypes parsed from include/StormLib.h", "header gone or unparseable")
    ctx.declared_not_exported = missing_exports
    if missing_exports:
        ctx.note_unarmed(R_proto, missing_exports, "declared in the header but not exported by the library (link-time issue, not a runtime behaviour of this property): reported for information")
