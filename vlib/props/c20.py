"""C20 — the command-line tool's exit status tells the truth.

Error-discipline rules over the binary crate (typed HIR): `main` hands every sub-command's Result
back to the runtime unchanged; every error-handling site in `commands/*.rs` is classified
(propagates / counted-then-fails / fallback-that-propagates / display-only with a reason); an
error accumulator filled in a non-diverging error arm must guard a failing exit; the `validate`
sub-commands agree that reported problems produce a non-zero exit.
"""
import os
import re

from .. import facts, hirq

META = {
    "level": "other",
    "technique": "error-discipline classification of every Err-handling site (typed HIR) + accumulator→failing-exit dependence + sibling agreement across the validate sub-commands",
    "claim": "Decides, for every function of the CLI's command modules, that no error is swallowed on a path to exit status 0 except at enumerated display-only sites; that per-file failure counters and validation issue lists guard a failing exit; and that main returns each sub-command's Result unchanged. Does not compare produced files or printed text with library state. Also: failing exits in error arms are taken on all paths; work lists are narrowed only by user-parameterised predicates; every requested name gets a slot in the library's batched extractor; truncated DBC string blocks fail. Wave 5: every BufWriter / LineWriter / csv::Writer created in anything the CLI commands reach is flushed with a checked result on every success path. Wave 6: listing/extraction rows follow the request order and are not re-resolved through a lossy lookup (shared with C09). Wave 7: a work item passed over by `continue` is counted or depends on a user option; selector arguments (level / index / id ..) are not clamped. Wave 8: error-level prints of validate commands are followed by a failing exit on every path; flat output paths are handed out once; work lists come from the member-aware listfile reader; per-dimension findings fire for either dimension; patch priorities rank above the base.",
    "note": "Trusted: anyhow/`fn main() -> Result` maps Err to a non-zero exit; std::process::exit(n≠0). Display-only sites are an explicit table (function + scrutinee callee) with one reason each; a new swallowing site outside the table is a violation (fail closed).",
    "assumptions": ["library calls report failure through Result (their own truthfulness is C01–C18 territory)"],
    "explanation": "All functions under warcraft_rs::commands::* and main in the binary crate: match/if-let arms on Err, Result adapters that discard errors (ok, unwrap_or*, let _ =), error counters and validation issue lists, and the eight validate sub-commands.",
}

# display-only / benign sites: (function suffix, regex on the rendered scrutinee or receiver) -> reason
DISPLAY_ONLY = [
    ("mpq::extract_files_with_options", r"available_parallelism", "default thread count when the OS cannot tell; not an input error"),
    ("mpq::show_tree", r"read_file\(special_file\)", "tree view only marks whether a special file is present"),
    ("mpq::execute_db_command", r"row\.get\(", "optional SQLite column → None; display of stored metadata"),
    ("dbc::info_command", r"from_utf8\(&header\.magic\)", "prints the magic; non-UTF8 shown as placeholder"),
    ("dbc::discover_command", r"from_utf8\(&header\.magic\)", "prints the magic; non-UTF8 shown as placeholder"),
    ("dbc::info_command", r"get_string\(", "sample-record display: an unresolvable string ref is shown as such"),
    ("dbc::print_value", r"get_string\(", "value printer: an unresolvable string ref is shown as such"),
    ("m2::handle_tree", r"parse_embedded_skin\(|SkinFile::load\(", "tree view shows the skin's load error inline; the model itself was parsed with `?`"),
    ("m2::handle_skin_info_auto", r"fs::metadata\(", "file size for display only"),
    ("dbc::validate_command", r"get_string\(\*str_ref\)", "is_err() is the validation test itself; it feeds the issue counter"),
    ("adt::execute_batch", r"^p$", "glob iteration errors (unreadable directory entries) are skipped; every matched file is processed and failures are counted into `failed`, which guards the final bail!"),
]

FAIL_CALLS = re.compile(r"(process::exit)$")


def failing_exit(n):
    """does subtree n contain an exit that makes the process fail: `return Err(..)`/bail!, `?`, exit(≠0)"""
    for x in hirq.walk(n):
        k = x.get("k")
        if k == "ret" and x.get("e") is not None:
            r = hirq.render(x["e"])
            if "Err(" in r or "Err" in r.split("(")[0]:
                return "return Err"
        if k == "try":
            return "?"
        if k == "call" and FAIL_CALLS.search(x.get("fn") or ""):
            a = x["args"][0] if x["args"] else None
            if a is None or hirq.lit_int(a) != 0:
                return "exit"
    return None


def diverges(n, depth=0):
    """does control leave through a return / `?`-free failing exit on EVERY path through n (all-paths, not "somewhere inside")?
    returns the kind of the first unconditional exit found, else None"""
    if n is None or depth > 40:
        return None
    n = hirq.strip(n) if isinstance(n, dict) else n
    if not isinstance(n, dict):
        return None
    k = n.get("k")
    if k == "ret":
        return "ret"
    if k == "call" and FAIL_CALLS.search(n.get("fn") or ""):
        return "exit"
    if k == "call" and re.search(r"(panicking::panic|panic_fmt|begin_panic|unreachable|process::abort)", n.get("fn") or ""):
        return "panic"
    if k == "block":
        for st_ in n.get("stmts", []):
            d = diverges(st_, depth + 1)
            if d:
                return d
        return diverges(n.get("e"), depth + 1) if n.get("e") is not None else None
    if k == "if":
        if n.get("else") is None:
            return None
        a, b = diverges(n["then"], depth + 1), diverges(n["else"], depth + 1)
        return a if a and b else None
    if k == "match":
        ds = [diverges(a["body"], depth + 1) for a in n["arms"]]
        return ds[0] if ds and all(ds) else None
    if k in ("let", "letx"):
        return diverges(n.get("init"), depth + 1)
    if k == "try":
        # `expr?` leaves only on Err; but `Err(x)?` / `return`-like uses always leave
        inner = hirq.strip(n["e"])
        if inner.get("k") == "call" and (inner.get("fn") or "").endswith("result::Result::Err"):
            return "try"
        return diverges(inner, depth + 1)
    if k in ("call", "mcall"):
        for a in ([n["recv"]] if k == "mcall" else []) + list(n.get("args") or []):
            d = diverges(a, depth + 1)
            if d:
                return d
        return None
    if k in ("assign", "assignop"):
        return diverges(n.get("r"), depth + 1)
    if k in ("cast", "un", "ref", "field"):
        return diverges(n.get("e"), depth + 1)
    return None


def mutated_locals(n):
    """locals incremented / pushed to inside subtree n"""
    out = set()
    for x in hirq.walk(n):
        if x.get("k") == "assignop" and hirq.strip(x["l"]).get("k") == "path":
            nm = hirq.strip(x["l"])["res"].get("local")
            if nm:
                out.add(nm)
        if x.get("k") == "assign" and hirq.strip(x["l"]).get("k") == "path" and hirq.strip(x["r"]).get("k") == "lit":
            # flag style: `failed = true`
            nm = hirq.strip(x["l"])["res"].get("local")
            if nm:
                out.add(nm)
        if x.get("k") == "mcall" and x["m"] in ("push", "insert", "extend", "push_back", "fetch_add"):
            r = hirq.strip(x["recv"])
            if r.get("k") == "path" and "local" in r["res"]:
                out.add(r["res"]["local"])
    return out


def mentions(n, name):
    for x in hirq.walk(n):
        if x.get("k") == "path" and x["res"].get("local") == name:
            return True
    return False


def guards_failing_exit(body, names):
    """is there a conditional whose condition mentions one of `names` (or a local derived from them)
    and one of whose branches contains a failing exit?"""
    names = set(names)
    # derived locals: let y = <expr mentioning x>
    changed = True
    while changed:
        changed = False
        for l in hirq.find(body, "let"):
            if l.get("init") is not None and l["pat"].get("k") in ("bind", "tuple"):
                for b in hirq.pat_binds(l["pat"]):
                    if b not in names and any(mentions(l["init"], nm) for nm in names):
                        names.add(b)
                        changed = True
    for x in hirq.walk(body):
        k = x.get("k")
        if k == "if" and any(mentions(x["c"], nm) for nm in names):
            if failing_exit(x["then"]) or (x.get("else") and failing_exit(x["else"])):
                return True
        if k == "match" and any(mentions(x["e"], nm) for nm in names):
            if any(failing_exit(a["body"]) for a in x["arms"]):
                return True
        # `ensure!(errors == 0, ..)`-style and `if cond { bail }` both desugar to if; also return Err(..) conditioned by `?` on a Result built from the accumulator
        if k == "try" and any(mentions(x["e"], nm) for nm in names):
            return True
    # the function may also return the accumulator-derived status as its own Err/exit code
    for x in hirq.walk(body):
        if x.get("k") == "call" and FAIL_CALLS.search(x.get("fn") or "") and x["args"] and any(mentions(x["args"][0], nm) for nm in names):
            return True
    return False


def display_reason(fpath, text):
    for suf, rx, reason in DISPLAY_ONLY:
        if fpath.endswith(suf) and re.search(rx, text):
            return reason
    return None


def result_ty(crate, tix):
    t = crate.ty(tix) or ""
    return t.startswith("core::result::Result<") or t.startswith("&core::result::Result<") or t.startswith("&mut core::result::Result<")


def run(ctx):
    import json, os
    from .. import facts
    ep = os.path.join(facts.VERIF, "tables", "c20_exempt.json")
    exempt = {e["key"]: e for e in json.load(open(ep))["exempt"]} if os.path.exists(ep) else {}
    _bad = ctx.bad

    def bad(rid, key, where, found, why, extra=None):
        if key in exempt:
            ctx.ok(rid, {"key": key, "where": where, "exempt": exempt[key]["reason"][:200]})
            return
        _bad(rid, key, where, found, why, extra)
    ctx.bad = bad
    prog = ctx.prog
    cli = prog.crate("warcraft_rs", "bin")
    R_main = ctx.rule("C20.main-returns-subcommand-result", "main's dispatch hands each sub-command's Result to the runtime unchanged (no ok()/let _/log-and-continue)", floor=8)
    R_site = ctx.rule("C20.no-swallowed-error", "every Err-handling site propagates, feeds an accumulator that guards a failing exit, falls back through a propagating call, or is an enumerated display-only site", floor=20)
    # an item of the user's work list that is passed over must leave a trace the exit status depends on: a `continue` inside a loop over
    # the inputs either sits in a branch that counts the item as failed / skipped, or is guarded by an option the user gave
    R_skip = ctx.rule("C20.skipped-work-items-are-counted", "in every command loop over user-supplied items, each `continue` is in a branch that increments a failure / skip counter (or pushes to an error list), or whose condition reads a user option", floor=2)
    for f in cli.fn_list:
        if not f.hir or "::tests::" in f.path or "commands::" not in f.path:
            continue
        pn_ = {b for p_ in f.hir["params"] for b in hirq.pat_binds(p_)}
        lets_ = {}
        for l_ in hirq.find(f.hir["body"], "let"):
            if l_["pat"].get("k") == "bind" and l_.get("init") is not None:
                lets_.setdefault(l_["pat"]["name"], l_["init"])
        for lp in hirq.find(f.hir["body"], "for"):
            # a fixed list written in the source (`for s in ["(listfile)", ..]`) is not user input
            roots_ = [x_["res"]["local"] for x_ in hirq.walk(lp["iter"]) if x_.get("k") == "path" and "local" in (x_.get("res") or {})]
            def fixed_(e_):
                return not any(y_.get("k") == "path" and "local" in (y_.get("res") or {}) for y_ in hirq.walk(e_)) and any(y_.get("k") == "lit" for y_ in hirq.walk(e_)) and not any(y_.get("k") == "mcall" for y_ in hirq.walk(e_))
            if roots_ and all(r_ in lets_ and fixed_(lets_[r_]) for r_ in roots_):
                continue
            branches = []
            for n_ in hirq.walk(lp["body"]):
                if n_.get("k") == "if":
                    for arm_, cond_ in ((n_["then"], n_["c"]), (n_.get("else"), n_["c"])):
                        if arm_ is not None and any(x_.get("k") == "continue" for x_ in hirq.walk(arm_)) and not any(y_.get("k") in ("if", "match") and any(x_.get("k") == "continue" for x_ in hirq.walk(y_)) for y_ in hirq.walk(arm_) if y_ is not arm_):
                            branches.append((arm_, cond_, n_.get("ln")))
                if n_.get("k") == "match":
                    for a_ in n_["arms"]:
                        if any(x_.get("k") == "continue" for x_ in hirq.walk(a_["body"])) and not any(y_.get("k") in ("if", "match") and any(x_.get("k") == "continue" for x_ in hirq.walk(y_)) for y_ in hirq.walk(a_["body"]) if y_ is not a_["body"]):
                            branches.append((a_["body"], None, n_.get("ln")))
            for arm_, cond_, ln_ in branches:
                ctx.saw_fn(f)
                counted = any(x_.get("k") == "assignop" and re.search(r"err|fail|skip|miss|invalid|bad", hirq.render(x_["l"]), re.I) for x_ in hirq.walk(arm_)) or \
                          any(x_.get("k") == "mcall" and x_["m"] in ("push", "insert") and re.search(r"err|fail|skip|miss|invalid|bad", hirq.render(x_["recv"]), re.I) for x_ in hirq.walk(arm_))
                by_option = cond_ is not None and any(x_.get("k") == "path" and (x_.get("res") or {}).get("local") in pn_ and re.search(r"skip|filter|only|include|exclude|pattern|quiet|verbose|force|overwrite", x_["res"]["local"]) for x_ in hirq.walk(cond_)) or \
                            (cond_ is not None and re.search(r"\bargs\.|options\.|opts\.|config\.", hirq.render(cond_)))
                inst = {"fn": f.path.split("commands::")[-1], "line": ln_}
                if counted or by_option:
                    ctx.ok(R_skip, dict(inst, by="counter" if counted else "user option"))
                else:
                    ctx.bad(R_skip, "%s|uncounted-skip" % f.path.split("commands::")[-1], "%s:%d" % (f.file, ln_ or 0), "an item of the work list is passed over (`continue`) in a branch that neither counts it nor depends on a user option%s" % ((": `if %s`" % hirq.render(cond_)[:60]) if cond_ is not None else ""),
                            "the command reports success and exits 0 although it did not do what was asked for that item (a mistyped or missing input is silently left out of the result)")

    # a value by which the user names *one* thing (a mip level, an index, an entry, an id) reaches the library as given: clamping it into
    # range turns "no such level" into a successful conversion of something else
    R_sel = ctx.rule("C20.selector-arguments-are-not-clamped", "no min / max / clamp / saturating_* is applied in a command to an argument that selects an item (name matches level / index / entry / id / offset / tile / chunk); display limits and tuning knobs are not selectors", floor=3)
    SEL = re.compile(r"(^|_)(level|index|idx|entry|id|offset|tile|chunk|set|group|frame|lod)($|_)")
    for f in cli.fn_list:
        if not f.hir or "::tests::" in f.path or "commands::" not in f.path:
            continue
        pn_ = {b for p_ in f.hir["params"] for b in hirq.pat_binds(p_)}
        seen_sel = set()
        for x_ in hirq.walk(f.hir["body"]):
            # uses of selector-named arguments: `args.<sel>` fields and selector-named parameters
            nm_ = None
            if x_.get("k") == "field" and re.search(r"^(args|opts|options|cmd)$", hirq.render(x_["e"]).strip("&*()")) and SEL.search(x_["name"]):
                nm_ = "args." + x_["name"]
            elif x_.get("k") == "path" and (x_.get("res") or {}).get("local") in pn_ and SEL.search(x_["res"]["local"]):
                nm_ = x_["res"]["local"]
            if nm_:
                seen_sel.add(nm_)
        clamped = {}
        for c_ in hirq.walk(f.hir["body"]):
            if c_.get("k") == "mcall" and c_["m"] in ("min", "max", "clamp", "saturating_sub", "saturating_add") and c_["m"] != "saturating_sub":
                r_ = hirq.strip(c_["recv"])
                while r_.get("k") in ("cast", "ref", "un"):
                    r_ = hirq.strip(r_["e"])
                nm_ = None
                if r_.get("k") == "field" and re.search(r"^(args|opts|options|cmd)$", hirq.render(r_["e"]).strip("&*()")) and SEL.search(r_["name"]):
                    nm_ = "args." + r_["name"]
                elif r_.get("k") == "path" and (r_.get("res") or {}).get("local") in pn_ and SEL.search(r_["res"]["local"]):
                    nm_ = r_["res"]["local"]
                if nm_:
                    clamped[nm_] = c_
        for nm_ in sorted(seen_sel):
            ctx.saw_fn(f)
            if nm_ in clamped:
                c_ = clamped[nm_]
                ctx.bad(R_sel, "%s|%s|clamped" % (f.path.split("commands::")[-1], nm_), "%s:%d" % (f.file, c_.get("ln") or 0), "the selector `%s` is passed through `%s`" % (nm_, hirq.render(c_)[:70]),
                        "a request for an item that does not exist is answered with another item and reported as success (exit 0) instead of the library's error")
            else:
                ctx.ok(R_sel, {"fn": f.path.split("commands::")[-1], "selector": nm_})

    R_acc = ctx.rule("C20.accumulator-guards-failing-exit", "a counter/list filled in a non-diverging error arm is tested by a conditional that leads to a failing exit", floor=2)
    R_val = ctx.rule("C20.validate-commands-fail-on-problems", "every validate sub-command has a failing exit that depends on the validation outcome (sibling agreement)", floor=8)

    fns = [f for f in cli.fn_list if f.kind != "Closure" and f.hir and ("::commands::" in f.path or f.path.endswith("warcraft_rs::main"))]

    # truncated input must fail in the library for the CLI to exit non-zero: the DBC string block's declared size is enforced
    from .c17 import string_block_size_enforced
    string_block_size_enforced(ctx, prog.crate("wow_cdbc"), "C20")

    # bulk extraction hands the whole work list to the library's parallel extractor: every name must get a result slot there
    from .c09 import every_name_gets_a_slot
    every_name_gets_a_slot(ctx, prog.crate("wow_mpq"), "C20")

    # output written through a buffering adapter is flushed with a checked result: the adapters' Drop swallows the last write's
    # error, so `exit 0` could otherwise follow an incomplete output file (everything the CLI commands can reach, library exporters
    # included)
    from .c12 import buffered_writer_flush_rule
    from .. import mirg as _mirg
    cg_all = _mirg.CallGraph(prog.all_workspace())
    cli_roots = [p_ for p_ in cg_all.fns if p_.startswith("warcraft_rs::") and "::commands::" in p_]
    buffered_writer_flush_rule(ctx, cg_all.local_reachable(cli_roots), cg_all.fns, "C20", floor=200)

    # work lists are narrowed only on the user's request
    R_work = ctx.rule("C20.work-list-narrowed-only-by-user-filter", "in the mpq extract/create/list commands a `retain`/`truncate`/`drain`/`dedup` on a file list is conditional on an option the user passed", floor=1)
    from .c07 import enclosing_if_conditions
    NARROW = ("retain", "retain_mut", "truncate", "drain", "dedup", "dedup_by", "dedup_by_key", "split_off")
    for f in fns:
        if "::commands::mpq::" not in f.path:
            continue
        body = f.hir["body"]
        params = {b_ for p_ in f.hir["params"] for b_ in hirq.pat_binds(p_)}
        derived = set(params)
        for l in [x for x in hirq.walk(body) if x.get("k") in ("let", "letx")]:
            if l.get("init") is None:
                continue
            init_locals = {x["res"]["local"] for x in hirq.walk(l["init"]) if x.get("k") == "path" and "local" in x["res"]}
            i0 = hirq.strip(l["init"])
            if (i0.get("k") in ("path", "field", "mcall") and init_locals and init_locals <= derived and not any(c_.get("k") == "call" for c_ in hirq.walk(i0))):
                derived |= set(hirq.pat_binds(l["pat"]))
        for c in hirq.walk(body):
            if c.get("k") != "mcall" or c["m"] not in NARROW:
                continue
            recv = hirq.strip(c["recv"])
            if recv.get("k") != "path" or "local" not in recv["res"]:
                continue
            ty = cli.ty(recv.get("t")) or ""
            if "Vec<" not in ty:
                continue
            ctx.saw_fn(f)
            conds = enclosing_if_conditions(body, c)
            # the predicate / bound itself must be parameterised by something the user passed (a constant policy filter is not a user filter)
            own = set()
            for a in c["args"]:
                for x in hirq.walk(a):
                    if x.get("k") == "closure":
                        for p_ in x.get("params", []) or []:
                            own |= set(hirq.pat_binds(p_))
            used = {x["res"]["local"] for a in c["args"] for x in hirq.walk(a) if x.get("k") == "path" and "local" in x["res"]} - own
            by_user = bool(used & derived)
            inst = {"fn": f.path, "call": "%s.%s" % (hirq.render(recv), c["m"]), "line": c["ln"], "guards": [hirq.render(cd)[:60] for _, cd in conds]}
            if by_user:
                ctx.ok(R_work, inst)
            else:
                ctx.bad(R_work, "%s|%s.%s|unconditional" % (f.path.split("::")[-1], hirq.render(recv), c["m"]), "%s:%d" % (f.file, c["ln"]),
                        "`%s.%s(..)` removes entries from the work list without any user option asking for it" % (hirq.render(recv), c["m"]),
                        "files the archive contains are neither extracted nor counted as failures: the command exits 0 with its output incomplete")

    # main dispatch
    mains = [f for f in cli.fn_list if f.path.startswith("warcraft_rs::main")]
    n_disp = 0
    for f in mains:
        if not f.hir and f.kind != "Closure":
            continue
        root = cli.fns.get(f.root) if f.kind == "Closure" else f
        body = root.hir["body"] if root and root.hir else None
        if body is None or f.kind == "Closure":
            continue
        ctx.saw_fn(f)
        for m in hirq.find(body, "match"):
            if "command" not in hirq.render(m["e"]):
                continue
            for arm in m["arms"]:
                b = hirq.strip(arm["body"])
                r = hirq.render(b)
                callee = None
                for c in hirq.walk(b):
                    if c.get("k") in ("call", "mcall") and ("commands::" in (c.get("fn") or "") or c.get("m") == "execute"):
                        callee = c.get("fn") or c.get("m")
                        break
                if callee is None:
                    continue
                n_disp += 1
                swallow = re.search(r"\.ok\(\)|unwrap_or|let _ =|\.is_err\(\)|\.is_ok\(\)", r) or any(
                    x.get("k") == "match" and any(hirq.is_err_ctor(hirq.pat_ctor(a["pat"])) and not diverges(a["body"]) for a in x["arms"]) for x in hirq.walk(b))
                semi = b.get("k") == "block" and b.get("e") is None
                if swallow or semi:
                    ctx.bad(R_main, "main|%s" % callee.split("::")[-2:][0], "%s:%d" % (f.file, arm["ln"]), "dispatch arm `%s` does not return the sub-command's Result" % r[:80],
                            "a failing sub-command would exit 0")
                else:
                    ctx.ok(R_main, {"arm": callee})
    # the async main desugars into a closure/coroutine on some toolchains: search closures too if nothing found
    if n_disp == 0:
        for f in cli.fn_list:
            if f.path.startswith("warcraft_rs::main") and f.hir is None:
                pass

    # sites
    for f in fns:
        body = f.hir["body"]
        fshort = f.path.replace("warcraft_rs::commands::", "")
        accumulators = {}
        for x in hirq.walk(body):
            k = x.get("k")
            sites = []
            if k == "match" and x.get("src", "").startswith("Normal"):
                scr_is_result = result_ty(cli, x["e"].get("t"))
                for arm in x["arms"]:
                    ct = hirq.pat_ctor(arm["pat"])
                    if hirq.is_err_ctor(ct) or (scr_is_result and arm["pat"].get("k") == "wild"):
                        sites.append(("match-Err", hirq.render(x["e"]), arm["body"], arm["ln"]))
            elif k == "if" and hirq.strip(x["c"]).get("k") == "letx":
                lx = hirq.strip(x["c"])
                ct = hirq.pat_ctor(lx["pat"])
                if hirq.is_err_ctor(ct):
                    sites.append(("if-let-Err", hirq.render(lx["init"]), x["then"], x["ln"]))
                elif hirq.is_ok_ctor(ct) and result_ty(cli, lx["init"].get("t")):
                    sites.append(("if-let-Ok", hirq.render(lx["init"]), x.get("else") or {"k": "block", "stmts": []}, x["ln"]))
            elif k == "let" and x.get("els") is not None and x.get("init") is not None and result_ty(cli, x["init"].get("t")):
                sites.append(("let-else", hirq.render(x["init"]), x["els"], x["ln"]))
            elif k == "let" and x["pat"].get("k") == "wild" and x.get("init") is not None and result_ty(cli, x["init"].get("t")):
                sites.append(("let-_", hirq.render(x["init"]), None, x["ln"]))
            elif k == "mcall" and x["m"] in ("ok", "unwrap_or_default", "unwrap_or", "unwrap_or_else", "is_ok", "is_err", "err") and result_ty(cli, x.get("rt")):
                sites.append(("adapter-" + x["m"], hirq.render(x["recv"]), None, x["ln"]))
            for kind, scr, arm_body, ln in sites:
                ctx.saw_fn(f)
                where = "%s:%d" % (f.file, ln)
                scr_short = re.sub(r"\s+", " ", scr)[:90]
                callee_key = re.sub(r"\(.*", "", scr_short.split(".")[-1]) if "(" in scr_short else scr_short[:40]
                key = "%s|%s|%s" % (fshort, kind, callee_key)
                why_bad = "the error is dropped on a path that can still reach exit status 0"
                if kind in ("adapter-is_ok", "adapter-is_err"):
                    # a test, not a swallow — unless its outcome is ignored; treat as decision
                    reason = display_reason(f.path, scr) or "is_ok()/is_err() is an explicit decision on the outcome"
                    ctx.ok(R_site, {"fn": fshort, "site": kind, "on": scr_short, "class": "decision", "reason": reason})
                    continue
                if arm_body is not None:
                    ab = hirq.strip(arm_body)
                    while ab.get("k") == "block" and not ab.get("stmts") and ab.get("e"):
                        ab = hirq.strip(ab["e"])
                    if ab.get("k") == "call" and hirq.is_err_ctor(ab.get("fn")):
                        ctx.ok(R_site, {"fn": fshort, "site": kind, "on": scr_short, "class": "re-wrapped into an Err value"})
                        continue
                    d = diverges(arm_body)
                    if d:
                        ctx.ok(R_site, {"fn": fshort, "site": kind, "on": scr_short, "class": "propagates (%s)" % d})
                        continue
                    if any(x.get("k") == "try" for x in hirq.walk(arm_body, into_closures=False)):
                        # the arm obtains the data another way and `?`-propagates that attempt's failure
                        ctx.ok(R_site, {"fn": fshort, "site": kind, "on": scr_short, "class": "falls back through a propagating call"})
                        continue
                    partial = failing_exit(arm_body)
                    if partial and not mutated_locals(arm_body):
                        ctx.bad(R_site, key + "|conditional-exit", where, "%s on `%s`: the failing exit (%s) in this arm is only taken on some paths; the others complete the arm normally" % (kind, scr_short, partial),
                                "with the option / state that skips the exit the command reports the failure on stdout and still exits 0")
                        continue
                    muts = mutated_locals(arm_body)
                    if muts:
                        for m_ in muts:
                            accumulators.setdefault(m_, []).append((ln, scr_short))
                        ctx.ok(R_site, {"fn": fshort, "site": kind, "on": scr_short, "class": "counted in %s" % sorted(muts)})
                        continue
                reason = display_reason(f.path, scr)
                if reason:
                    ctx.ok(R_site, {"fn": fshort, "site": kind, "on": scr_short, "class": "display-only", "reason": reason})
                else:
                    ctx.bad(R_site, key, where, "%s on `%s` neither propagates nor counts the error, and is not an enumerated display-only site" % (kind, scr_short), why_bad)
        for acc, uses in sorted(accumulators.items()):
            if guards_failing_exit(body, [acc]):
                ctx.ok(R_acc, {"fn": fshort, "accumulator": acc, "filled_at": [u[0] for u in uses]})
            else:
                ctx.bad(R_acc, "%s|%s" % (fshort, acc), "%s:%d" % (f.file, uses[0][0]),
                        "`%s` is incremented when `%s` fails, but no conditional on it leads to `return Err`/bail!/exit(≠0)" % (acc, uses[0][1]),
                        "the command reports the failures on stdout and still exits 0")

    # validate siblings
    for f in fns:
        last = f.path.split("::")[-1]
        if not re.search(r"validate", last) or "::commands::" not in f.path:
            continue
        body = f.hir["body"]
        fshort = f.path.replace("warcraft_rs::commands::", "")
        ctx.saw_fn(f)
        # outcome carriers: results of calls whose name says validate/verify/check, Err-arm accumulators, issue-named locals
        names = set()
        for l in hirq.find(body, "let"):
            if l.get("init") is None:
                continue
            binds = hirq.pat_binds(l["pat"])
            callees = [c.get("fn") or c.get("m") or "" for c in hirq.walk(l["init"]) if c.get("k") in ("call", "mcall")]
            if any(re.search(r"validat|verif|check", c.split("::")[-1]) for c in callees):
                names |= set(binds)
            if any(re.search(r"(?i)error|issue|problem|invalid|fail|corrupt|mismatch", b) for b in binds):
                names |= set(binds)
        names |= {a for x in hirq.walk(body) if x.get("k") == "match" for arm in x["arms"]
                  if hirq.is_err_ctor(hirq.pat_ctor(arm["pat"])) and not diverges(arm["body"]) for a in mutated_locals(arm["body"])}
        direct = False
        # an Err arm / `?` applied to the validation call itself
        for x in hirq.walk(body):
            if x.get("k") == "match":
                callees = [c.get("fn") or c.get("m") or "" for c in hirq.walk(x["e"]) if c.get("k") in ("call", "mcall")]
                if any(re.search(r"validat|verif|check|parse|load", c.split("::")[-1]) for c in callees):
                    if any(hirq.is_err_ctor(hirq.pat_ctor(a["pat"])) and failing_exit(a["body"]) for a in x["arms"]):
                        direct = True
        for x in hirq.walk(body):
            if x.get("k") == "try":
                callees = [c.get("fn") or c.get("m") or "" for c in hirq.walk(x["e"]) if c.get("k") in ("call", "mcall")]
                if any(re.search(r"validat|verif|check|parse|load", c.split("::")[-1]) for c in callees):
                    direct = True
        dependent = guards_failing_exit(body, names) if names else False
        if names and not dependent:
            ctx.bad(R_val, "%s|issues-do-not-fail" % fshort, f.where,
                    "validation outcome is held in %s but no conditional on it leads to a failing exit" % sorted(names),
                    "`validate` prints the problems it found and exits 0, so scripts cannot rely on its status")
        elif dependent or direct:
            ctx.ok(R_val, {"fn": fshort, "outcome_locals": sorted(names), "fails_via": "conditional on outcome" if dependent else "Err arm of the validating call"})
        else:
            ctx.bad(R_val, "%s|no-failing-exit" % fshort, f.where, "no failing exit depends on the validation outcome", "validate can never report failure through its exit status")


_SRC = {}


def _fails_exit(n_):
    """a *failing* exit on every path: as diverges(), but a `return Ok(..)` inside does not count"""
    if not diverges(n_):
        return None
    if any(x.get("k") == "ret" and re.match(r"\(?Ok\(|Result::Ok\(", hirq.render(x.get("e")) or "") for x in hirq.walk(n_)):
        return None
    return diverges(n_)


def run_extra(ctx):
    """rules armed after run(): they need nothing from run()'s locals"""
    prog = ctx.prog
    cli = prog.crate("warcraft_rs", "bin")
    from .c07 import enclosing_if_conditions
    # a validate command that *prints* an error-level finding ends in a failing exit: after the statement that prints it, every way
    # on leads to a diverging statement — directly, or through a later `if` with the same condition as the one the print sits under
    # (or a condition on a counter captured from the reported list)
    R = ctx.rule("C20.reported-errors-fail-the-command", "in every validate function of commands/*.rs a println!/eprintln! whose text marks an error (`Error`, `✗`, `error(s) found`, `Too many`, `invalid .. reference`) is followed on every path by a failing exit", floor=6)
    ERRTXT = re.compile(r"(^|\n)\s*Error\b|✗|error\(s\) found|Too many|[Ii]nvalid \w+ reference|validation failed|FAILED", re.S)
    for f in cli.fn_list:
        if f.kind == "Closure" or not f.hir or "::commands::" not in f.path or not re.search(r"validate", f.path.split("::")[-1]):
            continue
        body = f.hir["body"]
        lets = {l["pat"]["name"]: l["init"] for l in hirq.find(body, "let") if l["pat"].get("k") == "bind" and l.get("init") is not None}
        prints = []
        for c in hirq.walk(body):
            if c.get("k") == "call" and re.search(r"::_e?print$", c.get("fn") or ""):
                txt = "".join(x["v"]["str"] for x in hirq.walk(c) if x.get("k") == "lit" and "str" in x.get("v", {}))
                # (format strings with inline arguments are lowered to pieces the fact dump does not carry: the literal is read
                # from the macro invocation at the call's own source position)
                try:
                    src = _SRC.setdefault(f.file, open(os.path.join(facts.REPO, f.file), encoding="utf-8").read().split("\n"))
                    seg = "\n".join(src[(c.get("ln") or 1) - 1:(c.get("ln") or 1) + 3])
                    m_ = re.search(r"e?println!\s*\(\s*\"((?:[^\"\\]|\\.)*)\"", seg)
                    if m_:
                        txt += m_.group(1).replace("\\n", "\n")
                except OSError:
                    pass
                if ERRTXT.search(txt) and not re.search(r"✓", txt):
                    prints.append((c, txt))
        for c, txt in prints:
            ctx.saw_fn(f)
            # chain of enclosing blocks from the innermost outwards: (block, index of the statement holding the print)
            chain = []

            def find(n, acc):
                if n is c:
                    chain.extend(acc)
                    return True
                if isinstance(n, dict):
                    if n.get("k") == "block":
                        items = list(n.get("stmts") or []) + ([n["e"]] if n.get("e") is not None else [])
                        for i, st_ in enumerate(items):
                            if find(st_, acc + [(items, i)]):
                                return True
                        return False
                    if n.get("k") == "closure":
                        return False
                    return any(find(v, acc) for v in n.values() if isinstance(v, (dict, list)))
                if isinstance(n, list):
                    return any(find(v, acc) for v in n)
                return False
            find(body, [])
            conds = [hirq.render(cd) for w_, cd in enclosing_if_conditions(body, c) if w_ == "then"]
            # locals holding the length of / captured from something a condition mentions (`let n = errors.len()`)
            cond_names = {x["res"]["local"] for w_, cd in enclosing_if_conditions(body, c) for x in hirq.walk(cd) if x.get("k") == "path" and "local" in (x.get("res") or {})}
            derived = {nm for nm, init in lets.items() if any(x.get("k") == "path" and (x.get("res") or {}).get("local") in cond_names for x in hirq.walk(init))}
            fails = False

            for items, i in reversed(chain):
                for st_ in items[i + 1:]:
                    if _fails_exit(st_):
                        fails = True
                    elif st_.get("k") == "if" and st_.get("else") is None and _fails_exit(st_["then"]):
                        r_ = hirq.render(st_["c"])
                        names = {x["res"]["local"] for x in hirq.walk(st_["c"]) if x.get("k") == "path" and "local" in (x.get("res") or {})}
                        if r_ in conds or (names and names <= (derived | cond_names)):
                            fails = True
                    elif st_.get("k") == "if" and st_.get("else") is not None:
                        # `if C { fail } else { .. }` under the same C, or `if !C { .. } else { fail }` (the complement)
                        r_ = hirq.render(st_["c"])
                        comp = r_[1:] if r_.startswith("!") else "!" + r_
                        if (r_ in conds and _fails_exit(st_["then"])) or (comp in conds and _fails_exit(st_["else"])):
                            fails = True
                    if fails:
                        break
                if fails:
                    break
            # the print may itself be the message of the failing exit's sibling: `bail!` right in the same statement list is handled above
            inst = {"fn": f.path.split("commands::")[-1], "text": txt.strip()[:50]}
            if fails:
                ctx.ok(R, inst)
            else:
                ctx.bad(R, "%s|reported-error-exits-0|%s" % (inst["fn"], re.sub(r"[^A-Za-z]+", "-", txt.strip())[:30]), "%s:%d" % (f.file, c.get("ln") or 0),
                        "after printing `%s` the function can still return Ok(())" % txt.strip()[:60],
                        "the command tells the user about an error and exits 0: scripts and CI treat the file as valid")

    # a finding that applies to width and height alike is raised when either of them offends: in validate functions, an error-raising
    # `if` whose condition is the same predicate on `width` and on `height` joins the two with `||`
    R_sym = ctx.rule("C20.per-dimension-findings-fire-for-either-dimension", "in validate functions: every error-raising `if P(width) <op> P(height)` (the same predicate on both dimensions) is true when exactly one of the two holds", floor=1)
    for f in cli.fn_list:
        if f.kind == "Closure" or not f.hir or "::commands::" not in f.path or not re.search(r"validate", f.path.split("::")[-1]):
            continue
        for g in hirq.find(f.hir["body"], "if"):
            c = hirq.strip(g["c"])
            if c.get("k") != "bin" or c["op"] not in ("&&", "||"):
                continue
            l_, r_ = hirq.render(c["l"]), hirq.render(c["r"])
            if not (("width" in l_ and "height" in r_ and l_.replace("width", "height") == r_) or ("height" in l_ and "width" in r_ and l_.replace("height", "width") == r_)):
                continue
            then_txt = hirq.render(g["then"])
            raises = bool(re.search(r"errors?\.push|bail|Err\(", then_txt)) or any(x.get("k") == "ret" for x in hirq.walk(g["then"]))
            if not raises:
                continue
            ctx.saw_fn(f)
            inst = {"fn": f.path.split("commands::")[-1], "cond": hirq.render(c)[:80]}
            if c["op"] == "||":
                ctx.ok(R_sym, inst)
            else:
                ctx.bad(R_sym, "%s|both-dimensions-required|%s" % (inst["fn"], re.sub(r"[^a-z%0-9]+", "", l_)[:24]), "%s:%d" % (f.file, g.get("ln") or 0), "`%s` raises the finding only when *both* dimensions offend" % inst["cond"],
                        "a file that violates the rule in one dimension only (6x8, 8x6) is reported as valid and the command exits 0")

    # `--patch` archives override the base archive, later ones override earlier ones: in every CLI function that builds a PatchChain,
    # the priority given to the i-th patch (evaluated for i = 0..=8) is strictly above the base archive's and strictly increasing —
    # PatchChain resolves ties in favour of the archive added first, i.e. of the base
    from .c10 import _ival as _iv2, _NoEval as _NE2
    R_pri = ctx.rule("C20.patch-priorities-rank-above-the-base", "in every commands/mpq.rs function that calls PatchChain::add_archive in a loop: priority(i) > base priority and priority(i+1) > priority(i) for i in 0..=8", floor=2)
    for f in cli.fn_list:
        if f.kind == "Closure" or not f.hir or "::commands::mpq::" not in f.path:
            continue
        body = f.hir["body"]
        adds = [c for c in hirq.walk(body) if c.get("k") == "mcall" and c["m"] == "add_archive" and len(c.get("args") or []) == 2]
        if len(adds) < 2:
            continue
        lets = {l["pat"]["name"]: l["init"] for l in hirq.find(body, "let") if l["pat"].get("k") == "bind" and l.get("init") is not None}
        in_loop = []
        for lp in hirq.find(body, "for"):
            ivars = hirq.pat_binds(lp["pat"])
            for c in adds:
                if any(x is c for x in hirq.walk(lp["body"])) and "enumerate()" in hirq.render(lp["iter"]) and ivars:
                    in_loop.append((c, ivars[0], {l["pat"]["name"]: l["init"] for l in hirq.find(lp["body"], "let") if l["pat"].get("k") == "bind" and l.get("init") is not None}))
        base = [c for c in adds if not any(c is x for x, _i, _l in in_loop)]
        if not in_loop or not base:
            continue
        ctx.saw_fn(f)
        try:
            b0 = max(_iv2(c["args"][1], {"__ty__": cli.ty}, lets) for c in base)
            c, iv, ll = in_loop[0]
            pr = [_iv2(c["args"][1], {iv: i, "__ty__": cli.ty}, dict(lets, **ll)) for i in range(0, 10)]
        except _NE2 as e:
            ctx.bad(R_pri, "%s|not-evaluable" % f.path.split("::")[-1], f.where, "priorities not evaluable: %s" % e, "shape changed")
            continue
        inst = {"fn": f.path.split("commands::")[-1], "base": b0, "patch_priorities": pr[:4]}
        if pr[0] > b0 and all(b > a for a, b in zip(pr, pr[1:])):
            ctx.ok(R_pri, inst)
        else:
            ctx.bad(R_pri, "%s|patch-priority" % f.path.split("::")[-1], "%s:%d" % (f.file, c.get("ln") or 0), "the base archive is added with priority %d, the patches with %s" % (b0, pr[:4]),
                    "a patch whose priority does not exceed the base's loses every file both hold (ties go to the archive added first): the command extracts un-patched content, reports success and exits 0")

    # flat extraction (`file_name()` joined onto the output directory) maps different members to one path: the helper that builds such
    # a path remembers what it handed out and refuses a second member for the same path — otherwise the later file silently replaces
    # the earlier one and the command exits 0 with one member's content lost
    R_flat = ctx.rule("C20.flat-output-paths-are-handed-out-once", "every commands/mpq.rs function that returns output_dir.join(<name>.file_name()) tests a set insertion of the path and fails when it was already present", floor=1)
    from ..rules import ncallee as _nc2
    from .. import mirg as _mg2
    found_flat = 0
    for f in cli.fn_list:
        if f.kind == "Closure" or not f.hir or "::commands::mpq::" not in f.path or not f.mir.get("blocks"):
            continue
        calls = [(_nc2(t) or "") for _b, t in _mg2.iter_calls(f)]
        if not (any(c_ == "std::path::Path::join" for c_ in calls) and any(c_ == "std::path::Path::file_name" for c_ in calls)):
            continue
        if "extract" in f.path.split("::")[-1] and not (cli.ty(f.d.get("output")) or "").count("PathBuf"):
            # the extraction function itself joining a base name inline: same obligation
            pass
        elif not (cli.ty(f.d.get("output")) or "").count("PathBuf"):
            continue
        found_flat += 1
        ctx.saw_fn(f)
        ins = [n for n in hirq.find(f.hir["body"], "if") if re.search(r"\.insert\(", hirq.render(n["c"])) and (diverges(n["then"]) or (n.get("else") is not None and diverges(n["else"])))]
        name = f.path.split("commands::")[-1]
        if ins:
            ctx.ok(R_flat, {"fn": name, "test": hirq.render(ins[0]["c"])[:60]})
        else:
            ctx.bad(R_flat, "%s|flat-path-not-remembered" % name, f.where, "%s joins a bare file name onto the output directory without recording the path it hands out" % name,
                    "two members with the same base name (a\\x.txt, b\\x.txt) are written to one file: the second overwrites the first, nothing is counted as failed and the command exits 0")
    # bulk operations take their work list from the member-aware listfile reader: a name that uses listfile comment syntax ('#..', 'a;b')
    # is a member like any other
    R_lf = ctx.rule("C20.work-lists-come-from-the-member-aware-listfile-reader", "no function of commands/mpq.rs that reads \"(listfile)\" parses it with the plain parse_listfile (which drops '#' lines and cuts names at ';')", floor=1)
    for f in cli.fn_list:
        if f.kind == "Closure" or not f.hir or "::commands::mpq::" not in f.path:
            continue
        body = f.hir["body"]
        reads = any(c.get("k") == "mcall" and c["m"] == "read_file" and c.get("args") and hirq.lit_str(hirq.strip(c["args"][0])) == "(listfile)" for c in hirq.walk(body))
        if not reads:
            continue
        ctx.saw_fn(f)
        plain = [c for c in hirq.calls(body) if re.search(r"special_files::(listfile::)?parse_listfile$", c.get("fn") or "")]
        aware = [c for c in hirq.calls(body) if re.search(r"parse_listfile_with$", c.get("fn") or "")]
        name = f.path.split("commands::")[-1]
        writes = any(c.get("k") == "call" and re.search(r"fs::write$|File::create$", c.get("fn") or "") for c in hirq.walk(body)) or "extract" in name
        if plain and writes:
            ctx.bad(R_lf, "%s|plain-listfile-parser" % name, "%s:%d" % (f.file, plain[0].get("ln") or 0), "%s builds its work list with parse_listfile" % name,
                    "members named like `#top.txt` or `semi;colon.txt` are dropped from the work list (or looked up under a cut name): they are not extracted and the command still exits 0")
        elif aware or plain:
            ctx.ok(R_lf, {"fn": name, "parser": "parse_listfile_with" if aware else "parse_listfile (display only)"})
