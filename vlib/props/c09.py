"""C09 — parallel extraction is observationally identical to sequential reading.

Structural argument: every rayon pipeline in the extraction modules is rooted in an indexed
slice/Vec producer, uses only order-preserving adapters and ends in an indexed `collect` into a
Vec; the closures handed to rayon capture no interior-mutable state (deep type walk), the crate
has no interior-mutable statics, no shared file cursor (`try_clone`) is reachable; and the
skip-errors flag selects between an arm without early exit and an arm with one.
Slot i is therefore the same pure function of (archive path, name i) on task-private state.
"""
import re

from .. import hirq, mirg, rules
from ..rules import norm

META = {
    "level": "other",
    "technique": "HIR pipeline-shape allow-list + closure-capture interior-mutability walk + who-may-call",
    "claim": "Decides schedule-independence structurally: all rayon pipelines reachable in the parallel-extraction modules are indexed, order-preserving and collect into Vec; no closure given to rayon (nor anything it reaches in wow-mpq) shares interior-mutable state or a cloned file cursor; the skip-errors arms have the right early-exit shape. Complete modulo the trusted base; does not run threads. Also: the request list is partitioned completely (no remainder-dropping chunking / take / skip / Option-flattening) and the parallel modules construct no failure of their own. Wave 6: result vectors keep request order (no sort / regroup of the work list between request and return). Wave 7: the per-name loops of the parallel modules have no continue / break / conditional push (a skipped iteration is a name without a slot). Wave 8: hand-cut batches tile the request (list lengths 0..=24 and around every numeric threshold, all small sizes); ParallelConfig setters keep the other settings.",
    "note": "Trusted: rayon's documented order preservation of indexed collect; rustc's Send/Sync/Fn checking (no unsynchronised mutation of captures); the deep interior-mutability walk expands workspace ADTs only.",
    "assumptions": ["rayon indexed `collect` preserves input order", "Archive::read_file is a function of (file bytes, name) — C01/C05 territory"],
    "explanation": "Enumerates every rayon method chain (typed HIR) in single_archive_parallel.rs, parallel.rs and patch_chain.rs, every closure passed to rayon with its captures, all statics of wow-mpq, and the skip_errors conditionals.",
}

MODULE_FILES = ("single_archive_parallel.rs", "parallel.rs", "patch_chain.rs")
ROOTS = {"par_iter", "into_par_iter", "par_chunks", "par_chunks_exact", "par_windows"}
ADAPTERS = {"map", "filter", "filter_map", "flatten", "flatten_iter", "flat_map_iter", "flat_map", "enumerate", "cloned",
            "copied", "zip", "with_min_len", "with_max_len", "chunks"}
TERMINALS = {"collect"}
INDEXED_RECV = re.compile(r"^&?(mut )?(\[|alloc::vec::Vec<|&\[|&alloc::vec::Vec<|&&\[|alloc::sync::Arc<alloc::vec::Vec<|core::ops::range::Range<)")
OPEN = re.compile(r"Archive::open(_with_options)?$")
INTERIOR = re.compile(r"(sync::Mutex|sync::RwLock|sync::atomic::Atomic|cell::Cell|cell::RefCell|cell::UnsafeCell|mpsc::|"
                      r"sync::Condvar|sync::Once|OnceLock|OnceCell|LazyLock|parking_lot::|crossbeam|sync::Barrier|lru::LruCache)")


def is_rayon(n):
    f = n.get("fn") or ""
    d = n.get("decl") or ""
    return n.get("k") == "mcall" and ("rayon::" in f or "rayon::" in d) and "rayon_core" not in f


def chains(body):
    ray = [n for n in hirq.walk(body) if is_rayon(n)]
    inner = set()
    for n in ray:
        r = hirq.strip(n["recv"])
        if r is not None and is_rayon(r):
            inner.add(id(r))
    out = []
    for n in ray:
        if id(n) in inner:
            continue
        names = []
        cur = n
        closures = []
        while cur is not None and is_rayon(cur):
            names.append(cur["m"])
            for a in cur["args"]:
                for c in hirq.walk(a):
                    if c.get("k") == "closure":
                        closures.append(c)
                    break
            last = cur
            cur = hirq.strip(cur["recv"])
        names.reverse()
        out.append({"terminal": n, "root": last, "names": names, "closures": closures})
    return out


class AdtIndex:
    def __init__(self, crates):
        self.adts = {}
        for c in crates:
            for a in c.items["adts"]:
                self.adts[a["path"]] = a

    def interior(self, ty, seen=None, depth=0):
        """returns a witness string if `ty` (transitively through workspace ADT fields) holds interior-mutable state"""
        seen = seen if seen is not None else set()
        m = INTERIOR.search(ty)
        if m:
            return "%s in `%s`" % (m.group(1), ty[:120])
        if depth > 6:
            return None
        for name in set(re.findall(r"[A-Za-z_][A-Za-z0-9_]*(?:::[A-Za-z_][A-Za-z0-9_]*)+", ty)):
            a = self.adts.get(name)
            if a is None or name in seen:
                continue
            seen.add(name)
            fields = a.get("fields") or [f for v in a.get("variants", []) for f in v["fields"]]
            for f in fields:
                fty = f["ty"] if isinstance(f, dict) else f[1]
                w = self.interior(fty, seen, depth + 1)
                if w:
                    return "%s.%s: %s" % (name.split("::")[-1], f["name"] if isinstance(f, dict) else f[0], w)
        return None



def _hand_cut_partitions(ctx, mpq, pid):
    import itertools
    from .c10 import _ival, _NoEval
    R = ctx.rule("%s.hand-cut-batches-tile-the-request" % pid, "in the parallel modules: the request is split by chunks()/par_chunks() (complete by construction), or every index-driven `&list[a..b]` tiles 0..len exactly for all lengths 0..=24 (and around every numeric threshold of the function) and all small values of the sizes involved", floor=2)
    for f in mpq.fn_list:
        if not f.file.endswith(("single_archive_parallel.rs", "src/parallel.rs")) or "::tests::" in f.path or not f.hir or f.kind == "Closure":
            continue
        body = f.hir["body"]
        params = {b for p_ in f.hir["params"] for b in hirq.pat_binds(p_)}
        for c_ in hirq.walk(body):
            if c_.get("k") == "mcall" and c_["m"] in ("chunks", "par_chunks"):
                ctx.saw_fn(f)
                ctx.ok(R, {"fn": norm(f.path).split("::")[-1], "split": c_["m"], "line": c_.get("ln")})
        lets = {l["pat"]["name"]: l["init"] for l in hirq.find(body, "let") if l["pat"].get("k") == "bind" and l.get("init") is not None}
        # parent links (closures / loops that bind the counter)
        parent = {}
        for x in hirq.walk(body):
            for y in hirq.children(x):
                parent[id(y)] = x
        for ix in hirq.find(body, "index"):
            rng = hirq.strip(ix["i"])
            if rng.get("k") != "struct" or not re.search(r"ops::range::Range(Inclusive)?$", (rng.get("res") or {}).get("def") or ""):
                continue
            base = hirq.strip(ix["e"])
            if base.get("k") != "path" or (base.get("res") or {}).get("local") not in params:
                continue
            bname = base["res"]["local"]
            if not re.search(r"name|file", bname):
                continue
            fd = dict((nm, e) for nm, e in rng["fields"])
            if "start" not in fd or "end" not in fd:
                continue
            inclusive = rng["res"]["def"].endswith("Inclusive")
            # the counter: the nearest enclosing closure parameter / for pattern whose source is an integer range
            drv = None
            x = ix
            while id(x) in parent and drv is None:
                x = parent[id(x)]
                src = None
                names = []
                if x.get("k") == "closure":
                    names = [b for p_ in x.get("params", []) or [] for b in hirq.pat_binds(p_)]
                    call = parent.get(id(x))
                    while call is not None and call.get("k") not in ("mcall", "call"):
                        call = parent.get(id(call))
                    src = call.get("recv") if call is not None and call.get("k") == "mcall" else None
                elif x.get("k") == "for":
                    names = hirq.pat_binds(x["pat"])
                    src = x["iter"]
                if len(names) != 1 or src is None:
                    continue
                r0 = hirq.strip(src)
                while r0.get("k") == "mcall" and r0["m"] in ("into_par_iter", "into_iter", "par_iter", "iter", "map", "enumerate") and r0["m"] != "enumerate":
                    r0 = hirq.strip(r0["recv"])
                if r0.get("k") == "struct" and re.search(r"ops::range::Range$", (r0.get("res") or {}).get("def") or ""):
                    rf = dict((nm, e) for nm, e in r0["fields"])
                    drv = (names[0], rf.get("start"), rf.get("end"))
            inst = {"fn": norm(f.path).split("::")[-1], "list": bname, "line": ix.get("ln")}
            key = "%s|%s|range-slice" % (inst["fn"], bname)
            ctx.saw_fn(f)
            if drv is None:
                ctx.note_unarmed(R, inst, "no integer-range counter found for the slice bounds")
                continue
            cname, lo_e, hi_e = drv
            syms = {}

            def leaf(r, _syms=syms):
                if r == "%s.len()" % bname:
                    return _syms.get("__len__", 0)
                if r not in _syms:
                    _syms[r] = 1
                return _syms[r]
            def ev(e, i, L, lets_=lets):
                env = {"__leaf__": leaf, "__ty__": mpq.ty, cname: i}
                syms["__len__"] = L
                return _ival(e, env, {k_: v_ for k_, v_ in lets_.items() if k_ != cname})
            try:
                ev(hi_e, 0, 5); ev(fd["start"], 0, 5); ev(fd["end"], 0, 5)      # discovers the free quantities
            except _NoEval as e:
                ctx.note_unarmed(R, inst, "bounds not evaluable (%s)" % e)
                continue
            free = sorted(k_ for k_ in syms if k_ != "__len__")
            if len(free) > 3:
                ctx.note_unarmed(R, inst, "more than three free quantities in the bounds")
                continue
            witness = None
            cases = 0
            # list lengths: 0..=24, plus the neighbourhood of every integer literal the function compares or computes with
            # (a size that switches strategy above some threshold must tile the list on both sides of it)
            lits = sorted({int(x["v"]["int"]) for x in hirq.walk(body) if x.get("k") == "lit" and "int" in x.get("v", {}) and 24 < int(x["v"]["int"]) <= 20000})
            big = sorted({v_ for c0 in lits for v_ in (c0 - 1, c0, c0 + 1, 2 * c0 + 1)})
            for vals in itertools.product((1, 2, 3, 4, 7), repeat=len(free)):
                for k_, v_ in zip(free, vals):
                    syms[k_] = v_
                for L in list(range(0, 25)) + (big if all(v_ in (3, 7) for v_ in vals) else []):
                    try:
                        lo, hi = ev(lo_e, 0, L), ev(hi_e, 0, L)
                        pos = 0
                        okc = True
                        for i in range(lo, hi):
                            a, b = ev(fd["start"], i, L), ev(fd["end"], i, L) + (1 if inclusive else 0)
                            if a != pos or b < a or b > L:
                                okc = False
                                break
                            pos = b
                        okc = okc and pos == L
                    except _NoEval:
                        continue
                    cases += 1
                    if not okc and witness is None:
                        witness = (dict(zip(free, vals)), L)
            if witness:
                ctx.bad(R, key, "%s:%d" % (f.file, ix.get("ln") or 0),
                        "`&%s[%s..%s]` for %s in %s..%s does not tile the list: with %s and %d names the pieces leave a gap, overlap or stop short" % (
                            bname, hirq.render(fd["start"])[:30], hirq.render(fd["end"])[:30], cname, hirq.render(lo_e)[:20], hirq.render(hi_e)[:30],
                            ", ".join("%s = %d" % kv for kv in witness[0].items()) or "no free quantity", witness[1]),
                        "some requested names are handed to no worker (or to two): the parallel call returns fewer (or duplicated) slots than the sequential loop, with no error")
            else:
                ctx.ok(R, dict(inst, cases=cases, free=free))


def every_name_gets_a_slot(ctx, mpq, pid):
    """shared by C09 (parallel == sequential) and C20 (exit 0 ⇒ complete output): the request list is partitioned completely"""
    # every requested name gets a slot: the request list is partitioned completely and nothing is dropped on the way to the result
    R_part = ctx.rule("%s.every-name-gets-a-slot" % pid, "in the parallel modules: no remainder-dropping chunking (chunks_exact…), no take/skip/step_by, no flatten/filter_map over Option/Result items", floor=20)
    from ..rules import ncallee as _nc
    ALWAYS = re.compile(r"::(chunks_exact|par_chunks_exact|rchunks_exact|par_rchunks_exact|array_chunks|step_by|take|skip|take_while|skip_while|map_while|take_any|skip_any)$")
    ITEM = re.compile(r"::(flatten|flat_map|filter_map|flatten_iter|flat_map_iter)$")
    for f in mpq.fn_list:
        if not f.file.endswith(MODULE_FILES) or "::tests::" in f.path or not f.mir.get("blocks"):
            continue
        for bb, t in mirg.iter_calls(f):
            cn = _nc(t) or ""
            if t.get("x"):
                continue
            if ALWAYS.search(cn) and not re.search(r"std::io::|Read::take", cn):
                ctx.saw_fn(f)
                ctx.bad(R_part, "%s|%s" % (re.sub(r"::\{closure#\d+\}", "", norm(f.path)).split("::")[-1], cn.split("::")[-1]), "%s:%d" % (f.file, t["ln"]), "`%s` in the parallel extraction path" % cn.split("::")[-1],
                        "part of the request (the remainder batch, a prefix, every n-th name) never reaches a worker: the parallel call returns fewer slots than a sequential loop, with no error")
            elif ITEM.search(cn):
                l0 = mirg.op_local(t["a"][0]) if t["a"] else None
                ty = (mpq.ty(f.mir["locals"][l0][0]) or "") if l0 is not None else ""
                m_ = re.search(r"(?:IntoIter|Iter|IterMut|Drain)<(?:'\w+, )?([\w:]+)", ty)
                item = m_.group(1) if m_ else ""
                ctx.saw_fn(f)
                if re.search(r"option::Option$|result::Result$", item):
                    ctx.bad(R_part, "%s|%s|option-items" % (re.sub(r"::\{closure#\d+\}", "", norm(f.path)).split("::")[-1], cn.split("::")[-1]), "%s:%d" % (f.file, t["ln"]), "`%s` over %s items" % (cn.split("::")[-1], item.split("::")[-1]),
                            "slots that hold None / Err are silently removed from the result: positions no longer correspond to the request")
                else:
                    ctx.ok(R_part, {"fn": norm(f.path), "adapter": cn.split("::")[-1], "items": item or ty[:40]})
            elif re.search(r"::(chunks|par_chunks|par_iter|into_par_iter|par_bridge|iter|into_iter)$", cn):
                ctx.rules[R_part]["obligations"] += 1
                ctx.rules[R_part]["discharged"] += 1
    # ... and a worker's own loop over its share of the names gives each of them a slot: the per-name loop that pushes results has no
    # `continue` / `break` (a skipped iteration is a name without a slot; every later slot shifts against the request)
    for f in mpq.fn_list:
        # (the request lists live in the two parallel modules; patch_chain.rs lists and de-duplicates archive contents — C08's subject)
        if not f.file.endswith(("single_archive_parallel.rs", "src/parallel.rs")) or "::tests::" in f.path or not f.hir:
            continue
        for lp in hirq.find(f.hir["body"], "for"):
            pushes = [c_ for c_ in hirq.walk(lp["body"]) if c_.get("k") == "mcall" and c_["m"] == "push"]
            if not pushes or not re.search(r"name|file|chunk|batch", hirq.render(lp["iter"]) + " ".join(hirq.pat_binds(lp["pat"]) or [])):
                continue
            def own(n_, root):
                # control flow of this loop only: not inside a nested loop or closure
                stack_ = [(root, False)]
                while stack_:
                    x_, nested = stack_.pop()
                    if x_ is n_:
                        return not nested
                    for k_, v_ in x_.items():
                        if isinstance(v_, dict):
                            stack_.append((v_, nested or (x_.get("k") in ("for", "loop", "while", "closure") and x_ is not root)))
                        elif isinstance(v_, list):
                            for y_ in v_:
                                if isinstance(y_, dict):
                                    stack_.append((y_, nested or (x_.get("k") in ("for", "loop", "while", "closure") and x_ is not root)))
                                elif isinstance(y_, list):
                                    for z_ in y_:
                                        if isinstance(z_, dict):
                                            stack_.append((z_, nested or (x_.get("k") in ("for", "loop", "while", "closure") and x_ is not root)))
                return False
            skips = [x_ for x_ in hirq.walk(lp["body"]) if x_.get("k") in ("continue", "break") and own(x_, lp["body"])]
            cond_push = [c_ for c_ in pushes if any(i_.get("k") == "if" and i_.get("else") is None and any(y_ is c_ for y_ in hirq.walk(i_["then"])) for i_ in hirq.walk(lp["body"]))]
            ctx.saw_fn(f)
            inst = {"fn": re.sub(r"::\{closure#\d+\}", "", norm(f.path)).split("::")[-1], "loop_line": lp.get("ln"), "pushes": len(pushes)}
            if skips or cond_push:
                w_ = skips[0] if skips else cond_push[0]
                ctx.bad(R_part, "%s|per-name-loop|%s" % (inst["fn"], "skip" if skips else "conditional-push"), "%s:%d" % (f.file, w_.get("ln") or lp.get("ln") or 0),
                        "the per-name loop %s" % ("leaves an iteration early (`%s`) before its result is pushed" % w_["k"] if skips else "pushes its result only under a condition with no else-branch"),
                        "a requested name gets no slot: the result is shorter than the request and every later slot is shifted against the request order")
            else:
                ctx.ok(R_part, inst)
    # ... and a partition of the request that is cut by hand (index arithmetic instead of `chunks`) covers the request exactly:
    # every `&list[a..b]` whose bounds depend on a counter running over `lo..hi` is evaluated for list lengths 0..=24 and every
    # valuation of the other quantities it mentions (independent small values): the pieces must tile 0..len in order
    _hand_cut_partitions(ctx, mpq, pid)
    # ... in the order requested: nothing re-orders the names (or a per-batch copy of them) on the way, and an empty request is
    # no special case (the sequential loop still opens every archive and returns one entry per archive)
    R_ord = ctx.rule("%s.request-order-kept" % pid, "in the parallel modules: no sort / reverse / dedup / swap / rotate / shuffle of a name list, and no early `return Ok(<empty>)` guarded by an is_empty() test of the request", floor=10)
    REORD = re.compile(r"::(sort|sort_by|sort_by_key|sort_unstable|sort_unstable_by|sort_unstable_by_key|sort_by_cached_key|reverse|dedup|dedup_by|dedup_by_key|swap|swap_remove|rotate_left|rotate_right|shuffle|par_sort\w*)$")
    for f in mpq.fn_list:
        # (patch_chain.rs orders archives by priority — C08's subject; the request lists live in the two parallel modules)
        if not f.file.endswith(("single_archive_parallel.rs", "src/parallel.rs")) or "::tests::" in f.path or not f.mir.get("blocks"):
            continue
        hit = False
        for bb, t in mirg.iter_calls(f):
            cn = _nc(t) or ""
            if t.get("x") or not REORD.search(cn):
                continue
            hit = True
            ctx.saw_fn(f)
            ctx.bad(R_ord, "%s|%s" % (re.sub(r"::\{closure#\d+\}", "", norm(f.path)).split("::")[-1], cn.split("::")[-1]), "%s:%d" % (f.file, t["ln"]), "`%s` in the parallel extraction path" % cn.split("::")[-1],
                    "result slot k no longer corresponds to request slot k for request orders the re-ordering changes (the set of results is the same, so length checks still pass)")
        if f.hir and f.kind != "Closure":
            for n_ in hirq.find(f.hir["body"], "if"):
                c_ = hirq.render(n_["c"])
                if "is_empty()" in c_ and any(x.get("k") == "ret" and re.search(r"Ok\((vec!\[\]|Vec::new\(\)|.*::new\(\))\)|Ok\(\[\]", hirq.render(x.get("e"))) for x in hirq.walk(n_["then"])):
                    pn = [b for p_ in f.hir["params"] for b in hirq.pat_binds(p_)]
                    which = [p_ for p_ in pn if re.search(r"\b%s\b" % re.escape(p_), c_)]
                    # an empty *archive* list has nothing to open; an empty *name* list still has its per-archive entries / open errors
                    if any(re.search(r"name|file", w_) for w_ in which):
                        hit = True
                        ctx.saw_fn(f)
                        ctx.bad(R_ord, "%s|empty-request-shortcut" % norm(f.path).split("::")[-1], "%s:%d" % (f.file, n_.get("ln") or 0), "`if %s { return Ok(empty) }`" % c_[:60],
                                "for an empty request the sequential equivalent still yields one entry per archive (or the open error of an archive): the parallel helper returns nothing")
        if not hit:
            ctx.rules[R_ord]["obligations"] += 1
            ctx.rules[R_ord]["discharged"] += 1



def run(ctx):
    prog = ctx.prog
    mpq = prog.crate("wow_mpq")
    R_shape = ctx.rule("C09.pipeline-indexed-ordered", "each rayon pipeline: indexed root, order-preserving adapters only, collect into Vec", floor=13)
    R_cap = ctx.rule("C09.closure-captures-no-interior-mutability", "closures handed to rayon capture only data without interior mutability (deep walk)", floor=13)
    R_static = ctx.rule("C09.no-interior-mutable-statics", "wow-mpq has no static with interior mutability", floor=1)
    R_clone = ctx.rule("C09.no-shared-cursor", "nothing reachable from the parallel closures clones a File handle (shared cursor) or spawns unordered work", floor=13)
    R_skip = ctx.rule("C09.skip-errors-arms", "skip_errors=true arm has no early exit on a per-file result; the other arm has one", floor=2)
    R_handle = ctx.rule("C09.private-handle-per-task", "every Archive whose read_file is called inside a parallel task is opened inside that task", floor=6)

    adts = AdtIndex([mpq])
    cg = mirg.CallGraph([mpq])

    # the parallel path fails a name only for the reasons the sequential path does: its errors are the handle's errors
    R_own = ctx.rule("C09.no-own-failure-in-parallel-read", "functions of the parallel modules construct no error of their own (Err(new value) / early `return Err`): every Err is a propagated or re-wrapped error of open/read_file", floor=10)
    for f in mpq.fn_list:
        if not f.file.endswith(("single_archive_parallel.rs", "src/parallel.rs")) or f.kind == "Closure" or not f.hir or "::tests::" in f.path:
            continue
        own = []
        for x in hirq.walk(f.hir["body"]):
            if x.get("k") == "call" and (x.get("fn") or "").endswith("result::Result::Err") and x.get("args"):
                a = hirq.strip(x["args"][0])
                # `Err(e)` re-emits a caught error value; anything constructed here is a new failure condition
                if not (a.get("k") == "path" and "local" in a["res"]) and not (a.get("k") in ("call", "mcall") and re.search(r"::(from|into|context|with_context|map_err)$|^into$|^context$", (a.get("fn") or a.get("m") or ""))):
                    own.append(x)
        if own:
            ctx.saw_fn(f)
            ctx.bad(R_own, "%s|own-error" % norm(f.path).split("::")[-1], "%s:%d" % (f.file, own[0]["ln"]), "constructs `%s`" % hirq.render(own[0])[:70],
                    "a name can now fail on the parallel path for a reason the sequential read_file does not have (e.g. a stale or incomplete cached listing): the same request succeeds sequentially and fails in parallel")
        else:
            ctx.ok(R_own, {"fn": norm(f.path)})

    every_name_gets_a_slot(ctx, mpq, "C09")

    fns = [f for f in mpq.fn_list if f.kind != "Closure" and f.file.endswith(MODULE_FILES) and f.hir]
    # skip #[cfg(test)] — not compiled by `check`, so nothing to skip explicitly
    closure_paths = []
    for f in fns:
        body = hirq.body_of(f)
        chs = chains(body)
        if not chs:
            continue
        ctx.saw_fn(f)
        for ordn, ch in enumerate(chs):
            names = ch["names"]
            where = "%s:%d" % (f.file, ch["root"]["ln"])
            key = "%s|pipeline#%d" % (f.path, ordn)
            problems = []
            if names[0] not in ROOTS:
                problems.append("root `%s` is not an indexed producer" % names[0])
            rt = mpq.ty(ch["root"].get("rt")) or ""
            if not INDEXED_RECV.match(rt):
                problems.append("root receiver type `%s` is not a slice/Vec/range" % rt)
            for m in names[1:-1]:
                if m not in ADAPTERS:
                    problems.append("adapter `%s` is not in the order-preserving allow-list" % m)
            if names[-1] not in TERMINALS:
                problems.append("pipeline ends in `%s`, not an indexed collect" % names[-1])
            else:
                tt = mpq.ty(ch["terminal"].get("t")) or ""
                if "alloc::vec::Vec<" not in tt or re.match(r"^(std::collections|hashbrown)", tt):
                    problems.append("collects into `%s` (not a Vec / Result<Vec>)" % tt)
            if problems:
                ctx.bad(R_shape, key, where, "; ".join(problems) + "  [chain: %s]" % ".".join(names),
                        "result order/content could depend on scheduling")
            else:
                ctx.ok(R_shape, {"fn": f.path, "chain": ".".join(names), "line": ch["root"]["ln"]})
            for c in ch["closures"]:
                closure_paths.append((f, c["def"], key))

    # closures: captures
    seen_cl = set()
    for f, cpath, key in closure_paths:
        if cpath in seen_cl:
            continue
        seen_cl.add(cpath)
        cf = mpq.fns.get(cpath)
        if cf is None:
            ctx.note_unarmed(R_cap, cpath, "closure body not found in facts")
            continue
        ctx.saw_fn(cf)
        bad = []
        for cap in cf.get("captures", []):
            if cap["by"].startswith("ref:Mut") or cap["by"].startswith("ref:Unique"):
                bad.append("%s captured by mutable reference" % cap["name"])
            w = adts.interior(cap["ty"])
            if w:
                bad.append("%s: %s" % (cap["name"], w))
        ck = "%s|closure@%s|captures" % (f.path, cpath.split("::")[-1])
        if bad:
            ctx.bad(R_cap, ck, cf.where, "; ".join(bad), "shared mutable state makes slot results depend on the interleaving")
        else:
            ctx.ok(R_cap, {"closure": cpath, "captures": [(c["name"], c["by"]) for c in cf.get("captures", [])]})
        # reachable from closure
        reach = cg.local_reachable([cpath])
        offenders = []
        for p in reach:
            g = cg.fns[p]
            for bb, t in mirg.iter_calls(g):
                ctx.call_sites += 1
                c = norm(mirg.callee(t)) or ""
                if c.endswith("File::try_clone") or c in ("rayon_core::spawn", "rayon_core::spawn::spawn", "std::thread::spawn") \
                        or c.endswith("par_bridge"):
                    offenders.append("%s in %s:%d" % (c, g.file, t["ln"]))
        if offenders:
            ctx.bad(R_clone, "%s|closure@%s|%s" % (f.path, cpath.split("::")[-1], offenders[0].split(" ")[0]), cf.where,
                    "; ".join(offenders[:3]), "a cloned File shares its cursor between tasks; spawned work is unordered")
        else:
            ctx.ok(R_clone, {"closure": cpath, "reachable_fns": len(reach)})
        # private handle: calls to Archive::read_file inside the closure (and closures nested in it)
        du = mirg.DefUse(cf)
        for bb, t in mirg.iter_calls(cf):
            c = norm(mirg.callee(t)) or ""
            if c in ("wow_mpq::archive::Archive::read_file", "wow_mpq::archive::Archive::list", "wow_mpq::archive::Archive::read_file_by_indices"):
                roots = rules.Derive(cf, stop=OPEN).roots(t["a"][0])
                opened_here = any(k == "call" and w.endswith("Archive::open") for k, w, d in roots)
                from_capture = any(k == "param" and w[0] == 1 for k, w, d in roots)
                hk = "%s|closure@%s|%s" % (f.path, cpath.split("::")[-1], c.split("::")[-1])
                if opened_here and not from_capture:
                    ctx.ok(R_handle, {"closure": cpath, "call": c, "line": t["ln"]})
                else:
                    ctx.bad(R_handle, hk, "%s:%d" % (cf.file, t["ln"]), "receiver of %s is not an Archive opened inside the task" % c,
                            "tasks would share one archive handle (one file cursor, one cache)")
    # helper used by the closures: read_file_with_new_handle opens its own handle
    h = mpq.fns.get("wow_mpq::single_archive_parallel::ParallelArchive::read_file_with_new_handle")
    if h is not None:
        for bb, t in mirg.iter_calls(h):
            c = norm(mirg.callee(t)) or ""
            if c == "wow_mpq::archive::Archive::read_file":
                roots = rules.Derive(h, stop=OPEN).roots(t["a"][0])
                if any(k == "call" and w.endswith("Archive::open") for k, w, d in roots) and not any(k == "param" and dd for k, w, dd in roots):
                    ctx.ok(R_handle, {"fn": h.path, "line": t["ln"]})
                else:
                    ctx.bad(R_handle, "%s|read_file" % h.path, "%s:%d" % (h.file, t["ln"]), "read_file receiver is not a handle opened in this call",
                            "the per-task private handle is the mechanism that makes tasks independent")
    else:
        ctx.bad(R_handle, "read_file_with_new_handle|missing", "-", "helper not found", "mechanism named in the property's anchors is gone")

    # statics
    nstat = 0
    for s in mpq.items["statics"]:
        nstat += 1
        if not s["freeze"] or INTERIOR.search(s["ty"]):
            ctx.bad(R_static, "static|%s" % s["path"], "%s:%d" % (s["file"], s["ln"]), "static `%s: %s` has interior mutability" % (s["path"], s["ty"]),
                    "process-global mutable state is shared by all parallel tasks")
    if not any(v.rule == R_static for v in ctx.violations):
        ctx.ok(R_static, {"statics_in_wow_mpq": nstat})

    # skip_errors arms
    for f in fns:
        body = hirq.body_of(f)
        for n in hirq.find(body, "if"):
            c = hirq.strip(n["c"])
            negated = False
            if c and c.get("k") == "un" and c.get("op") == "Not":
                negated, c = True, hirq.strip(c["e"])
            if not (c and c.get("k") == "field" and c.get("name") == "skip_errors"):
                continue
            # (the arm taken when skip_errors is true / false, whichever way round the test is spelled)
            arm_true, arm_false = (n.get("else") or {}, n["then"]) if negated else (n["then"], n.get("else") or {})
            then_try = [x for x in hirq.find(arm_true, "try")]
            then_ret = [x for x in hirq.find(arm_true, "ret")]
            else_try = [x for x in hirq.find(arm_false, "try")]
            key = "%s|skip_errors" % f.path
            where = "%s:%d" % (f.file, n["ln"])
            if then_try or then_ret:
                ctx.bad(R_skip, key + "|then-exits", where, "the skip_errors=true arm contains an early exit (`?`/return) at line %d" % (then_try + then_ret)[0]["ln"],
                        "a failing name would abort the whole call although error-skipping was requested")
            elif not else_try:
                ctx.bad(R_skip, key + "|else-swallows", where, "the skip_errors=false arm has no `?`",
                        "a failing name would be reported per-slot although the call must fail as a whole")
            else:
                ctx.ok(R_skip, {"fn": f.path, "line": n["ln"]})


def run_extra(ctx):
    """rules armed after run(): shared rules that need nothing from run()'s locals"""
    from ..shared import setters_keep_other_settings_rule
    setters_keep_other_settings_rule(ctx, [ctx.prog.crate(c) for c in ["wow_mpq"]], "C09", "single_archive_parallel::ParallelConfig$|parallel::\\w*Config$", floor=3)
